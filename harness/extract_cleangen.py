"""Control structure of clean.py as data (part of the translator section `extract_clean`, namespace `Pytask.Generated.Cln`).

What the functions of `pytask clean` do INSIDE, read with `ast` by symbolic evaluation, emitted as small expression trees:

* `fromPath`   — `_RecursivePathNode.from_path`: when children are spawned, the three Boolean fields, as expressions over
                 is_file / is_dir / `path in known_paths` / "some exclude pattern matches" and quantifiers over the sub nodes
                 (`all(...)`, `any(...)`, comprehension truthiness, with their filters);
* `listing`    — `_find_all_unknown_paths_per_recursive_node`: when the node's path is yielded, when the sub nodes are visited;
* `findAll`    — `_find_all_unknown_paths`: which configuration key the walked paths come from, results chained in order;
* `yieldPaths` — `_yield_paths_from_task`: the `isinstance` test for the task module, the attributes walked, the if/elif chain
                 over node classes with what each arm yields; `classBases` — base classes of the node classes / protocols;
* `knownOps`   — `_collect_all_paths_known_to_pytask`: which groups of paths end up in the returned set;
* `modeLoop`   — the loop of `clean` over the unknown paths, executed symbolically once per `_CleanMode` member: under which
                 condition (answer to the prompt, --quiet, is_dir) it prints "Would remove", asks, prints "Remove", calls
                 `shutil.rmtree` / `Path.unlink`; `commandArgs` — what `_find_all_unknown_paths` is called with.

`lean/PytaskModel/CleanGen.lean` interprets these terms, `PytaskProofs/Properties/CleanTie.lean` proves the interpreters equal
to the hand-written model M8 for all inputs (by a decidable semantic check of the terms + soundness theorems), so a source
change that alters the meaning of one of these functions breaks a proof, while an equivalent rewriting does not.

Fail-closed (`ExtractError`) on every shape that is not understood. Tolerant to renamed locals, helper variables, if/elif/else
instead of and/or, flag loops instead of `any(...)`, `continue`, comments, docstrings, formatting.
"""
from __future__ import annotations

import ast
import sys


def _host():
    m = sys.modules.get("__main__")
    if m is not None and hasattr(m, "ExtractError") and hasattr(m, "_parse") and hasattr(m, "EXTRA_SECTIONS"):
        return m
    import extract
    return extract


def _err(msg: str):
    return _host().ExtractError("clean control structure: " + msg)


def _u(n) -> str:
    return ast.unparse(n)


def _body(fn) -> list:
    b = list(fn.body)
    if b and isinstance(b[0], ast.Expr) and isinstance(b[0].value, ast.Constant) and isinstance(b[0].value.value, str):
        b = b[1:]
    return b


def _params(fn) -> list[str]:
    a = fn.args
    return [x.arg for x in a.posonlyargs + a.args + a.kwonlyargs]


# ------------------------------------------------------------------------------------------------
# expression trees (tuples) and their Lean rendering
# ------------------------------------------------------------------------------------------------

def T():
    return ("tt",)


def F():
    return ("ff",)


def Not(a):
    if a[0] == "tt":
        return F()
    if a[0] == "ff":
        return T()
    return ("not", a)


def And(a, b):
    if a[0] == "tt":
        return b
    if b[0] == "tt":
        return a
    if a[0] == "ff":          # `False and x` does not evaluate x
        return F()
    return ("and", a, b)


def Or(a, b):
    if a[0] == "ff":
        return b
    if b[0] == "ff":
        return a
    if a[0] == "tt":
        return T()
    return ("or", a, b)


def Ite(c, a, b):
    if c[0] == "tt":
        return a
    if c[0] == "ff":
        return b
    if a == b:
        return a
    return ("ite", c, a, b)


def lean(e, ty: str) -> str:
    k = e[0]
    if k in ("tt", "ff"):
        return f"{ty}.{k}"
    if k == "not":
        return f"({ty}.not {lean(e[1], ty)})"
    if k in ("and", "or"):
        return f"({ty}.{k} {lean(e[1], ty)} {lean(e[2], ty)})"
    if k == "ite":
        return f"({ty}.ite {lean(e[1], ty)} {lean(e[2], ty)} {lean(e[3], ty)})"
    if k == "atom":
        return f"{ty}.{e[1]}" if ty != "SExp" else f"(SExp.atom SAtom.{e[1]})"
    if k in ("allSub", "anySub"):
        return f"(NExp.{k} {lean(e[1], 'SExp')})"
    raise _err(f"cannot render {e!r}")


SCHEMA = '''
namespace Cln
/-- What a comprehension over `sub_nodes` may ask of a sub node. -/
inductive SAtom where
  | unknown | isFile | isDir | hasSubs
  deriving DecidableEq, Repr
inductive SExp where
  | atom (a : SAtom) | tt | ff | not (a : SExp) | and (a b : SExp) | or (a b : SExp) | ite (c a b : SExp)
  deriving Repr
/-- Boolean expressions of `from_path`: `path.is_file()`, `path.is_dir()`, `path in known_paths`, "some exclude pattern
matches", `all(e for node in sub_nodes)`, `any(e for node in sub_nodes)`. -/
inductive NExp where
  | isFile | isDir | known | excl | allSub (e : SExp) | anySub (e : SExp)
  | tt | ff | not (a : NExp) | and (a b : NExp) | or (a b : NExp) | ite (c a b : NExp)
  deriving Repr
structure FromPath where
  spawn : NExp          -- `sub_nodes` = from_path of every entry of `path.iterdir()` under this condition, else `[]`
  isDirField : NExp
  isFileField : NExp
  unknown : NExp
  deriving Repr
/-- Expressions of the listing: the node's `is_unknown`, `is_file`, `is_dir`, and `include_directories`. -/
inductive LExp where
  | unknown | isFile | isDir | incl | tt | ff | not (a : LExp) | and (a b : LExp) | or (a b : LExp) | ite (c a b : LExp)
  deriving Repr
structure Listing where
  yieldSelf : LExp      -- `yield node.path`
  descend : LExp        -- `yield from` the listing of every sub node, in order
  deriving Repr
structure FindAll where
  rootsKey : String     -- `session.config[<key>]` is walked
  chained : Bool        -- the listings of the roots are concatenated in order
  deriving Repr
inductive YAct where
  | path | collect      -- `yield node.path` / `yield from node.collect()`
  deriving DecidableEq, Repr
structure YieldPaths where
  taskTest : String                 -- `if isinstance(task, <class>): yield task.path`
  attrs : List String
  arms : List (String × YAct)       -- if / elif chain over `isinstance(node, <class>)`, first match wins
  deriving Repr
inductive KOp where
  | taskPaths | parentsOfFiles | config (guarded : Bool) | root | git
  deriving DecidableEq, Repr
/-- Expressions of the command loop: the answer to the prompt, `--quiet`, `path.is_dir()`. -/
inductive MExp where
  | confirm | quiet | isDir | tt | ff | not (a : MExp) | and (a b : MExp) | or (a b : MExp) | ite (c a b : MExp)
  deriving Repr
structure ModeBeh where
  would : MExp          -- prints "Would remove …"
  asks : MExp           -- evaluates `click.confirm(…)`
  printsRemove : MExp   -- prints "Remove …"
  rmtree : MExp         -- calls `shutil.rmtree(path)`
  unlink : MExp         -- calls `path.unlink()`
  deriving Repr
structure CommandArgs where
  known : String        -- first data argument of `_find_all_unknown_paths`
  exclude : String
  dirs : String
  loopOver : String     -- what the loop iterates over
  deriving Repr
'''


# ------------------------------------------------------------------------------------------------
# from_path
# ------------------------------------------------------------------------------------------------

class _FromPath:
    def __init__(self, fn, clsname: str):
        self.fn = fn
        self.clsname = clsname
        ps = _params(fn)
        if len(ps) != 4:
            raise _err(f"from_path has parameters {ps}, expected (cls, path, known_paths, exclude)")
        self.cls, self.path, self.known, self.exclude = ps
        self.result = None

    # --- sub-node expressions
    def sexp(self, e, var: str):
        if isinstance(e, ast.Constant) and isinstance(e.value, bool):
            return T() if e.value else F()
        if isinstance(e, ast.UnaryOp) and isinstance(e.op, ast.Not):
            return Not(self.sexp(e.operand, var))
        if isinstance(e, ast.BoolOp):
            parts = [self.sexp(v, var) for v in e.values]
            out = parts[0]
            for p in parts[1:]:
                out = And(out, p) if isinstance(e.op, ast.And) else Or(out, p)
            return out
        if isinstance(e, ast.IfExp):
            return Ite(self.sexp(e.test, var), self.sexp(e.body, var), self.sexp(e.orelse, var))
        if isinstance(e, ast.Attribute) and isinstance(e.value, ast.Name) and e.value.id == var:
            m = {"is_unknown": "unknown", "is_file": "isFile", "is_dir": "isDir", "sub_nodes": "hasSubs"}
            if e.attr in m:
                return ("atom", m[e.attr])
        if isinstance(e, ast.Call) and _u(e.func) in ("bool", "len") and len(e.args) == 1 and _u(e.args[0]) == f"{var}.sub_nodes":
            return ("atom", "hasSubs")
        raise _err(f"from_path: expression about a sub node not understood: {_u(e)}")

    def is_sub(self, e, env) -> bool:
        return isinstance(e, ast.Name) and env.get(e.id, (None,))[0] == "sub"

    def is_match(self, e, var: str) -> bool:
        return (isinstance(e, ast.Call) and isinstance(e.func, ast.Attribute) and e.func.attr == "match"
                and _u(e.func.value) == self.path and len(e.args) == 1 and _u(e.args[0]) == var and not e.keywords)

    def quant(self, kind: str, gen, env):
        """any(...) / all(...) / truthiness ('some') of a comprehension."""
        if len(gen.generators) != 1 or gen.generators[0].is_async or not isinstance(gen.generators[0].target, ast.Name):
            raise _err(f"from_path: comprehension not understood: {_u(gen)}")
        g = gen.generators[0]
        var = g.target.id
        if _u(g.iter) == self.exclude:
            if g.ifs:
                raise _err(f"from_path: filtered iteration over the exclude patterns: {_u(gen)}")
            elt = gen.elt
            if kind == "any" and self.is_match(elt, var):
                return ("atom", "excl")
            if kind == "all" and isinstance(elt, ast.UnaryOp) and isinstance(elt.op, ast.Not) and self.is_match(elt.operand, var):
                return Not(("atom", "excl"))
            raise _err(f"from_path: test over the exclude patterns not understood: {_u(gen)}")
        if self.is_sub(g.iter, env):
            cond = T()
            for c in g.ifs:
                cond = And(cond, self.sexp(c, var))
            if kind == "some":
                return ("anySub", cond)
            elt = self.sexp(gen.elt, var)
            if kind == "any":
                return ("anySub", And(cond, elt))
            return ("allSub", Or(Not(cond), elt))
        raise _err(f"from_path: iteration over {_u(g.iter)} not understood")

    def nexp(self, e, env):
        if isinstance(e, ast.Constant) and isinstance(e.value, bool):
            return T() if e.value else F()
        if isinstance(e, ast.UnaryOp) and isinstance(e.op, ast.Not):
            return Not(self.nexp(e.operand, env))
        if isinstance(e, ast.BoolOp):
            parts = [self.nexp(v, env) for v in e.values]
            out = parts[0]
            for p in parts[1:]:
                out = And(out, p) if isinstance(e.op, ast.And) else Or(out, p)
            return out
        if isinstance(e, ast.IfExp):
            return Ite(self.nexp(e.test, env), self.nexp(e.body, env), self.nexp(e.orelse, env))
        if isinstance(e, ast.Name):
            v = env.get(e.id)
            if v is None or v[0] != "b":
                raise _err(f"from_path: {e.id} is used as a Boolean but is not one the translator followed")
            return v[1]
        if isinstance(e, ast.Compare) and len(e.ops) == 1 and _u(e.left) == self.path and _u(e.comparators[0]) == self.known:
            if isinstance(e.ops[0], ast.In):
                return ("atom", "known")
            if isinstance(e.ops[0], ast.NotIn):
                return Not(("atom", "known"))
        if isinstance(e, ast.Compare) and len(e.ops) == 1 and isinstance(e.left, ast.Call) and _u(e.left.func) == "len" \
                and isinstance(e.comparators[0], ast.Constant) and e.comparators[0].value == 0 and len(e.left.args) == 1 \
                and isinstance(e.left.args[0], (ast.ListComp, ast.Name)):
            inner = self.truthy(e.left.args[0], env)
            if isinstance(e.ops[0], ast.Eq):
                return Not(inner)
            if isinstance(e.ops[0], (ast.NotEq, ast.Gt)):
                return inner
        if isinstance(e, ast.Call):
            f = _u(e.func)
            if f == f"{self.path}.is_dir" and not e.args:
                return ("atom", "isDir")
            if f == f"{self.path}.is_file" and not e.args:
                return ("atom", "isFile")
            if f in ("any", "all") and len(e.args) == 1 and isinstance(e.args[0], (ast.GeneratorExp, ast.ListComp)):
                return self.quant(f, e.args[0], env)
            if f == "bool" and len(e.args) == 1:
                return self.truthy(e.args[0], env)
        if isinstance(e, (ast.ListComp, ast.GeneratorExp)):
            return self.truthy(e, env)
        raise _err(f"from_path: Boolean expression not understood: {_u(e)}")

    def truthy(self, e, env):
        if isinstance(e, ast.ListComp):
            return self.quant("some", e, env)
        if self.is_sub(e, env):
            return ("anySub", T())
        return self.nexp(e, env)

    # --- the list of sub nodes
    def is_rec_call(self, e, var: str) -> bool:
        if not (isinstance(e, ast.Call) and isinstance(e.func, ast.Attribute) and e.func.attr == "from_path"
                and _u(e.func.value) in (self.cls, self.clsname)):
            return False
        args = [_u(a) for a in e.args] + [_u(k.value) for k in e.keywords]
        if args != [var, self.known, self.exclude]:
            raise _err(f"from_path: the recursive call passes {args}, expected ({var}, {self.known}, {self.exclude})")
        return True

    def is_iterdir(self, e) -> bool:
        s = _u(e)
        return s in (f"{self.path}.iterdir()", f"sorted({self.path}.iterdir())", f"list({self.path}.iterdir())")

    def subval(self, e, env):
        """value of an expression that builds the list of sub nodes, or None"""
        if isinstance(e, ast.List) and not e.elts:
            return ("sub", F())
        if isinstance(e, ast.ListComp) and len(e.generators) == 1 and isinstance(e.generators[0].target, ast.Name) \
                and self.is_iterdir(e.generators[0].iter) and self.is_rec_call(e.elt, e.generators[0].target.id):
            if e.generators[0].ifs:
                raise _err("from_path: the entries of the directory are filtered before nodes are made of them")
            return ("sub", T())
        if isinstance(e, ast.IfExp):
            a, b = self.subval(e.body, env), self.subval(e.orelse, env)
            if a is not None and b is not None:
                return ("sub", Ite(self.nexp(e.test, env), a[1], b[1]))
        return None

    # --- statements
    def assign(self, name: str, value, env):
        sv = self.subval(value, env)
        if sv is not None:
            env[name] = sv
            return
        try:
            env[name] = ("b", self.nexp(value, env))
        except Exception as ex:  # noqa: BLE001 - not a Boolean the translator understands: only an error if it is used
            env[name] = ("other", str(ex))

    def exec(self, stmts, env):
        for st in stmts:
            if self.result is not None:
                raise _err("from_path: statements after the return")
            if isinstance(st, ast.Expr) and isinstance(st.value, ast.Constant):
                continue
            if isinstance(st, ast.Assign) and len(st.targets) == 1 and isinstance(st.targets[0], ast.Name):
                self.assign(st.targets[0].id, st.value, env)
            elif isinstance(st, ast.AnnAssign) and isinstance(st.target, ast.Name) and st.value is not None:
                self.assign(st.target.id, st.value, env)
            elif isinstance(st, ast.If):
                c = self.nexp(st.test, env)
                e1, e2 = dict(env), dict(env)
                self.exec(st.body, e1)
                r1, self.result = self.result, None
                self.exec(st.orelse, e2)
                r2, self.result = self.result, None
                if (r1 is None) != (r2 is None):
                    raise _err("from_path: return in one branch of an if only")
                if r1 is not None:
                    self.result = tuple(Ite(c, a, b) for a, b in zip(r1, r2))
                for k in set(e1) | set(e2):
                    a, b = e1.get(k), e2.get(k)
                    if a == b:
                        env[k] = a
                    elif a is not None and b is not None and a[0] == b[0] and a[0] in ("b", "sub"):
                        env[k] = (a[0], Ite(c, a[1], b[1]))
                    else:
                        env[k] = ("other", f"{k} is not assigned a value of one kind on both branches of `if {_u(st.test)}`")
            elif isinstance(st, ast.For):
                self.exec_for(st, env)
            elif isinstance(st, ast.Return):
                self.result = self.ret(st.value, env)
            else:
                raise _err(f"from_path: statement not understood: {_u(st)[:80]}")

    def exec_for(self, st, env):
        if st.orelse or not isinstance(st.target, ast.Name):
            raise _err(f"from_path: loop not understood: {_u(st)[:80]}")
        var = st.target.id
        # flag loop over the exclude patterns: `for pattern in exclude: if path.match(pattern): flag = True; break`
        if _u(st.iter) == self.exclude and len(st.body) == 1 and isinstance(st.body[0], ast.If) and not st.body[0].orelse \
                and self.is_match(st.body[0].test, var):
            inner = [s for s in st.body[0].body if not isinstance(s, ast.Break)]
            if len(inner) == 1 and isinstance(inner[0], ast.Assign) and len(inner[0].targets) == 1 \
                    and isinstance(inner[0].targets[0], ast.Name) and isinstance(inner[0].value, ast.Constant) \
                    and inner[0].value.value is True:
                name = inner[0].targets[0].id
                prev = env.get(name, ("b", F()))
                if prev[0] != "b":
                    raise _err(f"from_path: flag {name} of the loop over the exclude patterns is not a Boolean")
                env[name] = ("b", Or(prev[1], ("atom", "excl")))
                return
        # `for p in path.iterdir(): sub_nodes.append(from_path(p, …))`
        if self.is_iterdir(st.iter) and len(st.body) == 1 and isinstance(st.body[0], ast.Expr) \
                and isinstance(st.body[0].value, ast.Call) and isinstance(st.body[0].value.func, ast.Attribute) \
                and st.body[0].value.func.attr == "append" and isinstance(st.body[0].value.func.value, ast.Name) \
                and len(st.body[0].value.args) == 1 and self.is_rec_call(st.body[0].value.args[0], var):
            name = st.body[0].value.func.value.id
            prev = env.get(name)
            if prev is None or prev[0] != "sub" or prev[1] != F():
                raise _err(f"from_path: nodes are appended to {name}, which is not an empty list at that point")
            env[name] = ("sub", T())
            return
        raise _err(f"from_path: loop not understood: {_u(st)[:80]}")

    def ret(self, value, env):
        if not (isinstance(value, ast.Call) and _u(value.func) in (self.cls, self.clsname)):
            raise _err(f"from_path: does not return {self.cls}(…): {_u(value)[:80]}")
        fields = ["path", "sub_nodes", "is_dir", "is_file", "is_unknown"]
        got = {}
        for i, a in enumerate(value.args):
            got[fields[i]] = a
        for k in value.keywords:
            got[k.arg] = k.value
        if sorted(got) != sorted(fields):
            raise _err(f"from_path: the node is built from {sorted(got)}")
        if _u(got["path"]) != self.path:
            raise _err("from_path: the node does not carry the path it was made for")
        sv = got["sub_nodes"]
        sub = env.get(sv.id) if isinstance(sv, ast.Name) else self.subval(sv, env)
        if sub is None or sub[0] != "sub":
            raise _err("from_path: the list of sub nodes was not followed")
        return (sub[1], self.nexp(got["is_dir"], env), self.nexp(got["is_file"], env), self.nexp(got["is_unknown"], env))

    def run(self):
        self.exec(_body(self.fn), {})
        if self.result is None:
            raise _err("from_path: no return")
        return self.result


# ------------------------------------------------------------------------------------------------
# listing
# ------------------------------------------------------------------------------------------------

def _listing(fn):
    ps = _params(fn)
    if len(ps) != 2:
        raise _err(f"_find_all_unknown_paths_per_recursive_node has parameters {ps}")
    node, incl = ps
    name = fn.name

    def lexp(e):
        if isinstance(e, ast.Constant) and isinstance(e.value, bool):
            return T() if e.value else F()
        if isinstance(e, ast.UnaryOp) and isinstance(e.op, ast.Not):
            return Not(lexp(e.operand))
        if isinstance(e, ast.BoolOp):
            parts = [lexp(v) for v in e.values]
            out = parts[0]
            for p in parts[1:]:
                out = And(out, p) if isinstance(e.op, ast.And) else Or(out, p)
            return out
        if isinstance(e, ast.IfExp):
            return Ite(lexp(e.test), lexp(e.body), lexp(e.orelse))
        s = _u(e)
        m = {f"{node}.is_unknown": "unknown", f"{node}.is_file": "isFile", f"{node}.is_dir": "isDir", incl: "incl"}
        if s in m:
            return ("atom", m[s])
        raise _err(f"listing: expression not understood: {s}")

    out = {"self": F(), "descend": F()}

    def run(stmts, live):
        for st in stmts:
            if isinstance(st, ast.Expr) and isinstance(st.value, ast.Constant):
                continue
            if isinstance(st, ast.Expr) and isinstance(st.value, ast.Yield):
                if _u(st.value.value) != f"{node}.path":
                    raise _err(f"listing: yields {_u(st.value.value)}")
                if out["descend"] != F():
                    raise _err("listing: the node's own path is yielded after its sub nodes were visited")
                out["self"] = Or(out["self"], live)
            elif isinstance(st, ast.For):
                ok = (isinstance(st.target, ast.Name) and _u(st.iter) == f"{node}.sub_nodes" and len(st.body) == 1 and not st.orelse
                      and isinstance(st.body[0], ast.Expr) and isinstance(st.body[0].value, ast.YieldFrom)
                      and isinstance(st.body[0].value.value, ast.Call) and _u(st.body[0].value.value.func) == name
                      and [_u(a) for a in st.body[0].value.value.args] + [_u(k.value) for k in st.body[0].value.value.keywords]
                      == [st.target.id, incl])
                if not ok:
                    raise _err(f"listing: loop not understood: {_u(st)[:100]}")
                out["descend"] = Or(out["descend"], live)
            elif isinstance(st, ast.If):
                c = lexp(st.test)
                l1 = run(st.body, And(live, c))
                l2 = run(st.orelse, And(live, Not(c)))
                live = Or(l1, l2)
            elif isinstance(st, ast.Return) and st.value is None:
                return F()
            else:
                raise _err(f"listing: statement not understood: {_u(st)[:80]}")
        return live

    run(_body(fn), T())
    return out["self"], out["descend"]


def _find_all(fn, listing_name: str, clsname: str):
    ps = _params(fn)
    if len(ps) != 4:
        raise _err(f"_find_all_unknown_paths has parameters {ps}")
    session, known, exclude, incl = ps
    src = _u(fn)
    roots_key = None
    for n in ast.walk(fn):
        if isinstance(n, (ast.ListComp, ast.GeneratorExp)) and isinstance(n.elt, ast.Call) and _u(n.elt.func) == f"{clsname}.from_path":
            g = n.generators[0]
            if len(n.generators) != 1 or g.ifs:
                raise _err("_find_all_unknown_paths: the walked paths are filtered")
            if [_u(a) for a in n.elt.args] != [_u(g.target), known, exclude]:
                raise _err(f"_find_all_unknown_paths: from_path is called with {[_u(a) for a in n.elt.args]}")
            it = g.iter
            if isinstance(it, ast.Subscript) and _u(it.value) == f"{session}.config" and isinstance(it.slice, ast.Constant):
                roots_key = it.slice.value
            else:
                raise _err(f"_find_all_unknown_paths: walks {_u(it)}")
    if roots_key is None:
        raise _err("_find_all_unknown_paths: construction of the nodes not recognised")
    calls = [n for n in ast.walk(fn) if isinstance(n, ast.Call) and _u(n.func) == listing_name]
    if len(calls) != 1 or len(calls[0].args) != 2 or _u(calls[0].args[1]) != incl:
        raise _err("_find_all_unknown_paths: the listing is not called once with (node, include_directories)")
    chained = ("itertools.chain.from_iterable(" in src) or (".extend(" in src) or ("yield from" in src)
    if not chained:
        raise _err("_find_all_unknown_paths: the per-node listings are not concatenated in a way the translator knows")
    return roots_key, True


# ------------------------------------------------------------------------------------------------
# known paths
# ------------------------------------------------------------------------------------------------

def _yield_paths(fn):
    ps = _params(fn)
    if len(ps) != 1:
        raise _err(f"_yield_paths_from_task has parameters {ps}")
    task = ps[0]
    body = _body(fn)
    task_test = None
    attrs = None
    arms = []
    for st in body:
        if isinstance(st, ast.If) and not st.orelse and isinstance(st.test, ast.Call) and _u(st.test.func) == "isinstance" \
                and _u(st.test.args[0]) == task and [_u(x) for x in st.body] == [f"yield {task}.path"]:
            if task_test is not None:
                raise _err("_yield_paths_from_task: two tests of the task")
            task_test = _u(st.test.args[1])
        elif isinstance(st, ast.For) and isinstance(st.iter, (ast.Tuple, ast.List)) and attrs is None \
                and all(isinstance(e, ast.Constant) and isinstance(e.value, str) for e in st.iter.elts) \
                and len(st.body) == 1 and isinstance(st.body[0], ast.For) and not st.orelse:
            attrs = [e.value for e in st.iter.elts]
            inner = st.body[0]
            if _u(inner.iter) != f"tree_leaves(getattr({task}, {_u(st.target)}))" or not isinstance(inner.target, ast.Name) \
                    or len(inner.body) != 1 or not isinstance(inner.body[0], ast.If):
                raise _err("_yield_paths_from_task: loop over the leaves not understood")
            node = inner.target.id
            cur = inner.body[0]
            while cur is not None:
                t = cur.test
                if not (isinstance(t, ast.Call) and _u(t.func) == "isinstance" and len(t.args) == 2 and _u(t.args[0]) == node
                        and isinstance(t.args[1], ast.Name)):
                    raise _err(f"_yield_paths_from_task: test not understood: {_u(t)}")
                acts = [_u(x) for x in cur.body]
                if acts == [f"yield {node}.path"]:
                    arms.append((t.args[1].id, "path"))
                elif acts == [f"yield from {node}.collect()"]:
                    arms.append((t.args[1].id, "collect"))
                else:
                    raise _err(f"_yield_paths_from_task: arm not understood: {acts}")
                if not cur.orelse:
                    cur = None
                elif len(cur.orelse) == 1 and isinstance(cur.orelse[0], ast.If):
                    cur = cur.orelse[0]
                else:
                    raise _err("_yield_paths_from_task: else branch not understood")
        else:
            raise _err(f"_yield_paths_from_task: statement not understood: {_u(st)[:80]}")
    if task_test is None or attrs is None:
        raise _err("_yield_paths_from_task: task path / node loop not found")
    return task_test, attrs, arms


def _class_bases(names: list[str]) -> list[tuple[str, list[str]]]:
    out = []
    for modname in ("nodes.py", "node_protocols.py"):
        mod = _host()._parse(modname)
        for n in mod.body:
            if isinstance(n, ast.ClassDef) and n.name in names:
                out.append((n.name, [_u(b) for b in n.bases if _u(b) not in ("Protocol", "object")]))
    return out


def _known_ops(fn):
    """Which groups of paths reach the returned set (data flow over simple set operations)."""
    ps = _params(fn)
    session = ps[0]
    env: dict[str, set] = {}
    ret = None

    def val(e):
        if isinstance(e, ast.Call) and _u(e.func) == "set" and not e.args:
            return set()
        if isinstance(e, ast.Call) and _u(e.func) == "set" and len(e.args) == 1:
            return val(e.args[0])
        if isinstance(e, ast.Name) and e.id in env:
            return set(env[e.id])
        if isinstance(e, ast.BinOp) and isinstance(e.op, ast.BitOr):
            return val(e.left) | val(e.right)
        if isinstance(e, ast.Call) and isinstance(e.func, ast.Attribute) and e.func.attr == "union":
            out = val(e.func.value)
            for a in e.args:
                out |= val(a)
            return out
        if isinstance(e, (ast.Set, ast.List, ast.Tuple)) and not e.elts:
            return set()
        raise _err(f"_collect_all_paths_known_to_pytask: set expression not understood: {_u(e)[:80]}")

    def run(stmts, guard: tuple):
        nonlocal ret
        for st in stmts:
            if isinstance(st, ast.Expr) and isinstance(st.value, ast.Constant):
                continue
            if isinstance(st, (ast.Assign, ast.AnnAssign)):
                tgt = st.targets[0] if isinstance(st, ast.Assign) else st.target
                if not isinstance(tgt, ast.Name) or st.value is None:
                    raise _err(f"_collect_all_paths_known_to_pytask: assignment not understood: {_u(st)[:80]}")
                s = _u(st.value)
                if s.startswith("get_root(") or s.startswith("get_all_files(") or isinstance(st.value, ast.ListComp):
                    env[tgt.id] = {("gitpart", tgt.id)}       # the git block is read by extract_clean (cwd, join base, .git)
                else:
                    env[tgt.id] = val(st.value)
            elif isinstance(st, ast.For):
                # for task in session.tasks: X.update(_yield_paths_from_task(task)) | for path in FILES: X.update(path.parents)
                if len(st.body) == 1 and isinstance(st.body[0], ast.Expr) and isinstance(st.body[0].value, ast.Call) \
                        and isinstance(st.body[0].value.func, ast.Attribute) and st.body[0].value.func.attr == "update" \
                        and isinstance(st.body[0].value.func.value, ast.Name) and len(st.body[0].value.args) == 1 and not st.orelse:
                    tgt = st.body[0].value.func.value.id
                    arg = _u(st.body[0].value.args[0])
                    var = _u(st.target)
                    if _u(st.iter) == f"{session}.tasks" and arg == f"_yield_paths_from_task({var})":
                        env.setdefault(tgt, set()).add("taskPaths")
                        continue
                    if arg == f"{var}.parents" and isinstance(st.iter, ast.Name) and env.get(st.iter.id) == {"taskPaths"}:
                        env.setdefault(tgt, set()).add("parentsOfFiles")
                        continue
                raise _err(f"_collect_all_paths_known_to_pytask: loop not understood: {_u(st)[:100]}")
            elif isinstance(st, ast.If):
                t = _u(st.test)
                if st.orelse:
                    raise _err(f"_collect_all_paths_known_to_pytask: else branch of `if {t}`")
                if t == f"{session}.config['config']" or t == f"{session}.config['config'] is not None":
                    run(st.body, guard + ("config",))
                elif t == "is_git_installed()" or t.endswith("is not None") or "is_git_installed()" in t:
                    run(st.body, guard + ("git",))
                else:
                    raise _err(f"_collect_all_paths_known_to_pytask: condition not understood: {t}")
            elif isinstance(st, ast.Expr) and isinstance(st.value, ast.Call) and isinstance(st.value.func, ast.Attribute) \
                    and isinstance(st.value.func.value, ast.Name) and st.value.func.attr in ("add", "update") and len(st.value.args) == 1:
                tgt = st.value.func.value.id
                a = _u(st.value.args[0])
                cur = env.setdefault(tgt, set())
                if a == f"{session}.config['config']" and st.value.func.attr == "add":
                    cur.add(("config", "config" in guard))
                elif a == f"{session}.config['root']" and st.value.func.attr == "add":
                    if guard:
                        raise _err("_collect_all_paths_known_to_pytask: the root is added under a condition")
                    cur.add("root")
                elif "git" in guard:
                    cur.add("git")
                else:
                    raise _err(f"_collect_all_paths_known_to_pytask: {_u(st)[:80]} not understood")
            elif isinstance(st, ast.Return):
                if guard:
                    raise _err("_collect_all_paths_known_to_pytask: conditional return")
                ret = val(st.value)
            else:
                raise _err(f"_collect_all_paths_known_to_pytask: statement not understood: {_u(st)[:80]}")

    run(_body(fn), ())
    if ret is None:
        raise _err("_collect_all_paths_known_to_pytask: no return")
    ops = []
    for o in sorted(ret, key=str):
        if o == "taskPaths":
            ops.append("KOp.taskPaths")
        elif o == "parentsOfFiles":
            ops.append("KOp.parentsOfFiles")
        elif o == "root":
            ops.append("KOp.root")
        elif o == "git":
            ops.append("KOp.git")
        elif isinstance(o, tuple) and o[0] == "config":
            ops.append(f"(KOp.config {'true' if o[1] else 'false'})")
        elif isinstance(o, tuple) and o[0] == "gitpart":
            continue
        else:
            raise _err(f"_collect_all_paths_known_to_pytask: unknown contribution {o!r}")
    return ops


# ------------------------------------------------------------------------------------------------
# the command loop
# ------------------------------------------------------------------------------------------------

def _mode_loop(fn, modes: list[tuple[str, str]]):
    """Find `for path in <unknown paths>:` inside `clean` and execute its body symbolically for every mode."""
    loops = []
    assigns: dict[str, ast.AST] = {}
    for n in ast.walk(fn):
        if isinstance(n, ast.Assign) and len(n.targets) == 1 and isinstance(n.targets[0], ast.Name):
            assigns.setdefault(n.targets[0].id, n.value)
    for n in ast.walk(fn):
        if isinstance(n, ast.For) and isinstance(n.iter, ast.Name) and isinstance(assigns.get(n.iter.id), ast.Call) \
                and _u(assigns[n.iter.id].func) == "_find_all_unknown_paths":
            loops.append(n)
    if len(loops) != 1:
        raise _err(f"clean: {len(loops)} loops over the result of _find_all_unknown_paths")
    loop = loops[0]
    if loop.orelse or not isinstance(loop.target, ast.Name):
        raise _err("clean: loop over the unknown paths not understood")
    path = loop.target.id
    call = assigns[loop.iter.id]
    cargs = [_u(a) for a in call.args]
    if len(cargs) != 4 or call.keywords:
        raise _err(f"clean: _find_all_unknown_paths is called with {cargs}")

    def resolve(s: str) -> str:
        seen = 0
        while s in assigns and seen < 5:
            s = _u(assigns[s])
            seen += 1
        return s

    command_args = {"known": resolve(cargs[1]), "exclude": resolve(cargs[2]), "dirs": resolve(cargs[3]),
                    "loopOver": "_find_all_unknown_paths"}
    # the listing must be computed before the loop, not inside it
    for n in ast.walk(loop):
        if isinstance(n, ast.Call) and _u(n.func) in ("_find_all_unknown_paths", "_collect_all_paths_known_to_pytask"):
            raise _err("clean: the unknown paths are recomputed inside the loop")

    member_of = {f"_CleanMode.{m}": v for m, v in modes}
    result = []
    for mname, mval in modes:
        out = {"would": F(), "asks": F(), "printsRemove": F(), "rmtree": F(), "unlink": F()}

        def is_mode_expr(e) -> bool:
            s = resolve(_u(e)) if isinstance(e, ast.Name) else _u(e)
            return s == "session.config['mode']"

        def mexp(e, env, live):
            if isinstance(e, ast.Constant) and isinstance(e.value, bool):
                return T() if e.value else F()
            if isinstance(e, ast.UnaryOp) and isinstance(e.op, ast.Not):
                return Not(mexp(e.operand, env, live))
            if isinstance(e, ast.BoolOp):
                acc = mexp(e.values[0], env, live)
                for v in e.values[1:]:
                    if isinstance(e.op, ast.And):
                        acc = And(acc, mexp(v, env, And(live, acc)))
                    else:
                        acc = Or(acc, mexp(v, env, And(live, Not(acc))))
                return acc
            if isinstance(e, ast.IfExp):
                c = mexp(e.test, env, live)
                return Ite(c, mexp(e.body, env, And(live, c)), mexp(e.orelse, env, And(live, Not(c))))
            if isinstance(e, ast.Compare) and len(e.ops) == 1:
                l, r = e.left, e.comparators[0]
                if is_mode_expr(r) and not is_mode_expr(l):
                    l, r = r, l
                if is_mode_expr(l):
                    if isinstance(e.ops[0], (ast.Eq, ast.Is, ast.NotEq, ast.IsNot)) and _u(r) in member_of:
                        eq = _u(r) == f"_CleanMode.{mname}"
                        return (T() if eq else F()) if isinstance(e.ops[0], (ast.Eq, ast.Is)) else (F() if eq else T())
                    if isinstance(e.ops[0], (ast.In, ast.NotIn)) and isinstance(r, (ast.Tuple, ast.List, ast.Set)) \
                            and all(_u(x) in member_of for x in r.elts):
                        inside = f"_CleanMode.{mname}" in [_u(x) for x in r.elts]
                        return (T() if inside else F()) if isinstance(e.ops[0], ast.In) else (F() if inside else T())
            if isinstance(e, ast.Name) and e.id in env:
                return env[e.id]
            if isinstance(e, ast.Subscript) and _u(e) == "session.config['quiet']":
                return ("atom", "quiet")
            if isinstance(e, ast.Call) and _u(e.func) == "click.confirm":
                out["asks"] = Or(out["asks"], live)
                return ("atom", "confirm")
            if isinstance(e, ast.Call) and _u(e.func) == f"{path}.is_dir" and not e.args:
                return ("atom", "isDir")
            if isinstance(e, ast.Call) and _u(e.func) == f"{path}.is_file" and not e.args:
                return Not(("atom", "isDir"))
            raise _err(f"clean loop: condition not understood: {_u(e)[:80]}")

        def effect(call, env, live):
            f = call.func
            fs = _u(f)
            if fs == "console.print" and call.args:
                a = call.args[0]
                txt = "".join(v.value for v in a.values if isinstance(v, ast.Constant) and isinstance(v.value, str)) \
                    if isinstance(a, ast.JoinedStr) else (a.value if isinstance(a, ast.Constant) and isinstance(a.value, str) else "")
                if txt.startswith("Would remove"):
                    out["would"] = Or(out["would"], live)
                elif txt.startswith("Remove"):
                    out["printsRemove"] = Or(out["printsRemove"], live)
                else:
                    raise _err(f"clean loop: prints {txt!r} for a path")
                return
            if fs == "shutil.rmtree" and [_u(x) for x in call.args] == [path]:
                out["rmtree"] = Or(out["rmtree"], live)
                return
            if fs in (f"{path}.unlink", "Path.unlink", "os.remove", "os.unlink") and [_u(x) for x in call.args] in ([], [path]):
                out["unlink"] = Or(out["unlink"], live)
                return
            if isinstance(f, ast.IfExp) and [_u(x) for x in call.args] == [path]:      # (rmtree if is_dir else unlink)(path)
                c = mexp(f.test, env, live)
                effect(ast.Call(func=f.body, args=call.args, keywords=[]), env, And(live, c))
                effect(ast.Call(func=f.orelse, args=call.args, keywords=[]), env, And(live, Not(c)))
                return
            raise _err(f"clean loop: call not understood: {_u(call)[:80]}")

        def run(stmts, env, live):
            for st in stmts:
                if isinstance(st, ast.Expr) and isinstance(st.value, ast.Constant):
                    continue
                if isinstance(st, ast.Assign) and len(st.targets) == 1 and isinstance(st.targets[0], ast.Name):
                    s = _u(st.value)
                    if s.startswith("relative_to(") or s == "session.config['mode']":
                        continue
                    env[st.targets[0].id] = mexp(st.value, env, live)
                elif isinstance(st, ast.If):
                    c = mexp(st.test, env, live)
                    e1, e2 = dict(env), dict(env)
                    l1 = run(st.body, e1, And(live, c))
                    l2 = run(st.orelse, e2, And(live, Not(c)))
                    for k in set(e1) | set(e2):
                        if e1.get(k) != e2.get(k):
                            if k in e1 and k in e2:
                                env[k] = Ite(c, e1[k], e2[k])
                            else:
                                env.pop(k, None)
                        else:
                            env[k] = e1[k]
                    live = Or(l1, l2)
                elif isinstance(st, ast.Continue):
                    return F()
                elif isinstance(st, ast.Expr) and isinstance(st.value, ast.Call):
                    effect(st.value, env, live)
                else:
                    raise _err(f"clean loop: statement not understood: {_u(st)[:80]}")
            return live

        run(loop.body, {}, T())
        result.append((mval, out))
    return result, command_args


# ------------------------------------------------------------------------------------------------
# section text
# ------------------------------------------------------------------------------------------------

def gen_lines(clean: ast.Module, modes: list[tuple[str, str]]) -> list[str]:
    lean_str = _host().lean_str
    lean_list = _host().lean_list
    cls = [n for n in clean.body if isinstance(n, ast.ClassDef) and n.name == "_RecursivePathNode"]
    if len(cls) != 1:
        raise _err("class _RecursivePathNode not found")
    fps = [n for n in cls[0].body if isinstance(n, ast.FunctionDef) and n.name == "from_path"]
    if len(fps) != 1 or not any(_u(d) == "classmethod" for d in fps[0].decorator_list):
        raise _err("_RecursivePathNode.from_path (classmethod) not found")
    spawn, isdir, isfile, unknown = _FromPath(fps[0], "_RecursivePathNode").run()

    func = _host()._func
    lfn = func(clean, "_find_all_unknown_paths_per_recursive_node")
    ys, desc = _listing(lfn)
    roots_key, chained = _find_all(func(clean, "_find_all_unknown_paths"), lfn.name, "_RecursivePathNode")
    task_test, attrs, arms = _yield_paths(func(clean, "_yield_paths_from_task"))
    names = sorted({"PathNode", "PickleNode", "DirectoryNode", "PythonNode", "PPathNode", "PNode", "PProvisionalNode",
                    "PTaskWithPath", "PTask"} | {a for a, _ in arms} | {task_test})
    bases = _class_bases(names)
    ops = _known_ops(func(clean, "_collect_all_paths_known_to_pytask"))
    cfn = [n for n in clean.body if isinstance(n, ast.FunctionDef) and n.name == "clean"]
    if len(cfn) != 1:
        raise _err("command function clean not found")
    mode_beh, cargs = _mode_loop(cfn[0], modes)

    L = [SCHEMA.strip("\n"), ""]
    L.append("def fromPath : FromPath :=")
    L.append(f"  {{ spawn := {lean(spawn, 'NExp')},")
    L.append(f"    isDirField := {lean(isdir, 'NExp')},")
    L.append(f"    isFileField := {lean(isfile, 'NExp')},")
    L.append(f"    unknown := {lean(unknown, 'NExp')} }}")
    L.append(f"def listing : Listing := {{ yieldSelf := {lean(ys, 'LExp')}, descend := {lean(desc, 'LExp')} }}")
    L.append(f"def findAll : FindAll := {{ rootsKey := {lean_str(roots_key)}, chained := {'true' if chained else 'false'} }}")
    arms_s = ", ".join(f"({lean_str(c)}, YAct.{a})" for c, a in arms)
    L.append(f"def yieldPaths : YieldPaths := {{ taskTest := {lean_str(task_test)}, attrs := {lean_list(attrs, lean_str)}, arms := [{arms_s}] }}")
    bases_s = ", ".join(f"({lean_str(c)}, {lean_list(bs, lean_str)})" for c, bs in bases)
    L.append(f"def classBases : List (String × List String) := [{bases_s}]")
    L.append(f"def knownOps : List KOp := [{', '.join(ops)}]")
    mb = []
    for mval, out in mode_beh:
        mb.append(f"({lean_str(mval)}, {{ would := {lean(out['would'], 'MExp')}, asks := {lean(out['asks'], 'MExp')}, "
                  f"printsRemove := {lean(out['printsRemove'], 'MExp')}, rmtree := {lean(out['rmtree'], 'MExp')}, "
                  f"unlink := {lean(out['unlink'], 'MExp')} }})")
    L.append("def modeLoop : List (String × ModeBeh) := [" + ",\n  ".join(mb) + "]")
    L.append(f"def commandArgs : CommandArgs := {{ known := {lean_str(cargs['known'])}, exclude := {lean_str(cargs['exclude'])}, "
             f"dirs := {lean_str(cargs['dirs'])}, loopOver := {lean_str(cargs['loopOver'])} }}")
    L.append("end Cln")
    L.append("")
    knows_provisional = any(a == "collect" for _, a in arms)
    return L, knows_provisional


if __name__ == "__main__":
    h = _host()
    lines, kp = gen_lines(h._parse("clean.py"), [("DRY_RUN", "dry-run"), ("FORCE", "force"), ("INTERACTIVE", "interactive")])
    print("\n".join(lines))
    print("-- knows provisional:", kp)
