"""Translator section for M9a (`Collect.lean`, property C13): facts read from collect.py, task.py, task_utils.py,
config.py, build.py and the live plugin manager.

collect_section() -> list[str] of Lean lines for `Generated.lean`; fail-closed (ExtractError).

Emitted
  collectFileOrder  : List String   pluggy call order of the `pytask_collect_file` implementations (module names)
  collectFileFirstResult : Bool
  collectTaskImpls  : List String   implementations of `pytask_collect_task`
  defaultIgnore     : List String   `_IGNORED_FILES_AND_FOLDERS + IGNORED_TEMPORARY_FILES_AND_FOLDERS` in the order
                                    `pytask_parse_config` appends them to the user's patterns
  defaultTaskFiles  : List String   default of `build(task_files=…)`
  taskPrefix        : String        literal of `name.startswith(…)` in `pytask_collect_task`
  idOpen idClose idJoin : String    pieces of f"{name}[{id_}]" and "-".join(...) in `_generate_ids_for_tasks`
  idScalarTypes     : List String   isinstance tuple of `_arg_value_to_id_component`
  shortNameLo shortNameHi : Nat     `range(lo, hi)` of `_find_shortest_uniquely_identifiable_name_for_tasks`
"""
from __future__ import annotations

import ast
import sys


def _api():
    m = sys.modules.get("__main__")
    if m is not None and hasattr(m, "ExtractError") and hasattr(m, "_parse") and hasattr(m, "EXTRA_SECTIONS"):
        return m
    import extract
    return extract


def _hook_order(X):
    E = X.ExtractError
    sys.path.insert(0, str(X.REPO / "src"))
    try:
        from _pytask.pluginmanager import get_plugin_manager
        pm = get_plugin_manager()
    except Exception as e:  # noqa: BLE001
        raise E(f"cannot instantiate plugin manager: {type(e).__name__}: {e}") from None
    out = {}
    for hook in ("pytask_collect_file", "pytask_collect_task"):
        caller = getattr(pm.hook, hook, None)
        if caller is None:
            raise E(f"hook {hook} missing")
        names = []
        for impl in reversed(caller.get_hookimpls()):
            if impl.plugin_name.startswith("verif_probe"):
                continue
            if impl.hookwrapper or getattr(impl, "wrapper", False):
                raise E(f"{hook}: unexpected wrapper implementation in {impl.plugin_name}")
            names.append(impl.plugin_name.split(".")[-1])
        out[hook] = (names, bool((caller.spec.opts if caller.spec else {}).get("firstresult")))
    names, fr = out["pytask_collect_file"]
    if sorted(names) != ["collect", "task"]:
        raise E(f"pytask_collect_file: implementations {names}, expected those of collect.py and task.py")
    if fr:
        raise E("pytask_collect_file became firstresult")
    tnames, tfr = out["pytask_collect_task"]
    if tnames != ["collect"] or not tfr:
        raise E(f"pytask_collect_task: implementations {tnames} firstresult={tfr}, expected ['collect'] / True")
    return names, fr, tnames


def _str_list_assign(X, mod: ast.Module, name: str, env: dict) -> list[str]:
    """Value of a module-level `name: list[str] = <list literal | a + b of known names>`."""
    E = X.ExtractError
    for n in mod.body:
        tgt = val = None
        if isinstance(n, ast.AnnAssign) and isinstance(n.target, ast.Name):
            tgt, val = n.target.id, n.value
        elif isinstance(n, ast.Assign) and len(n.targets) == 1 and isinstance(n.targets[0], ast.Name):
            tgt, val = n.targets[0].id, n.value
        if tgt != name:
            continue
        return _eval_list(X, val, env, name)
    raise E(f"config.py: {name} not found")


def _eval_list(X, val, env, what) -> list[str]:
    E = X.ExtractError
    if isinstance(val, ast.List):
        out = []
        for e in val.elts:
            if not (isinstance(e, ast.Constant) and isinstance(e.value, str)):
                raise E(f"{what}: non-literal element {ast.unparse(e)}")
            out.append(e.value)
        return out
    if isinstance(val, ast.Name) and val.id in env:
        return list(env[val.id])
    if isinstance(val, ast.BinOp) and isinstance(val.op, ast.Add):
        return _eval_list(X, val.left, env, what) + _eval_list(X, val.right, env, what)
    raise E(f"{what}: unrecognised expression {ast.unparse(val)}")


def _default_ignore(X) -> list[str]:
    E = X.ExtractError
    mod = X._parse("config.py")
    env: dict = {}
    for nm in ("_IGNORED_FOLDERS", "_IGNORED_FILES", "_IGNORED_FILES_AND_FOLDERS", "IGNORED_TEMPORARY_FILES_AND_FOLDERS"):
        env[nm] = _str_list_assign(X, mod, nm, env)
    fn = X._func(mod, "pytask_parse_config")
    for n in ast.walk(fn):
        if (isinstance(n, ast.Assign) and len(n.targets) == 1 and ast.unparse(n.targets[0]) == "config['ignore']"):
            v = n.value
            # to_list(config["ignore"]) + A + B
            terms = []
            while isinstance(v, ast.BinOp) and isinstance(v.op, ast.Add):
                terms.insert(0, v.right)
                v = v.left
            terms.insert(0, v)
            if ast.unparse(terms[0]) != "to_list(config['ignore'])":
                raise E(f"config['ignore']: first term is {ast.unparse(terms[0])}")
            out = []
            for t in terms[1:]:
                out += _eval_list(X, t, env, "config['ignore']")
            return out
    raise E("pytask_parse_config: assignment to config['ignore'] not found")


def _default_task_files(X) -> list[str]:
    E = X.ExtractError
    fn = X._func(X._parse("build.py"), "build")
    args = fn.args
    names = [a.arg for a in args.kwonlyargs]
    if "task_files" in names:
        d = args.kw_defaults[names.index("task_files")]
    else:
        pos = [a.arg for a in args.args]
        if "task_files" not in pos:
            raise E("build(): no task_files parameter")
        d = args.defaults[pos.index("task_files") - (len(pos) - len(args.defaults))]
    try:
        v = ast.literal_eval(d)
    except Exception:  # noqa: BLE001
        raise E(f"build(task_files=…): default is not a literal: {ast.unparse(d)}") from None
    if not isinstance(v, (tuple, list)) or not all(isinstance(s, str) for s in v):
        raise E(f"build(task_files=…): unexpected default {v!r}")
    # the config-file default of pytask_parse_config must agree
    cfg = X._func(X._parse("config.py"), "pytask_parse_config")
    for n in ast.walk(cfg):
        if isinstance(n, ast.Call) and ast.unparse(n.func) == "config.get" and n.args and ast.unparse(n.args[0]) == "'task_files'":
            try:
                w = ast.literal_eval(n.args[1])
            except Exception:  # noqa: BLE001
                raise E("config.get('task_files', …): default is not a literal") from None
            if list(w) != list(v):
                raise E(f"task_files defaults differ: build() {v!r} vs config {w!r}")
    return list(v)


def _task_prefix(X) -> str:
    E = X.ExtractError
    fn = X._func(X._parse("collect.py"), "pytask_collect_task")
    test = None
    for st in fn.body:
        if isinstance(st, ast.If):
            test = st.test
            break
    want = None
    if test is not None:
        for n in ast.walk(test):
            if (isinstance(n, ast.Call) and isinstance(n.func, ast.Attribute) and n.func.attr == "startswith"
                    and ast.unparse(n.func.value) == "name" and len(n.args) == 1 and isinstance(n.args[0], ast.Constant)):
                want = n.args[0].value
    if not isinstance(want, str):
        raise E("pytask_collect_task: name.startswith(<literal>) not found in the first condition")
    src = ast.unparse(test)
    expect = f"(name.startswith({want!r}) or has_mark(obj, 'task')) and is_task_function(obj)"
    if src != expect:
        raise E(f"pytask_collect_task: condition changed: {src}")
    # the prefix hook must skip marked objects (disjointness of the two hooks)
    cf = X._func(X._parse("collect.py"), "pytask_collect_file")
    if "if has_mark(obj, 'task'):\n    continue" not in "\n".join(ast.unparse(s) for s in ast.walk(cf) if isinstance(s, ast.If)):
        raise E("collect.py pytask_collect_file: `if has_mark(obj, 'task'): continue` not found")
    return want


def _id_format(X):
    E = X.ExtractError
    mod = X._parse("task_utils.py")
    fn = X._func(mod, "_generate_ids_for_tasks")
    fmts = set()
    join = set()
    for n in ast.walk(fn):
        if isinstance(n, ast.Assign) and len(n.targets) == 1 and ast.unparse(n.targets[0]) == "id_":
            v = n.value
            if isinstance(v, ast.JoinedStr):
                parts = []
                for p in v.values:
                    if isinstance(p, ast.Constant):
                        parts.append(("c", p.value))
                    elif isinstance(p, ast.FormattedValue) and p.conversion == -1 and p.format_spec is None:
                        parts.append(("v", ast.unparse(p.value)))
                    else:
                        raise E(f"_generate_ids_for_tasks: unrecognised f-string piece in {ast.unparse(v)}")
                if len(parts) != 4 or parts[0] != ("v", "name") or parts[1][0] != "c" or parts[2][0] != "v" or parts[3][0] != "c":
                    raise E(f"_generate_ids_for_tasks: id format changed: {ast.unparse(v)}")
                if parts[2][1] not in ("task.pytask_meta.id_", "i", "id_"):
                    raise E(f"_generate_ids_for_tasks: id format interpolates {parts[2][1]}")
                fmts.add((parts[1][1], parts[3][1]))
            elif (isinstance(v, ast.Call) and isinstance(v.func, ast.Attribute) and v.func.attr == "join"
                  and isinstance(v.func.value, ast.Constant) and isinstance(v.func.value.value, str)):
                join.add(v.func.value.value)
            else:
                raise E(f"_generate_ids_for_tasks: unrecognised assignment to id_: {ast.unparse(v)}")
    if len(fmts) != 1 or len(join) != 1:
        raise E(f"_generate_ids_for_tasks: formats {fmts} joins {join}")
    (op, cl), = fmts
    (jn,) = join
    comp = X._func(mod, "_arg_value_to_id_component")
    tys = None
    for n in ast.walk(comp):
        if (isinstance(n, ast.Call) and isinstance(n.func, ast.Name) and n.func.id == "isinstance"
                and ast.unparse(n.args[0]) == "arg_value"):
            t = n.args[1]
            if not isinstance(t, ast.Tuple) or not all(isinstance(e, ast.Name) for e in t.elts):
                raise E(f"_arg_value_to_id_component: isinstance tuple changed: {ast.unparse(t)}")
            tys = [e.id for e in t.elts]
    if tys is None:
        raise E("_arg_value_to_id_component: isinstance(arg_value, …) not found")
    if not set(tys) <= {"bool", "float", "int", "str"}:
        raise E(f"_arg_value_to_id_component: unknown scalar types {tys}")
    return op, cl, jn, tys


def _short_range(X):
    E = X.ExtractError
    fn = X._func(X._parse("collect.py"), "_find_shortest_uniquely_identifiable_name_for_tasks")
    for n in ast.walk(fn):
        if isinstance(n, ast.For) and ast.unparse(n.target) == "n_parts":
            it = n.iter
            if (isinstance(it, ast.Call) and isinstance(it.func, ast.Name) and it.func.id == "range" and len(it.args) == 2
                    and all(isinstance(a, ast.Constant) and isinstance(a.value, int) for a in it.args)):
                lo, hi = it.args[0].value, it.args[1].value
                if lo < 1 or hi < lo:
                    raise E(f"shortest names: range({lo}, {hi})")
                return lo, hi
            raise E(f"shortest names: loop over {ast.unparse(it)}")
    raise E("shortest names: `for n_parts in range(…)` not found")


def _fix_facts(X):
    """(parseClashCheck, collectDupSignaturePass): presence and position of the two repairs of F8a / F8b."""
    E = X.ExtractError
    fn = X._func(X._parse("task_utils.py"), "parse_collected_tasks_with_task_marker")
    clash = False
    for n in ast.walk(fn):
        if isinstance(n, ast.For) and ast.unparse(n.target) == "name":
            body = n.body
            srcs = [ast.unparse(b) for b in body]
            has_assign = any(s.replace(" ", "") == "clashing_names=collected_tasks.keys()&names_to_functions.keys()" for s in srcs)
            has_raise = any(isinstance(b, ast.If) and ast.unparse(b.test) == "clashing_names" and any(isinstance(x, ast.Raise) for x in b.body) for b in body)
            upd = [i for i, s in enumerate(srcs) if s == "collected_tasks.update(names_to_functions)"]
            if has_assign and has_raise:
                chk = [i for i, b in enumerate(body) if isinstance(b, ast.If) and ast.unparse(b.test) == "clashing_names"]
                if not upd or upd[-1] < chk[0]:
                    raise E("parse_collected_tasks_with_task_marker: clash check is not followed by the update")
                clash = True
            elif has_assign or has_raise:
                raise E("parse_collected_tasks_with_task_marker: clash check only partly present")
    steps = _collect_steps(X)
    dup = ".dupSignatures" in steps
    if dup:
        body = ast.unparse(X._func(X._parse("collect.py"), "_fail_tasks_with_duplicated_signatures"))
        for needle in ("signature in seen", "seen.add(signature)", "CollectionOutcome.FAIL"):
            if needle not in body:
                raise E(f"_fail_tasks_with_duplicated_signatures: `{needle}` not found")
    return clash, dup


def _module_name_table(X) -> list[str]:
    """Characters `_module_name_from_path` maps to "_" in every path part: the chain of `.replace(<c>, "_")` calls in
    `path_parts = tuple(<chain on x> for x in path_parts)`; also checks the join with "." ."""
    E = X.ExtractError
    fn = X._func(X._parse("path.py"), "_module_name_from_path")
    table = None
    for n in ast.walk(fn):
        if (isinstance(n, ast.Assign) and ast.unparse(n.targets[0]) == "path_parts" and isinstance(n.value, ast.Call)
                and ast.unparse(n.value.func) == "tuple" and len(n.value.args) == 1 and isinstance(n.value.args[0], ast.GeneratorExp)):
            g = n.value.args[0]
            if len(g.generators) != 1 or ast.unparse(g.generators[0].iter) != "path_parts" or g.generators[0].ifs:
                raise E(f"_module_name_from_path: unrecognised normalisation {ast.unparse(n.value)}")
            var = ast.unparse(g.generators[0].target)
            e = g.elt
            chars = []
            while isinstance(e, ast.Call):
                if not (isinstance(e.func, ast.Attribute) and e.func.attr == "replace" and len(e.args) == 2 and not e.keywords
                        and all(isinstance(a, ast.Constant) and isinstance(a.value, str) for a in e.args)):
                    raise E(f"_module_name_from_path: unrecognised normalisation step {ast.unparse(e)}")
                src, dst = e.args[0].value, e.args[1].value
                if len(src) != 1 or dst != "_":
                    raise E(f"_module_name_from_path: replace({src!r}, {dst!r}) is not a single character to '_'")
                chars.insert(0, src)
                e = e.func.value
            if ast.unparse(e) != var:
                raise E(f"_module_name_from_path: normalisation does not start from the part: {ast.unparse(g.elt)}")
            if table is not None:
                raise E("_module_name_from_path: more than one normalisation statement")
            table = chars
    if table is None:
        raise E("_module_name_from_path: normalisation of path parts not found")
    if "_" in table:
        raise E("_module_name_from_path: '_' is itself replaced")
    rets = [ast.unparse(n.value) for n in ast.walk(fn) if isinstance(n, ast.Return) and n.value is not None]
    if rets != ["'.'.join(path_parts)"]:
        raise E(f"_module_name_from_path: return changed: {rets}")
    return table


# ------------------------------------------------------------------------------------------------------------------
# control structure of the collection functions as data (`Generated.Col.*`, interpreted by PytaskModel/CollectGen.lean)
# ------------------------------------------------------------------------------------------------------------------

def _u(n) -> str:
    return ast.unparse(n)


def _walk_stmts(X, body, var: str) -> list[str]:
    """Statements of `_not_ignored_paths`' loop body as Lean `WStmt` terms."""
    E = X.ExtractError
    out = []
    for st in body:
        if isinstance(st, ast.If):
            t = _u(st.test)
            if t == f"not session.hook.pytask_ignore_collect(path={var}, config=session.config)" and not st.orelse:
                out.append(f".ifNotIgnored {_lean_wlist(_walk_stmts(X, st.body, var))}")
            elif t == f"{var}.is_dir()":
                out.append(f".ifDir {_lean_wlist(_walk_stmts(X, st.body, var))} {_lean_wlist(_walk_stmts(X, st.orelse, var))}")
            elif t == f"{var} not in seen" and not st.orelse:
                out.append(f".ifNotSeen {_lean_wlist(_walk_stmts(X, st.body, var))}")
            else:
                raise E(f"_not_ignored_paths: unrecognised condition `{t}`")
        elif isinstance(st, ast.Assign) and _u(st) in (f"files_in_dir = {var}.iterdir()", f"files_in_dir = sorted({var}.iterdir())",
                                                       f"files_in_dir = list({var}.iterdir())"):
            continue   # folded into `.recurse` (checked there); the order of a directory listing is not modelled
        elif isinstance(st, ast.Expr) and isinstance(st.value, ast.YieldFrom):
            c = _u(st.value.value)
            if c not in ("_not_ignored_paths(files_in_dir, session, seen)", "_not_ignored_paths(files_in_dir, session)"):
                raise E(f"_not_ignored_paths: unrecognised recursion `{c}`")
            out.append(".recurse")
        elif isinstance(st, ast.Expr) and _u(st) == f"seen.add({var})":
            out.append(".addSeen")
        elif isinstance(st, ast.Expr) and isinstance(st.value, ast.Yield) and _u(st.value.value) == var:
            out.append(".yieldPath")
        else:
            raise E(f"_not_ignored_paths: unrecognised statement `{_u(st)}`")
    return out


def _lean_wlist(xs) -> str:
    return "[" + ", ".join(x if x.startswith(".") and " " not in x else f"({x})" for x in xs) + "]"


def _walk_facts(X):
    E = X.ExtractError
    mod = X._parse("collect.py")
    fn = X._func(mod, "_not_ignored_paths")
    loops = [b for b in fn.body if isinstance(b, ast.For)]
    rest = [b for b in fn.body if not isinstance(b, ast.For) and not (isinstance(b, ast.Expr) and isinstance(b.value, ast.Constant))]
    if len(loops) != 1 or rest or _u(loops[0].iter) != "paths" or loops[0].orelse:
        raise E("_not_ignored_paths: expected exactly one `for path in paths` loop")
    body = _walk_stmts(X, loops[0].body, _u(loops[0].target))
    # the caller: which list of paths is walked, and with which initial `seen`
    cf = X._func(mod, "_collect_from_paths")
    dedup = None
    for n in ast.walk(cf):
        if isinstance(n, ast.For) and isinstance(n.iter, ast.Call) and _u(n.iter.func) == "_not_ignored_paths":
            arg0 = _u(n.iter.args[0])
            if arg0 == "session.config['paths']":
                dedup = False
            elif arg0 == "paths":
                src = [_u(a.value) for a in ast.walk(cf) if isinstance(a, ast.Assign) and _u(a.targets[0]) == "paths"]
                if src == ["list(dict.fromkeys(session.config['paths']))"]:
                    dedup = True
            if len(n.iter.args) >= 3 and _u(n.iter.args[2]) != "set()":
                raise E(f"_collect_from_paths: initial seen is {_u(n.iter.args[2])}")
    if dedup is None:
        raise E("_collect_from_paths: call of _not_ignored_paths not recognised")
    return body, dedup


def _collect_steps(X):
    E = X.ExtractError
    fn = X._func(X._parse("collect.py"), "pytask_collect")
    known = {"_collect_from_paths(session)": ".paths", "_collect_from_tasks(session)": ".tasks",
             "_collect_not_collected_tasks(session)": ".leftovers", "_fail_tasks_with_duplicated_signatures(session)": ".dupSignatures"}
    out = []
    for st in fn.body:
        src = _u(st)
        if isinstance(st, ast.Expr) and isinstance(st.value, ast.Constant):
            continue
        if src == "session.collection_start = time.time()":
            continue
        if src in known:
            out.append(known[src])
        elif isinstance(st, ast.Expr) and src.startswith("session.tasks.extend("):
            if "i.outcome == CollectionOutcome.SUCCESS and isinstance(i.node, PTask)" not in src or "for i in session.collection_reports" not in src:
                raise E(f"pytask_collect: session.tasks is filled differently: {src}")
            out.append(".extendTasks")
        elif isinstance(st, ast.Try) and "pytask_collect_modify_tasks" in src:
            out.append(".modifyTasks")
        elif isinstance(st, ast.Expr) and src.startswith("session.hook.pytask_collect_log("):
            out.append(".log")
        elif isinstance(st, ast.Return):
            continue
        else:
            raise E(f"pytask_collect: unrecognised statement `{src[:80]}`")
    for need in (".paths", ".tasks", ".leftovers", ".extendTasks", ".modifyTasks", ".log"):
        if out.count(need) != 1:
            raise E(f"pytask_collect: step {need} occurs {out.count(need)} times")
    return out


def _arg_arms(X):
    E = X.ExtractError
    fn = X._func(X._parse("task_utils.py"), "_arg_value_to_id_component")
    stmts = [b for b in fn.body if not (isinstance(b, ast.Expr) and isinstance(b.value, ast.Constant))]
    if len(stmts) != 3 or _u(stmts[0]) != "id_component = id_func(arg_value) if id_func is not None else None" or not isinstance(stmts[1], ast.If) \
            or _u(stmts[2]) != "return id_component":
        raise E("_arg_value_to_id_component: shape changed")
    arms = []
    node = stmts[1]
    while True:
        t = _u(node.test)
        body = [_u(b) for b in node.body]
        m = {"isinstance(id_component, (bool, float, int, str))": ".idFuncScalar", "isinstance(arg_value, (bool, float, int, str))": ".valueScalar"}
        # the tuple of types is emitted separately (idScalarTypes); both tests must use the same tuple
        import re as _re
        tt = _re.sub(r"\(([a-z, ]+)\)\)$", "(TYPES))", t)
        if tt == "isinstance(id_component, (TYPES))":
            test = ".idFuncScalar"
        elif tt == "isinstance(arg_value, (TYPES))":
            test = ".valueScalar"
        else:
            raise E(f"_arg_value_to_id_component: unrecognised test `{t}`")
        res = {"id_component = str(id_component)": ".strIdFunc", "id_component = str(arg_value)": ".strValue",
               "id_component = arg_name + str(i)": ".nameIndex"}.get(body[0] if len(body) == 1 else "")
        if res is None:
            raise E(f"_arg_value_to_id_component: unrecognised arm body {body}")
        arms.append(f"({test}, {res})")
        if len(node.orelse) == 1 and isinstance(node.orelse[0], ast.If):
            node = node.orelse[0]
            continue
        body = [_u(b) for b in node.orelse]
        res = {"id_component = str(id_component)": ".strIdFunc", "id_component = str(arg_value)": ".strValue",
               "id_component = arg_name + str(i)": ".nameIndex"}.get(body[0] if len(body) == 1 else "")
        if res is None:
            raise E(f"_arg_value_to_id_component: unrecognised else arm {body}")
        arms.append(f"(.otherwise, {res})")
        break
    # the only caller passes id_func=None
    gi = _u(X._func(X._parse("task_utils.py"), "_generate_ids_for_tasks"))
    if "id_func=None" not in gi:
        raise E("_generate_ids_for_tasks: id_func is no longer None")
    return arms


def _id_arms(X):
    E = X.ExtractError
    fn = X._func(X._parse("task_utils.py"), "_generate_ids_for_tasks")
    src0 = [_u(b) for b in fn.body if not (isinstance(b, ast.Expr) and isinstance(b.value, ast.Constant))]
    if src0[0] != "parameters = inspect.signature(tasks[0][1]).parameters" or src0[1] != "out = {}" or src0[-1] != "return out":
        raise E("_generate_ids_for_tasks: prologue / epilogue changed")
    loop = [b for b in fn.body if isinstance(b, ast.For)]
    if len(loop) != 1 or _u(loop[0].target) != "(i, (name, task))" or _u(loop[0].iter) != "enumerate(tasks)":
        raise E("_generate_ids_for_tasks: loop header changed")
    body = loop[0].body
    arms = []
    node = body[0]
    if not isinstance(node, ast.If):
        raise E("_generate_ids_for_tasks: loop does not start with the id selection")
    while True:
        t = _u(node.test)
        if t == "task.pytask_meta.id_ is not None":
            arms.append(".explicitId")
        elif t == "not parameters":
            arms.append(".noParams")
        else:
            raise E(f"_generate_ids_for_tasks: unrecognised test `{t}`")
        if len(node.orelse) == 1 and isinstance(node.orelse[0], ast.If):
            node = node.orelse[0]
            continue
        els = "\n".join(_u(b) for b in node.orelse)
        if "_arg_value_to_id_component(" not in els or "for parameter in parameters" not in els or "task.pytask_meta.kwargs.get(parameter)" not in els:
            raise E("_generate_ids_for_tasks: else arm changed")
        arms.append(".fromArgs")
        break
    rest = body[1:]
    dup = False
    if len(rest) == 2 and isinstance(rest[0], ast.If) and _u(rest[0].test) == "id_ in out" and any(isinstance(x, ast.Raise) for x in rest[0].body) \
            and _u(rest[1]) == "out[id_] = task":
        dup = True
    elif len(rest) == 1 and _u(rest[0]) == "out[id_] = task":
        dup = False
    else:
        raise E("_generate_ids_for_tasks: loop tail changed")
    return arms, dup


def _parse_loop(X):
    E = X.ExtractError
    fn = X._func(X._parse("task_utils.py"), "parse_collected_tasks_with_task_marker")
    src = [_u(b) for b in fn.body if not (isinstance(b, ast.Expr) and isinstance(b.value, ast.Constant))]
    want_head = ["parsed_tasks = _parse_tasks_with_preliminary_names(tasks)", "all_names = {i[0] for i in parsed_tasks}",
                 "duplicated_names = find_duplicates([i[0] for i in parsed_tasks])"]
    if src[:3] != want_head or src[-1] != "return collected_tasks":
        raise E("parse_collected_tasks_with_task_marker: prologue / epilogue changed")
    loop = [b for b in fn.body if isinstance(b, ast.For)]
    if len(loop) != 1 or _u(loop[0].target) != "name" or _u(loop[0].iter) != "all_names":
        raise E("parse_collected_tasks_with_task_marker: loop header changed")
    steps = []
    for st in loop[0].body:
        u = _u(st)
        if isinstance(st, ast.If) and _u(st.test) == "name in duplicated_names":
            b = [_u(x) for x in st.body]
            e = [_u(x) for x in st.orelse]
            old = b == ["selected_tasks = [i for i in parsed_tasks if i[0] == name]", "names_to_functions = _generate_ids_for_tasks(selected_tasks)",
                        "collected_tasks.update(names_to_functions)"] and e == ["collected_tasks[name] = next((i[1] for i in parsed_tasks if i[0] == name))"]
            new = b == ["selected_tasks = [i for i in parsed_tasks if i[0] == name]", "names_to_functions = _generate_ids_for_tasks(selected_tasks)"] \
                and e == ["names_to_functions = {name: next((i[1] for i in parsed_tasks if i[0] == name))}"]
            if new:
                steps += [".ifDuplicatedGenerate", ".elseFirst"]
            elif old:
                steps += [".ifDuplicatedGenerate", ".elseFirst", ".update"]
            else:
                raise E("parse_collected_tasks_with_task_marker: branch on duplicated names changed")
        elif u.replace(" ", "") == "clashing_names=collected_tasks.keys()&names_to_functions.keys()":
            continue
        elif isinstance(st, ast.If) and _u(st.test) == "clashing_names" and any(isinstance(x, ast.Raise) for x in st.body):
            steps.append(".clashRaise")
        elif u == "collected_tasks.update(names_to_functions)":
            steps.append(".update")
        else:
            raise E(f"parse_collected_tasks_with_task_marker: unrecognised statement `{u[:80]}`")
    return steps


def _modname_steps(X):
    E = X.ExtractError
    fn = X._func(X._parse("path.py"), "_module_name_from_path")
    out = []
    for st in fn.body:
        u = _u(st)
        if isinstance(st, ast.Expr) and isinstance(st.value, ast.Constant):
            continue
        if u == "path = path.with_suffix('')":
            out.append(".stripSuffix")
        elif isinstance(st, ast.Try):
            b, h, e = [_u(x) for x in st.body], st.handlers, [_u(x) for x in st.orelse]
            if b == ["relative_path = path.relative_to(root)"] and len(h) == 1 and _u(h[0].type) == "ValueError" \
                    and [_u(x) for x in h[0].body] == ["path_parts = path.parts[1:]"] and e == ["path_parts = relative_path.parts"]:
                out.append(".relativeToRootElseDropFirst")
            else:
                raise E("_module_name_from_path: relative_to block changed")
        elif isinstance(st, ast.If):
            t = st.test
            if (isinstance(t, ast.BoolOp) and isinstance(t.op, ast.And) and len(t.values) == 2 and isinstance(t.values[0], ast.Compare)
                    and _u(t.values[0].left) == "len(path_parts)" and isinstance(t.values[0].ops[0], ast.GtE) and isinstance(t.values[0].comparators[0], ast.Constant)
                    and _u(t.values[1]) == "path_parts[-1] == '__init__'" and [_u(x) for x in st.body] == ["path_parts = path_parts[:-1]"] and not st.orelse):
                out.append(f".dropInit {t.values[0].comparators[0].value}")
            else:
                raise E(f"_module_name_from_path: unrecognised condition `{_u(t)}`")
        elif isinstance(st, ast.Assign) and _u(st.targets[0]) == "path_parts" and _u(st.value).startswith("tuple("):
            out.append(".normalise")    # the table itself is `moduleNameNormalised`
        elif u == "return '.'.join(path_parts)":
            out.append(".joinDot")
        else:
            raise E(f"_module_name_from_path: unrecognised statement `{u[:80]}`")
    return out


def _import_steps(X):
    E = X.ExtractError
    fn = X._func(X._parse("path.py"), "import_path")
    out = []

    def cache_check(st):
        return (isinstance(st, ast.With) and _u(st.items[0].context_expr) == "contextlib.suppress(KeyError)"
                and [_u(x) for x in st.body] == ["return sys.modules[module_name]"])

    for st in fn.body:
        u = _u(st)
        if isinstance(st, ast.Expr) and isinstance(st.value, ast.Constant):
            continue
        if isinstance(st, ast.Try):
            if [_u(x) for x in st.body] != ["pkg_root, module_name = _resolve_pkg_root_and_module_name(path)"] or len(st.handlers) != 1 \
                    or _u(st.handlers[0].type) != "CouldNotResolvePathError" or [_u(x) for x in st.handlers[0].body] != ["pass"]:
                raise E("import_path: package-name block changed")
            out.append(".tryPkgName")
            for e in st.orelse:
                ue = _u(e)
                if cache_check(e):
                    out.append(".cachePkg")
                elif ue == "mod = _import_module_using_spec(module_name, path, pkg_root)":
                    out.append(".importUsingSpec")
                elif isinstance(e, ast.If) and _u(e.test) == "mod is not None" and [_u(x) for x in e.body] == ["return mod"]:
                    out.append(".returnIfModule")
                else:
                    raise E(f"import_path: unrecognised statement in the package branch `{ue[:80]}`")
        elif u == "module_name = _module_name_from_path(path, root)":
            out.append(".nameFromPath")
        elif cache_check(st):
            out.append(".cachePath")
        elif u == "spec = importlib.util.spec_from_file_location(module_name, str(path))":
            out.append(".specFromFile")
        elif isinstance(st, ast.If) and _u(st.test) == "spec is None" and any(isinstance(x, ast.Raise) for x in st.body):
            out.append(".raiseIfNoSpec")
        elif u in ("mod = importlib.util.module_from_spec(spec)", "sys.modules[module_name] = mod"):
            continue
        elif u == "spec.loader.exec_module(mod)":
            out.append(".execModule")
        elif u == "_insert_missing_modules(sys.modules, module_name)":
            out.append(".insertMissing")
        elif u == "return mod":
            out.append(".returnModule")
        else:
            raise E(f"import_path: unrecognised statement `{u[:80]}`")
    # _import_module_using_spec: search location and fallback
    sp = _u(X._func(X._parse("path.py"), "_import_module_using_spec"))
    for needle in ("meta_importer.find_spec(module_name, [str(module_location)])", "spec = importlib.util.spec_from_file_location(module_name, str(module_path))",
                   "if spec is not None:", "sys.modules[module_name] = mod", "return None"):
        if needle not in sp:
            raise E(f"_import_module_using_spec: `{needle}` not found")
    return out


def _short_filter(X):
    E = X.ExtractError
    fn = X._func(X._parse("collect.py"), "_find_shortest_uniquely_identifiable_name_for_tasks")
    conds = None
    for n in ast.walk(fn):
        if isinstance(n, ast.Assign) and _u(n.targets[0]) == "id_to_task" and isinstance(n.value, ast.DictComp):
            dc = n.value
            if _u(dc.key) != "task.name" or _u(dc.value) != "task" or len(dc.generators) != 1 or _u(dc.generators[0].iter) != "tasks":
                raise E("shortest names: id_to_task comprehension changed")
            conds = []
            for c in dc.generators[0].ifs:
                parts = c.values if isinstance(c, ast.BoolOp) and isinstance(c.op, ast.And) else [c]
                for q in parts:
                    uq = _u(q)
                    if uq == "isinstance(task, Task)":
                        conds.append(".isTask")
                    elif uq == "task.name == task.path.as_posix() + '::' + task.base_name":
                        conds.append(".hasFullName")
                    else:
                        raise E(f"shortest names: unrecognised filter `{uq}`")
    if conds is None:
        # the same written as a loop: `for task in tasks: if <conds>: id_to_task[task.name] = task`
        for n in ast.walk(fn):
            if isinstance(n, ast.For) and _u(n.iter) == "tasks" and _u(n.target) == "task" and len(n.body) == 1 and isinstance(n.body[0], ast.If) \
                    and [_u(x) for x in n.body[0].body] == ["id_to_task[task.name] = task"] and not n.body[0].orelse:
                c = n.body[0].test
                conds = []
                for q in (c.values if isinstance(c, ast.BoolOp) and isinstance(c.op, ast.And) else [c]):
                    uq = _u(q)
                    if uq == "isinstance(task, Task)":
                        conds.append(".isTask")
                    elif uq == "task.name == task.path.as_posix() + '::' + task.base_name":
                        conds.append(".hasFullName")
                    else:
                        raise E(f"shortest names: unrecognised filter `{uq}`")
    if conds is None:
        raise E("shortest names: id_to_task is neither a dict comprehension nor a loop over tasks")
    src = _u(fn)
    for needle in ("'/'.join(task.path.parts[-n_parts:]) + '::' + task.base_name", "duplicates = find_duplicates(dupl_id_to_short_id.values())",
                   "if short_id not in duplicates:", "id_to_short_id[id_] = task.name"):
        if needle not in src:
            raise E(f"shortest names: `{needle}` not found")
    return conds


def _ptask_wrap(X) -> str:
    """Which predicate makes `_collect_from_tasks` wrap a function with the task decorator (fix 21cea5f, F31)."""
    E = X.ExtractError
    fn = X._func(X._parse("collect.py"), "_collect_from_tasks")
    loops = [b for b in fn.body if isinstance(b, ast.For)]
    if len(loops) != 1 or _u(loops[0].target) != "raw_task":
        raise E("_collect_from_tasks: loop over the raw tasks not found")
    body = loops[0].body
    if not (isinstance(body[0], ast.If) and _u(body[0].test) == "is_task_function(raw_task)"):
        raise E("_collect_from_tasks: does not start with `if is_task_function(raw_task)`")
    inner = body[0].body
    if not (isinstance(inner[0], ast.If) and [_u(x) for x in inner[0].body] == ["raw_task = task_decorator()(raw_task)"] and not inner[0].orelse):
        raise E("_collect_from_tasks: wrapping statement changed")
    t = _u(inner[0].test)
    kind = {"not has_mark(raw_task, 'task')": ".noTaskMark", "not hasattr(raw_task, 'pytask_meta')": ".noMeta"}.get(t)
    if kind is None:
        raise E(f"_collect_from_tasks: unrecognised wrapping predicate `{t}`")
    if [_u(x) for x in inner[1:]] != ["path = get_file(raw_task)", "name = raw_task.pytask_meta.name"]:
        raise E("_collect_from_tasks: path / name of a task function changed")
    if not (isinstance(body[1], ast.If) and _u(body[1].test) == "has_mark(raw_task, 'task')"
            and [_u(x) for x in body[1].orelse] == ["name = ''", "path = None"]):
        raise E("_collect_from_tasks: branch on the task mark changed")
    return kind


def _task_files_predicates(X) -> list[str]:
    """The predicate with which each `pytask_collect_file` implementation decides that a path is a task module
    (collect.py imports the module, task.py picks up the @task functions): both must be `path.match(pattern)` over
    `session.config["task_files"]`."""
    E = X.ExtractError
    out = []
    for fname in ("collect.py", "task.py"):
        fn = X._func(X._parse(fname), "pytask_collect_file")
        ifs = [st for st in fn.body if isinstance(st, ast.If)]
        if len(ifs) != 1:
            raise E(f"{fname} pytask_collect_file: expected one top-level condition")
        t = ifs[0].test
        first = t.values[0] if isinstance(t, ast.BoolOp) and isinstance(t.op, ast.And) else t
        u = _u(first)
        if u == "any((path.match(pattern) for pattern in session.config['task_files']))":
            out.append(".pathMatch")
        else:
            raise E(f"{fname} pytask_collect_file: task module predicate is `{u[:90]}`, not path.match(pattern) over config['task_files']")
        if isinstance(t, ast.BoolOp):
            rest = [_u(v) for v in t.values[1:]]
            if fname != "task.py" or rest != ["COLLECTED_TASKS[path]"]:
                raise E(f"{fname} pytask_collect_file: extra conditions {rest}")
        tail = [st for st in fn.body if isinstance(st, ast.Return)]
        if len(tail) != 1 or _u(tail[0]) != "return None":
            raise E(f"{fname} pytask_collect_file: a non-matching path no longer returns None")
    return out


def collect_gen_lines(X) -> list[str]:
    wbody, dedup = _walk_facts(X)
    steps = _collect_steps(X)
    arms = _arg_arms(X)
    idarms, iddup = _id_arms(X)
    ploop = _parse_loop(X)
    msteps = _modname_steps(X)
    isteps = _import_steps(X)
    sconds = _short_filter(X)
    L = ["/-! Control structure of the collection functions, read from the source (interpreted by `PytaskModel/CollectGen.lean`). -/",
         "namespace Col",
         "inductive WStmt | ifNotIgnored (body : List WStmt) | ifDir (thenB elseB : List WStmt) | ifNotSeen (body : List WStmt) | recurse | addSeen | yieldPath",
         "inductive CStep | paths | tasks | leftovers | dupSignatures | extendTasks | modifyTasks | log",
         "deriving DecidableEq",
         "inductive ArgTest | idFuncScalar | valueScalar | otherwise",
         "inductive ArgRes | strIdFunc | strValue | nameIndex",
         "inductive IdArm | explicitId | noParams | fromArgs",
         "inductive PStep | ifDuplicatedGenerate | elseFirst | clashRaise | update",
         "inductive MStep | stripSuffix | relativeToRootElseDropFirst | dropInit (minLen : Nat) | normalise | joinDot",
         "inductive IStep | tryPkgName | cachePkg | importUsingSpec | returnIfModule | nameFromPath | cachePath | specFromFile | raiseIfNoSpec | execModule | insertMissing | returnModule",
         "inductive SFilter | isTask | hasFullName",
         "inductive PWrap | noTaskMark | noMeta",
         "inductive TFPred | pathMatch",
         "deriving DecidableEq",
         "/-- loop body of `_not_ignored_paths` (collect.py). -/",
         f"def walkBody : List WStmt := {_lean_wlist(wbody)}",
         "/-- `_collect_from_paths` removes repeated path arguments before the walk. -/",
         f"def walkDedupsPaths : Bool := {X.lean_bool(dedup)}",
         "/-- statements of `pytask_collect` in source order. -/",
         f"def collectSteps : List CStep := [{', '.join(steps)}]",
         "/-- arms of `_arg_value_to_id_component` (`id_func` is `None` at its only call site). -/",
         f"def argArms : List (ArgTest × ArgRes) := [{', '.join(arms)}]",
         "/-- id selection of `_generate_ids_for_tasks` and whether a repeated id raises. -/",
         f"def idArms : List IdArm := [{', '.join(idarms)}]",
         f"def idDupRaises : Bool := {X.lean_bool(iddup)}",
         "/-- loop body of `parse_collected_tasks_with_task_marker` (over the set `all_names`). -/",
         f"def parseLoop : List PStep := [{', '.join(ploop)}]",
         "/-- statements of `_module_name_from_path`. -/",
         f"def modNameSteps : List MStep := [{', '.join(msteps)}]",
         "/-- statements of `import_path`. -/",
         f"def importSteps : List IStep := [{', '.join(isteps)}]",
         "/-- which tasks enter `id_to_task` in `_find_shortest_uniquely_identifiable_name_for_tasks`. -/",
         f"def shortFilter : List SFilter := [{', '.join(sconds)}]",
         "/-- `_collect_from_tasks` wraps a function with the task decorator when … -/",
         f"def ptaskWrapWhen : PWrap := {_ptask_wrap(X)}",
         "/-- how `collect.py::pytask_collect_file` and `task.py::pytask_collect_file` test a path against `task_files`. -/",
         f"def taskFilesPredicates : List TFPred := [{', '.join(_task_files_predicates(X))}]",
         "end Col", ""]
    return L


def collect_section() -> list[str]:
    X = _api()
    E = X.ExtractError
    order, fr, timpls = _hook_order(X)
    ign = _default_ignore(X)
    tf = _default_task_files(X)
    for p in ign + tf:
        if "[" in p or "\\" in p:
            raise E(f"pattern {p!r} uses a character class / escape the model's fnmatch does not cover")
    prefix = _task_prefix(X)
    op, cl, jn, tys = _id_format(X)
    lo, hi = _short_range(X)
    s = X.lean_str
    L = []
    L.append("/-- C13 (M9a): pluggy call order of `pytask_collect_file` implementations. -/")
    L.append(f"def collectFileOrder : List String := {X.lean_list(order, s)}")
    L.append(f"def collectFileFirstResult : Bool := {X.lean_bool(fr)}")
    L.append(f"def collectTaskImpls : List String := {X.lean_list(timpls, s)}")
    L.append(f"def defaultIgnore : List String := {X.lean_list(ign, s)}")
    L.append(f"def defaultTaskFiles : List String := {X.lean_list(tf, s)}")
    L.append(f"def taskPrefix : String := {s(prefix)}")
    L.append(f"def idOpen : String := {s(op)}")
    L.append(f"def idClose : String := {s(cl)}")
    L.append(f"def idJoin : String := {s(jn)}")
    L.append(f"def idScalarTypes : List String := {X.lean_list(tys, s)}")
    L.append(f"def shortNameLo : Nat := {lo}")
    L.append(f"def shortNameHi : Nat := {hi}")
    table = _module_name_table(X)
    L.append("/-- characters `_module_name_from_path` replaces by `_` in every part of a path-derived module name. -/")
    L.append("def moduleNameNormalised : List Char := " + X.lean_list(table, lambda c: "'\\''" if c == "'" else ("'\\\\'" if c == "\\" else f"'{c}'")))
    clash, dup = _fix_facts(X)
    L.append("/-- `parse_collected_tasks_with_task_marker` raises when a new name/id is already a key (fix of F8a). -/")
    L.append(f"def parseClashCheck : Bool := {X.lean_bool(clash)}")
    L.append("/-- `pytask_collect` runs `_fail_tasks_with_duplicated_signatures` after the left-over pass (fix of F8b). -/")
    L.append(f"def collectDupSignaturePass : Bool := {X.lean_bool(dup)}")
    L.append("")
    L += collect_gen_lines(X)
    L.append("")
    return L
