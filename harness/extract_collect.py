"""Translator section for M9a (`Collect.lean`, property C13): facts read from collect.py, task.py, task_utils.py,
config.py, build.py and the live plugin manager.

collect_section() -> list[str] of Lean lines for `Generated.lean`; fail-closed (ExtractError).

Emitted
  collectFileOrder  : List String   pluggy call order of the `pytask_collect_file` implementations (module names)
  collectFileFirstResult : Bool
  collectTaskImpls  : List String   implementations of `pytask_collect_task`
  defaultIgnore     : List String   `_IGNORED_FILES_AND_FOLDERS + IGNORED_TEMPORARY_FILES_AND_FOLDERS` in the order
                                    `pytask_parse_config` appends them to the user's patterns
  defaultTaskFiles  : List String   default of `build(task_files=…)`
  taskPrefix        : String        literal of `name.startswith(…)` in `pytask_collect_task`
  idOpen idClose idJoin : String    pieces of f"{name}[{id_}]" and "-".join(...) in `_generate_ids_for_tasks`
  idScalarTypes     : List String   isinstance tuple of `_arg_value_to_id_component`
  shortNameLo shortNameHi : Nat     `range(lo, hi)` of `_find_shortest_uniquely_identifiable_name_for_tasks`
"""
from __future__ import annotations

import ast
import sys


def _api():
    m = sys.modules.get("__main__")
    if m is not None and hasattr(m, "ExtractError") and hasattr(m, "_parse") and hasattr(m, "EXTRA_SECTIONS"):
        return m
    import extract
    return extract


def _hook_order(X):
    E = X.ExtractError
    sys.path.insert(0, str(X.REPO / "src"))
    try:
        from _pytask.pluginmanager import get_plugin_manager
        pm = get_plugin_manager()
    except Exception as e:  # noqa: BLE001
        raise E(f"cannot instantiate plugin manager: {type(e).__name__}: {e}") from None
    out = {}
    for hook in ("pytask_collect_file", "pytask_collect_task"):
        caller = getattr(pm.hook, hook, None)
        if caller is None:
            raise E(f"hook {hook} missing")
        names = []
        for impl in reversed(caller.get_hookimpls()):
            if impl.plugin_name.startswith("verif_probe"):
                continue
            if impl.hookwrapper or getattr(impl, "wrapper", False):
                raise E(f"{hook}: unexpected wrapper implementation in {impl.plugin_name}")
            names.append(impl.plugin_name.split(".")[-1])
        out[hook] = (names, bool((caller.spec.opts if caller.spec else {}).get("firstresult")))
    names, fr = out["pytask_collect_file"]
    if sorted(names) != ["collect", "task"]:
        raise E(f"pytask_collect_file: implementations {names}, expected those of collect.py and task.py")
    if fr:
        raise E("pytask_collect_file became firstresult")
    tnames, tfr = out["pytask_collect_task"]
    if tnames != ["collect"] or not tfr:
        raise E(f"pytask_collect_task: implementations {tnames} firstresult={tfr}, expected ['collect'] / True")
    return names, fr, tnames


def _str_list_assign(X, mod: ast.Module, name: str, env: dict) -> list[str]:
    """Value of a module-level `name: list[str] = <list literal | a + b of known names>`."""
    E = X.ExtractError
    for n in mod.body:
        tgt = val = None
        if isinstance(n, ast.AnnAssign) and isinstance(n.target, ast.Name):
            tgt, val = n.target.id, n.value
        elif isinstance(n, ast.Assign) and len(n.targets) == 1 and isinstance(n.targets[0], ast.Name):
            tgt, val = n.targets[0].id, n.value
        if tgt != name:
            continue
        return _eval_list(X, val, env, name)
    raise E(f"config.py: {name} not found")


def _eval_list(X, val, env, what) -> list[str]:
    E = X.ExtractError
    if isinstance(val, ast.List):
        out = []
        for e in val.elts:
            if not (isinstance(e, ast.Constant) and isinstance(e.value, str)):
                raise E(f"{what}: non-literal element {ast.unparse(e)}")
            out.append(e.value)
        return out
    if isinstance(val, ast.Name) and val.id in env:
        return list(env[val.id])
    if isinstance(val, ast.BinOp) and isinstance(val.op, ast.Add):
        return _eval_list(X, val.left, env, what) + _eval_list(X, val.right, env, what)
    raise E(f"{what}: unrecognised expression {ast.unparse(val)}")


def _default_ignore(X) -> list[str]:
    E = X.ExtractError
    mod = X._parse("config.py")
    env: dict = {}
    for nm in ("_IGNORED_FOLDERS", "_IGNORED_FILES", "_IGNORED_FILES_AND_FOLDERS", "IGNORED_TEMPORARY_FILES_AND_FOLDERS"):
        env[nm] = _str_list_assign(X, mod, nm, env)
    fn = X._func(mod, "pytask_parse_config")
    for n in ast.walk(fn):
        if (isinstance(n, ast.Assign) and len(n.targets) == 1 and ast.unparse(n.targets[0]) == "config['ignore']"):
            v = n.value
            # to_list(config["ignore"]) + A + B
            terms = []
            while isinstance(v, ast.BinOp) and isinstance(v.op, ast.Add):
                terms.insert(0, v.right)
                v = v.left
            terms.insert(0, v)
            if ast.unparse(terms[0]) != "to_list(config['ignore'])":
                raise E(f"config['ignore']: first term is {ast.unparse(terms[0])}")
            out = []
            for t in terms[1:]:
                out += _eval_list(X, t, env, "config['ignore']")
            return out
    raise E("pytask_parse_config: assignment to config['ignore'] not found")


def _default_task_files(X) -> list[str]:
    E = X.ExtractError
    fn = X._func(X._parse("build.py"), "build")
    args = fn.args
    names = [a.arg for a in args.kwonlyargs]
    if "task_files" in names:
        d = args.kw_defaults[names.index("task_files")]
    else:
        pos = [a.arg for a in args.args]
        if "task_files" not in pos:
            raise E("build(): no task_files parameter")
        d = args.defaults[pos.index("task_files") - (len(pos) - len(args.defaults))]
    try:
        v = ast.literal_eval(d)
    except Exception:  # noqa: BLE001
        raise E(f"build(task_files=…): default is not a literal: {ast.unparse(d)}") from None
    if not isinstance(v, (tuple, list)) or not all(isinstance(s, str) for s in v):
        raise E(f"build(task_files=…): unexpected default {v!r}")
    # the config-file default of pytask_parse_config must agree
    cfg = X._func(X._parse("config.py"), "pytask_parse_config")
    for n in ast.walk(cfg):
        if isinstance(n, ast.Call) and ast.unparse(n.func) == "config.get" and n.args and ast.unparse(n.args[0]) == "'task_files'":
            try:
                w = ast.literal_eval(n.args[1])
            except Exception:  # noqa: BLE001
                raise E("config.get('task_files', …): default is not a literal") from None
            if list(w) != list(v):
                raise E(f"task_files defaults differ: build() {v!r} vs config {w!r}")
    return list(v)


def _task_prefix(X) -> str:
    E = X.ExtractError
    fn = X._func(X._parse("collect.py"), "pytask_collect_task")
    test = None
    for st in fn.body:
        if isinstance(st, ast.If):
            test = st.test
            break
    want = None
    if test is not None:
        for n in ast.walk(test):
            if (isinstance(n, ast.Call) and isinstance(n.func, ast.Attribute) and n.func.attr == "startswith"
                    and ast.unparse(n.func.value) == "name" and len(n.args) == 1 and isinstance(n.args[0], ast.Constant)):
                want = n.args[0].value
    if not isinstance(want, str):
        raise E("pytask_collect_task: name.startswith(<literal>) not found in the first condition")
    src = ast.unparse(test)
    expect = f"(name.startswith({want!r}) or has_mark(obj, 'task')) and is_task_function(obj)"
    if src != expect:
        raise E(f"pytask_collect_task: condition changed: {src}")
    # the prefix hook must skip marked objects (disjointness of the two hooks)
    cf = X._func(X._parse("collect.py"), "pytask_collect_file")
    if "if has_mark(obj, 'task'):\n    continue" not in "\n".join(ast.unparse(s) for s in ast.walk(cf) if isinstance(s, ast.If)):
        raise E("collect.py pytask_collect_file: `if has_mark(obj, 'task'): continue` not found")
    return want


def _id_format(X):
    E = X.ExtractError
    mod = X._parse("task_utils.py")
    fn = X._func(mod, "_generate_ids_for_tasks")
    fmts = set()
    join = set()
    for n in ast.walk(fn):
        if isinstance(n, ast.Assign) and len(n.targets) == 1 and ast.unparse(n.targets[0]) == "id_":
            v = n.value
            if isinstance(v, ast.JoinedStr):
                parts = []
                for p in v.values:
                    if isinstance(p, ast.Constant):
                        parts.append(("c", p.value))
                    elif isinstance(p, ast.FormattedValue) and p.conversion == -1 and p.format_spec is None:
                        parts.append(("v", ast.unparse(p.value)))
                    else:
                        raise E(f"_generate_ids_for_tasks: unrecognised f-string piece in {ast.unparse(v)}")
                if len(parts) != 4 or parts[0] != ("v", "name") or parts[1][0] != "c" or parts[2][0] != "v" or parts[3][0] != "c":
                    raise E(f"_generate_ids_for_tasks: id format changed: {ast.unparse(v)}")
                if parts[2][1] not in ("task.pytask_meta.id_", "i", "id_"):
                    raise E(f"_generate_ids_for_tasks: id format interpolates {parts[2][1]}")
                fmts.add((parts[1][1], parts[3][1]))
            elif (isinstance(v, ast.Call) and isinstance(v.func, ast.Attribute) and v.func.attr == "join"
                  and isinstance(v.func.value, ast.Constant) and isinstance(v.func.value.value, str)):
                join.add(v.func.value.value)
            else:
                raise E(f"_generate_ids_for_tasks: unrecognised assignment to id_: {ast.unparse(v)}")
    if len(fmts) != 1 or len(join) != 1:
        raise E(f"_generate_ids_for_tasks: formats {fmts} joins {join}")
    (op, cl), = fmts
    (jn,) = join
    comp = X._func(mod, "_arg_value_to_id_component")
    tys = None
    for n in ast.walk(comp):
        if (isinstance(n, ast.Call) and isinstance(n.func, ast.Name) and n.func.id == "isinstance"
                and ast.unparse(n.args[0]) == "arg_value"):
            t = n.args[1]
            if not isinstance(t, ast.Tuple) or not all(isinstance(e, ast.Name) for e in t.elts):
                raise E(f"_arg_value_to_id_component: isinstance tuple changed: {ast.unparse(t)}")
            tys = [e.id for e in t.elts]
    if tys is None:
        raise E("_arg_value_to_id_component: isinstance(arg_value, …) not found")
    if not set(tys) <= {"bool", "float", "int", "str"}:
        raise E(f"_arg_value_to_id_component: unknown scalar types {tys}")
    return op, cl, jn, tys


def _short_range(X):
    E = X.ExtractError
    fn = X._func(X._parse("collect.py"), "_find_shortest_uniquely_identifiable_name_for_tasks")
    for n in ast.walk(fn):
        if isinstance(n, ast.For) and ast.unparse(n.target) == "n_parts":
            it = n.iter
            if (isinstance(it, ast.Call) and isinstance(it.func, ast.Name) and it.func.id == "range" and len(it.args) == 2
                    and all(isinstance(a, ast.Constant) and isinstance(a.value, int) for a in it.args)):
                lo, hi = it.args[0].value, it.args[1].value
                if lo < 1 or hi < lo:
                    raise E(f"shortest names: range({lo}, {hi})")
                return lo, hi
            raise E(f"shortest names: loop over {ast.unparse(it)}")
    raise E("shortest names: `for n_parts in range(…)` not found")


def _fix_facts(X):
    """(parseClashCheck, collectDupSignaturePass): presence and position of the two repairs of F8a / F8b."""
    E = X.ExtractError
    fn = X._func(X._parse("task_utils.py"), "parse_collected_tasks_with_task_marker")
    clash = False
    for n in ast.walk(fn):
        if isinstance(n, ast.For) and ast.unparse(n.target) == "name":
            body = n.body
            srcs = [ast.unparse(b) for b in body]
            has_assign = any(s.replace(" ", "") == "clashing_names=collected_tasks.keys()&names_to_functions.keys()" for s in srcs)
            has_raise = any(isinstance(b, ast.If) and ast.unparse(b.test) == "clashing_names" and any(isinstance(x, ast.Raise) for x in b.body) for b in body)
            upd = [i for i, s in enumerate(srcs) if s == "collected_tasks.update(names_to_functions)"]
            if has_assign and has_raise:
                chk = [i for i, b in enumerate(body) if isinstance(b, ast.If) and ast.unparse(b.test) == "clashing_names"]
                if not upd or upd[-1] < chk[0]:
                    raise E("parse_collected_tasks_with_task_marker: clash check is not followed by the update")
                clash = True
            elif has_assign or has_raise:
                raise E("parse_collected_tasks_with_task_marker: clash check only partly present")
    pc = X._func(X._parse("collect.py"), "pytask_collect")
    calls = []
    for st in pc.body:
        if isinstance(st, ast.Expr) and isinstance(st.value, ast.Call):
            calls.append(ast.unparse(st.value.func))
    want = ["_collect_from_paths", "_collect_from_tasks", "_collect_not_collected_tasks"]
    pos = [calls.index(w) if w in calls else None for w in want]
    if None in pos or pos != sorted(pos):
        raise E(f"pytask_collect: collection steps changed: {calls}")
    dup = "_fail_tasks_with_duplicated_signatures" in calls
    if dup:
        i = calls.index("_fail_tasks_with_duplicated_signatures")
        ext = calls.index("session.tasks.extend") if "session.tasks.extend" in calls else None
        if i < pos[-1] or ext is None or i > ext:
            raise E("pytask_collect: duplicate-signature pass is not between the left-over pass and session.tasks.extend")
        body = ast.unparse(X._func(X._parse("collect.py"), "_fail_tasks_with_duplicated_signatures"))
        for needle in ("signature in seen", "seen.add(signature)", "CollectionOutcome.FAIL"):
            if needle not in body:
                raise E(f"_fail_tasks_with_duplicated_signatures: `{needle}` not found")
    return clash, dup


def _module_name_table(X) -> list[str]:
    """Characters `_module_name_from_path` maps to "_" in every path part: the chain of `.replace(<c>, "_")` calls in
    `path_parts = tuple(<chain on x> for x in path_parts)`; also checks the join with "." ."""
    E = X.ExtractError
    fn = X._func(X._parse("path.py"), "_module_name_from_path")
    table = None
    for n in ast.walk(fn):
        if (isinstance(n, ast.Assign) and ast.unparse(n.targets[0]) == "path_parts" and isinstance(n.value, ast.Call)
                and ast.unparse(n.value.func) == "tuple" and len(n.value.args) == 1 and isinstance(n.value.args[0], ast.GeneratorExp)):
            g = n.value.args[0]
            if len(g.generators) != 1 or ast.unparse(g.generators[0].iter) != "path_parts" or g.generators[0].ifs:
                raise E(f"_module_name_from_path: unrecognised normalisation {ast.unparse(n.value)}")
            var = ast.unparse(g.generators[0].target)
            e = g.elt
            chars = []
            while isinstance(e, ast.Call):
                if not (isinstance(e.func, ast.Attribute) and e.func.attr == "replace" and len(e.args) == 2 and not e.keywords
                        and all(isinstance(a, ast.Constant) and isinstance(a.value, str) for a in e.args)):
                    raise E(f"_module_name_from_path: unrecognised normalisation step {ast.unparse(e)}")
                src, dst = e.args[0].value, e.args[1].value
                if len(src) != 1 or dst != "_":
                    raise E(f"_module_name_from_path: replace({src!r}, {dst!r}) is not a single character to '_'")
                chars.insert(0, src)
                e = e.func.value
            if ast.unparse(e) != var:
                raise E(f"_module_name_from_path: normalisation does not start from the part: {ast.unparse(g.elt)}")
            if table is not None:
                raise E("_module_name_from_path: more than one normalisation statement")
            table = chars
    if table is None:
        raise E("_module_name_from_path: normalisation of path parts not found")
    if "_" in table:
        raise E("_module_name_from_path: '_' is itself replaced")
    rets = [ast.unparse(n.value) for n in ast.walk(fn) if isinstance(n, ast.Return) and n.value is not None]
    if rets != ["'.'.join(path_parts)"]:
        raise E(f"_module_name_from_path: return changed: {rets}")
    return table


def collect_section() -> list[str]:
    X = _api()
    E = X.ExtractError
    order, fr, timpls = _hook_order(X)
    ign = _default_ignore(X)
    tf = _default_task_files(X)
    for p in ign + tf:
        if "[" in p or "\\" in p:
            raise E(f"pattern {p!r} uses a character class / escape the model's fnmatch does not cover")
    prefix = _task_prefix(X)
    op, cl, jn, tys = _id_format(X)
    lo, hi = _short_range(X)
    s = X.lean_str
    L = []
    L.append("/-- C13 (M9a): pluggy call order of `pytask_collect_file` implementations. -/")
    L.append(f"def collectFileOrder : List String := {X.lean_list(order, s)}")
    L.append(f"def collectFileFirstResult : Bool := {X.lean_bool(fr)}")
    L.append(f"def collectTaskImpls : List String := {X.lean_list(timpls, s)}")
    L.append(f"def defaultIgnore : List String := {X.lean_list(ign, s)}")
    L.append(f"def defaultTaskFiles : List String := {X.lean_list(tf, s)}")
    L.append(f"def taskPrefix : String := {s(prefix)}")
    L.append(f"def idOpen : String := {s(op)}")
    L.append(f"def idClose : String := {s(cl)}")
    L.append(f"def idJoin : String := {s(jn)}")
    L.append(f"def idScalarTypes : List String := {X.lean_list(tys, s)}")
    L.append(f"def shortNameLo : Nat := {lo}")
    L.append(f"def shortNameHi : Nat := {hi}")
    table = _module_name_table(X)
    L.append("/-- characters `_module_name_from_path` replaces by `_` in every part of a path-derived module name. -/")
    L.append("def moduleNameNormalised : List Char := " + X.lean_list(table, lambda c: "'\\''" if c == "'" else ("'\\\\'" if c == "\\" else f"'{c}'")))
    clash, dup = _fix_facts(X)
    L.append("/-- `parse_collected_tasks_with_task_marker` raises when a new name/id is already a key (fix of F8a). -/")
    L.append(f"def parseClashCheck : Bool := {X.lean_bool(clash)}")
    L.append("/-- `pytask_collect` runs `_fail_tasks_with_duplicated_signatures` after the left-over pass (fix of F8b). -/")
    L.append(f"def collectDupSignaturePass : Bool := {X.lean_bool(dup)}")
    L.append("")
    return L
