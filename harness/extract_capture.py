"""Translator section for M10 (`PytaskModel/Capture.lean`): facts about `_pytask/capture.py`.

Integration (lead): in `harness/extract.py`, after `EXTRA_SECTIONS: list = []`, add

    from extract_capture import capture_section
    EXTRA_SECTIONS.append(capture_section)

Emits data only; fail-closed (every unrecognised shape raises `ExtractError`).

* `multicaptureTable`   – `_get_multicapture`: method value ↦ constructors of (in_, out, err)
* `capturePostParseSeq` – the calls `pytask_post_parse` makes on the fresh `CaptureManager`
* `taskCaptureSeq`      – the statement order of `CaptureManager.task_capture`
* `collectLogSeq`       – what the `pytask_collect_log` wrapper does before yielding
* `capturePhases`       – which hook wrapper labels its sections with which `when`
* `postParseOrder`      – pluggy call order of the `pytask_post_parse` implementations (module names)
"""
from __future__ import annotations

import ast


def _mod():
    # extract.py normally runs as __main__: use that module object so that ExtractError is the class its main() catches
    import sys
    m = sys.modules.get("__main__")
    if m is not None and hasattr(m, "ExtractError") and hasattr(m, "_parse") and hasattr(m, "lean_str"):
        return m
    import extract as X
    return X


def _method_values(X) -> dict[str, str]:
    mod = X._parse("capture_utils.py")
    for n in ast.walk(mod):
        if isinstance(n, ast.ClassDef) and n.name == "CaptureMethod":
            out = {}
            for b in n.body:
                if isinstance(b, ast.Assign) and isinstance(b.value, ast.Constant) and isinstance(b.value.value, str):
                    out[b.targets[0].id] = b.value.value
            if set(out.values()) != {"fd", "no", "sys", "tee-sys"}:
                raise X.ExtractError(f"CaptureMethod values changed: {sorted(out.values())}")
            return out
    raise X.ExtractError("CaptureMethod not found")


def _cap_ctor(X, node: ast.expr) -> tuple[str, int]:
    if isinstance(node, ast.Constant) and node.value is None:
        return ("none", 0)
    if isinstance(node, ast.Call) and isinstance(node.func, ast.Name) and len(node.args) == 1 \
            and isinstance(node.args[0], ast.Constant) and isinstance(node.args[0].value, int):
        fd = node.args[0].value
        kws = {k.arg: k.value for k in node.keywords}
        if node.func.id == "FDCapture" and not kws:
            return ("fd", fd)
        if node.func.id == "SysCapture" and not kws:
            return ("sys", fd)
        if node.func.id == "SysCapture" and set(kws) == {"tee"} and isinstance(kws["tee"], ast.Constant) and kws["tee"].value is True:
            return ("tee", fd)
    raise X.ExtractError(f"_get_multicapture: unrecognised capture constructor {ast.unparse(node)!r}")


def multicapture_table(X):
    values = _method_values(X)
    fn = X._func(X._parse("capture.py"), "_get_multicapture")
    rows = []
    for st in fn.body:
        if isinstance(st, ast.Expr) and isinstance(st.value, ast.Constant):
            continue  # docstring
        if isinstance(st, ast.If):
            t = st.test
            ok = (isinstance(t, ast.Compare) and len(t.ops) == 1 and isinstance(t.ops[0], ast.Eq)
                  and isinstance(t.left, ast.Name) and t.left.id == "method"
                  and isinstance(t.comparators[0], ast.Attribute) and isinstance(t.comparators[0].value, ast.Name)
                  and t.comparators[0].value.id == "CaptureMethod")
            if not ok or st.orelse or len(st.body) != 1 or not isinstance(st.body[0], ast.Return):
                raise X.ExtractError(f"_get_multicapture: unrecognised branch {ast.unparse(t)!r}")
            member = t.comparators[0].attr
            if member not in values:
                raise X.ExtractError(f"_get_multicapture: unknown method {member}")
            call = st.body[0].value
            if not (isinstance(call, ast.Call) and isinstance(call.func, ast.Name) and call.func.id == "MultiCapture" and not call.args):
                raise X.ExtractError("_get_multicapture: branch does not return MultiCapture(in_=…, out=…, err=…)")
            kws = {k.arg: k.value for k in call.keywords}
            if list(kws) != ["in_", "out", "err"]:
                raise X.ExtractError(f"_get_multicapture: keyword order {list(kws)} (evaluation order matters: in_, out, err)")
            rows.append((values[member], [_cap_ctor(X, kws[k]) for k in ("in_", "out", "err")]))
        elif isinstance(st, (ast.Assign, ast.Raise)):
            continue  # trailing `msg = …; raise ValueError(msg)`
        else:
            raise X.ExtractError(f"_get_multicapture: unrecognised statement {ast.unparse(st)!r}")
    if sorted(r[0] for r in rows) != ["fd", "no", "sys", "tee-sys"]:
        raise X.ExtractError(f"_get_multicapture: methods handled {sorted(r[0] for r in rows)}")
    return rows


def _self_calls(X, stmts, recv: str, where: str) -> list[str]:
    """`recv.meth(...)` expression statements → 'meth' / 'meth:<bool of in_>'."""
    out = []
    for st in stmts:
        if isinstance(st, ast.Expr) and isinstance(st.value, ast.Constant):
            continue
        if isinstance(st, ast.Expr) and isinstance(st.value, ast.Call) and isinstance(st.value.func, ast.Attribute) \
                and isinstance(st.value.func.value, ast.Name) and st.value.func.value.id == recv:
            c = st.value
            name = c.func.attr
            if c.args:
                raise X.ExtractError(f"{where}: positional arguments in {ast.unparse(c)!r}")
            kws = {k.arg: k.value for k in c.keywords}
            if not kws:
                out.append(name)
            elif set(kws) == {"in_"} and isinstance(kws["in_"], ast.Constant) and isinstance(kws["in_"].value, bool):
                out.append(f"{name}:{'true' if kws['in_'].value else 'false'}")
            else:
                raise X.ExtractError(f"{where}: unrecognised call {ast.unparse(c)!r}")
        else:
            out.append("?" + ast.unparse(st))
    return out


def post_parse_seq(X):
    mod = X._parse("capture.py")
    fn = None
    for n in mod.body:
        if isinstance(n, ast.FunctionDef) and n.name == "pytask_post_parse":
            fn = n
    if fn is None:
        raise X.ExtractError("capture.pytask_post_parse not found")
    src = [ast.unparse(s) for s in fn.body if not (isinstance(s, ast.Expr) and isinstance(s.value, ast.Constant))]
    if len(src) < 3 or "CaptureManager(config['capture'])" not in src[1].replace('"', "'") or "register(capman, 'capturemanager')" not in src[2].replace('"', "'"):
        raise X.ExtractError(f"capture.pytask_post_parse: unrecognised prologue {src[:3]}")
    body = [s for s in fn.body if not (isinstance(s, ast.Expr) and isinstance(s.value, ast.Constant))][3:]
    seq = _self_calls(X, body, "capman", "capture.pytask_post_parse")
    for s in seq:
        if s not in ("stop_capturing", "start_capturing", "suspend", "suspend:false", "suspend:true", "resume"):
            raise X.ExtractError(f"capture.pytask_post_parse: unrecognised step {s!r}")
    return seq


def _capman_method(X, name: str) -> ast.FunctionDef:
    mod = X._parse("capture.py")
    for n in mod.body:
        if isinstance(n, ast.ClassDef) and n.name == "CaptureManager":
            for b in n.body:
                if isinstance(b, ast.FunctionDef) and b.name == name:
                    return b
    raise X.ExtractError(f"CaptureManager.{name} not found")


def task_capture_seq(X):
    fn = _capman_method(X, "task_capture")
    body = [s for s in fn.body if not (isinstance(s, ast.Expr) and isinstance(s.value, ast.Constant))]
    if len(body) != 2 or not isinstance(body[1], ast.Try):
        raise X.ExtractError("task_capture: expected `self.resume()` followed by try/finally")
    seq = _self_calls(X, body[:1], "self", "task_capture")
    tr = body[1]
    if tr.handlers or tr.orelse or len(tr.body) != 1 or not (isinstance(tr.body[0], ast.Expr) and isinstance(tr.body[0].value, ast.Yield)):
        raise X.ExtractError("task_capture: try body is not a bare yield")
    seq.append("yield")
    fin = tr.finalbody
    for st in fin:
        if isinstance(st, ast.Expr):
            seq += _self_calls(X, [st], "self", "task_capture")
        elif isinstance(st, ast.Assign) and ast.unparse(st).replace(" ", "") in ("out,err=self.read()", "(out,err)=self.read()"):
            seq.append("read")
        elif isinstance(st, ast.If) and isinstance(st.test, ast.Name) and st.test.id in ("out", "err") and not st.orelse and len(st.body) == 1:
            call = ast.unparse(st.body[0]).replace('"', "'").replace(" ", "")
            label = {"out": "stdout", "err": "stderr"}[st.test.id]
            if call != f"task.report_sections.append((when,'{label}',{st.test.id}))":
                raise X.ExtractError(f"task_capture: unrecognised section statement {call!r}")
            seq.append(f"section:{label}")
        else:
            raise X.ExtractError(f"task_capture: unrecognised statement {ast.unparse(st)!r}")
    if any(s.startswith("?") for s in seq):
        raise X.ExtractError(f"task_capture: unrecognised steps {seq}")
    return seq


def collect_log_seq(X):
    fn = _capman_method(X, "pytask_collect_log")
    body = [s for s in fn.body if not (isinstance(s, ast.Expr) and isinstance(s.value, ast.Constant))]
    if not body or not (isinstance(body[-1], ast.Return) and isinstance(body[-1].value, ast.Yield)):
        raise X.ExtractError("pytask_collect_log wrapper: does not end with `return (yield)`")
    seq = _self_calls(X, body[:-1], "self", "pytask_collect_log") + ["yield"]
    if any(s.startswith("?") for s in seq):
        raise X.ExtractError(f"pytask_collect_log wrapper: unrecognised steps {seq}")
    return seq


def capture_phases(X):
    rows = []
    for hook in ("pytask_execute_task_setup", "pytask_execute_task", "pytask_execute_task_teardown"):
        fn = _capman_method(X, hook)
        body = [s for s in fn.body if not (isinstance(s, ast.Expr) and isinstance(s.value, ast.Constant))]
        ok = (len(body) == 1 and isinstance(body[0], ast.With) and len(body[0].items) == 1
              and len(body[0].body) == 1 and isinstance(body[0].body[0], ast.Return) and isinstance(body[0].body[0].value, ast.Yield))
        if ok:
            c = body[0].items[0].context_expr
            ok = (isinstance(c, ast.Call) and ast.unparse(c.func) == "self.task_capture" and len(c.args) == 2
                  and isinstance(c.args[0], ast.Constant) and isinstance(c.args[0].value, str) and ast.unparse(c.args[1]) == "task")
        if not ok:
            raise X.ExtractError(f"CaptureManager.{hook}: not `with self.task_capture(<when>, task): return (yield)`")
        if not any("wrapper=True" in ast.unparse(d) or "hookwrapper=True" in ast.unparse(d) for d in fn.decorator_list):
            raise X.ExtractError(f"CaptureManager.{hook}: not a hook wrapper")
        rows.append((hook, c.args[0].value))
    return rows


# `pytask_post_parse` implementations and what the model knows about their effect on process-global state.
# "modelled": Capture.lean gives them an effect; "neutral": read and found to touch only the config dict / plugin
# registrations. Anything else is unknown to the model -> fail closed.
POST_PARSE_MODELLED = {"capture", "database", "debugging", "logging"}
POST_PARSE_NEUTRAL = {"config", "mark", "execute", "warnings", "live", "build", "profile", "parameters", "skipping",
                      "persist", "collect", "dag", "task", "provisional", "nodes", "data_catalog"}


def post_parse_order(X):
    import sys as _sys
    _sys.path.insert(0, str(X.REPO / "src"))
    try:
        from _pytask.pluginmanager import get_plugin_manager
        pm = get_plugin_manager()
    except Exception as e:  # noqa: BLE001
        raise X.ExtractError(f"cannot instantiate plugin manager: {type(e).__name__}: {e}") from None
    caller = pm.hook.pytask_post_parse
    names = []
    for impl in reversed(caller.get_hookimpls()):
        if impl.plugin_name.startswith("verif_probe"):
            continue
        if impl.hookwrapper or getattr(impl, "wrapper", False):
            raise X.ExtractError(f"pytask_post_parse has a wrapper implementation in {impl.plugin_name}")
        mod = impl.plugin_name.split(".")[-1]
        if mod not in POST_PARSE_MODELLED | POST_PARSE_NEUTRAL:
            raise X.ExtractError(f"pytask_post_parse implemented by unmodelled plugin {impl.plugin_name!r}")
        names.append(mod)
    if "capture" not in names:
        raise X.ExtractError("capture.pytask_post_parse is not registered")
    return names


def unconfigure_known(X):
    """Every `pytask_unconfigure` implementation must be one the model gives a meaning to."""
    import sys as _sys
    _sys.path.insert(0, str(X.REPO / "src"))
    from _pytask.pluginmanager import get_plugin_manager
    pm = get_plugin_manager()
    for impl in pm.hook.pytask_unconfigure.get_hookimpls():
        mod = impl.plugin_name.split(".")[-1]
        if mod.startswith("verif_probe"):
            continue
        if mod not in {"task", "logging", "provisional", "debugging", "build", "capture", "database", "collect"}:
            raise X.ExtractError(f"pytask_unconfigure implemented by unmodelled plugin {impl.plugin_name!r}")


def capture_section() -> list[str]:
    X = _mod()
    ppo = post_parse_order(X)
    unconfigure_known(X)
    tab = multicapture_table(X)
    pp = post_parse_seq(X)
    tc = task_capture_seq(X)
    cl = collect_log_seq(X)
    ph = capture_phases(X)
    s = X.lean_str
    L = []
    L.append("/-- `_get_multicapture` (capture.py): method ↦ constructors of (in_, out, err), evaluated in this order. -/")
    L.append("def multicaptureTable : List (String × List (String × Nat)) := "
             + X.lean_list(tab, lambda r: f"({s(r[0])}, {X.lean_list(r[1], lambda c: f'({s(c[0])}, {c[1]})')})"))
    L.append("/-- calls of `capture.pytask_post_parse` on the freshly registered `CaptureManager`. -/")
    L.append(f"def capturePostParseSeq : List String := {X.lean_list(pp, s)}")
    L.append("/-- statement order of `CaptureManager.task_capture`. -/")
    L.append(f"def taskCaptureSeq : List String := {X.lean_list(tc, s)}")
    L.append("/-- `CaptureManager.pytask_collect_log` wrapper. -/")
    L.append(f"def collectLogSeq : List String := {X.lean_list(cl, s)}")
    L.append("/-- hook wrapper ↦ `when` label of its report sections. -/")
    L.append("def capturePhases : List (String × String) := " + X.lean_list(ph, lambda r: f"({s(r[0])}, {s(r[1])})"))
    L.append("/-- pluggy call order of the `pytask_post_parse` implementations. -/")
    L.append(f"def postParseOrder : List String := {X.lean_list(ppo, s)}")
    L.append("")
    return L
