"""Translator section for PytaskModel/BuildTop.lean: facts about the try/except structure around the build phases.

* configHandler        — exception classes named by the `except` of the configuration `try` in build()
* dagWrapsException    — create_dag() catches `Exception` and re-raises ResolvingDependenciesError
* collectLogRaises     — pytask_collect_log raises CollectionError iff there are failed collection reports
* protocolCatches      — exception classes caught by pytask_execute_task_protocol around setup/execute/teardown
Fail-closed: any shape that is not recognised raises ExtractError.
"""
from __future__ import annotations

import ast


def _names(t, ExtractError, where):
    if t is None:
        return ["BaseException"]
    if isinstance(t, ast.Name):
        return [t.id]
    if isinstance(t, ast.Tuple) and all(isinstance(e, ast.Name) for e in t.elts):
        return [e.id for e in t.elts]
    raise ExtractError(f"{where}: unrecognised except clause {ast.unparse(t)!r}")


def collect_file_catches():
    """exception classes that pytask_collect_file_protocol turns into a failed collection report"""
    import extract as X
    E = X.ExtractError
    fn = X._func(X._parse("collect.py"), "pytask_collect_file_protocol")
    tries = [n for n in fn.body if isinstance(n, ast.Try)]
    if len(tries) != 1 or len(tries[0].handlers) != 1:
        raise E("pytask_collect_file_protocol: expected one try with one handler")
    if "pytask_collect_file" not in ast.unparse(tries[0].body):
        raise E("pytask_collect_file_protocol: try body does not call pytask_collect_file")
    h = tries[0].handlers[0]
    if "CollectionReport.from_exception" not in ast.unparse(h) or "CollectionOutcome.FAIL" not in ast.unparse(h):
        raise E("pytask_collect_file_protocol: handler does not build a FAIL report")
    return _names(h.type, E, "pytask_collect_file_protocol handler")


def section():
    import extract as X
    E = X.ExtractError
    # --- build(): handler of the outer (configuration) try
    fn = X._func(X._parse("build.py"), "build")
    tries = [n for n in fn.body if isinstance(n, ast.Try)]
    if len(tries) != 1 or len(tries[0].handlers) != 1:
        raise E("build(): expected one outer try with one handler")
    conf = _names(tries[0].handlers[0].type, E, "build() configuration handler")
    if tries[0].finalbody:
        raise E("build(): unexpected finally clause")
    # --- create_dag(): try: create_dag_from_session except Exception: … raise ResolvingDependenciesError
    cd = X._func(X._parse("dag.py"), "create_dag")
    ctries = [n for n in cd.body if isinstance(n, ast.Try)]
    if len(ctries) != 1 or len(ctries[0].handlers) != 1:
        raise E("create_dag(): expected one try with one handler")
    h = ctries[0].handlers[0]
    hn = _names(h.type, E, "create_dag() handler")
    raises = [n for n in ast.walk(h) if isinstance(n, ast.Raise)]
    if len(raises) != 1 or raises[0].exc is None:
        raise E("create_dag(): handler does not re-raise exactly one named exception")
    exc = raises[0].exc
    rname = exc.id if isinstance(exc, ast.Name) else (exc.func.id if isinstance(exc, ast.Call) and isinstance(exc.func, ast.Name) else None)
    if "create_dag_from_session" not in ast.unparse(ctries[0].body):
        raise E("create_dag(): try body does not call create_dag_from_session")
    if hn == ["Exception"] and rname == "ResolvingDependenciesError":
        wraps = True
    else:
        raise E(f"create_dag(): handler {hn} raising {rname} is not the modelled shape")
    # --- pytask_collect_log: `if failed_reports: … raise CollectionError`
    cl = X._func(X._parse("collect.py"), "pytask_collect_log")
    found = False
    for n in ast.walk(cl):
        if isinstance(n, ast.If) and ast.unparse(n.test) == "failed_reports":
            rs = [r for r in ast.walk(n) if isinstance(r, ast.Raise)]
            if len(rs) == 1 and isinstance(rs[0].exc, ast.Name) and rs[0].exc.id == "CollectionError":
                found = True
    if not found:
        raise E("pytask_collect_log: 'if failed_reports: … raise CollectionError' not found")
    src = ast.unparse(cl)
    if "failed_reports = [r for r in reports if r.outcome == CollectionOutcome.FAIL]" not in src:
        raise E("pytask_collect_log: failed_reports is not the list of FAIL reports")
    # --- pytask_execute_task_protocol: which exceptions become a report
    pr = X._func(X._parse("execute.py"), "pytask_execute_task_protocol")
    ptries = [n for n in pr.body if isinstance(n, ast.Try)]
    if len(ptries) != 1:
        raise E("pytask_execute_task_protocol: expected one try")
    body = ast.unparse(ptries[0].body)
    for hook in ("pytask_execute_task_setup", "pytask_execute_task(", "pytask_execute_task_teardown"):
        if hook not in body:
            raise E(f"pytask_execute_task_protocol: {hook} not inside the try")
    caught = []
    for hh in ptries[0].handlers:
        caught += _names(hh.type, E, "pytask_execute_task_protocol handler")
        if "ExecutionReport.from_task_and_exception" not in ast.unparse(hh):
            raise E("pytask_execute_task_protocol: a handler does not build a report from the exception")
    if not ptries[0].orelse or "ExecutionReport.from_task" not in ast.unparse(ptries[0].orelse):
        raise E("pytask_execute_task_protocol: else branch does not build the success report")
    L = []
    L.append("/-- `except (…)` of the configuration `try` in `build()`. -/")
    L.append(f"def configHandler : List String := {X.lean_list(conf, X.lean_str)}")
    L.append("/-- `create_dag` re-raises every `Exception` as `ResolvingDependenciesError`. -/")
    L.append(f"def dagWrapsException : Bool := {X.lean_bool(wraps)}")
    L.append("/-- `pytask_collect_log` raises `CollectionError` iff some collection report failed. -/")
    L.append("def collectLogRaises : String := \"CollectionError\"")
    L.append("/-- exception classes that `pytask_execute_task_protocol` turns into a report. -/")
    L.append(f"def protocolCatches : List String := {X.lean_list(caught, X.lean_str)}")
    L.append("/-- exception classes that `pytask_collect_file_protocol` turns into a failed collection report. -/")
    L.append(f"def collectFileCatches : List String := {X.lean_list(collect_file_catches(), X.lean_str)}")
    L.append("")
    return L
