#!/venv/bin/python
"""./check <Cxx> [--tier quick|thorough] [--replay <path>]   (DESIGN §2.5)"""
from __future__ import annotations

import argparse
import importlib
import json
import os
import sys
import time
import traceback
from pathlib import Path

sys.path.insert(0, str(Path(__file__).resolve().parent))
import common  # noqa: E402


def main() -> int:
    ap = argparse.ArgumentParser()
    ap.add_argument("prop")
    ap.add_argument("--tier", default=os.environ.get("VERIF_TIER", "quick"), choices=["quick", "thorough"])
    ap.add_argument("--replay")
    ap.add_argument("--no-lean", action="store_true", help="development only: skip the Lean stage")
    a = ap.parse_args()
    prop = a.prop.upper()
    seed = int(os.environ.get("VERIF_SEED", "0") or 0)
    os.chdir(common.VERIF)
    common.assert_repo_is_live()
    try:
        mod = importlib.import_module(f"props.{prop.lower()}")
    except ModuleNotFoundError:
        print(f"INFRA: no check module for {prop}")
        return 2

    ctx = common.Ctx(prop, a.tier, seed)

    if a.replay:
        obj = json.loads(Path(a.replay).read_text())
        st = common.lean_pipeline(prop)
        ctx.lean = st
        ctx.use_model = st.build_ok
        ok, msg = mod.replay(ctx, obj)
        print(("REPLAY-HOLDS " if ok else "REPLAY-FAILS ") + msg)
        return 0 if ok else 1

    # 1-3: translator, build, audit
    if a.no_lean:
        st = common.LeanStatus(); st.extract_ok = st.build_ok = st.audit_ok = True
    else:
        st = common.lean_pipeline(prop, clean=False)
    ctx.lean = st
    ctx.use_model = st.build_ok and st.extract_ok
    import fingerprint
    edited = fingerprint.changed_anchors(prop, common.REPO)
    ctx.extra["anchor_files_edited_since_last_validation"] = edited
    # Two-stage search: the normal campaign first; only if it found no failing input AND something says the code may have
    # changed behaviour (anchor files edited, a proof obligation / tie / translator section broken, or model ≠ implementation)
    # the campaign is run again with a raised budget (intensified failing-input search, same seed stream continues).
    intensify = 0.0
    if edited:
        print(f"ANCHOR-EDITED {prop}: {', '.join(edited)} (not an alarm: the search is intensified if the normal campaign finds nothing)")
        intensify = 3.0
    if not st.proof_ok:
        print(f"PROOF-BROKEN {prop}: {st.summary()}")
        intensify = 5.0
    if ctx.thorough and st.proof_ok and not a.no_lean:
        ok, log = common.leanchecker([f"PytaskProofs.Properties.{prop}"])
        ctx.extra["leanchecker"] = "ok" if ok else log
        if not ok:
            print(f"INFRA: leanchecker failed: {log[-400:]}")
            return 2

    # 4-5: known-finding witnesses + campaign
    try:
        mod.run(ctx)
        known_ids = {e["id"] for e in common.load_known(prop) if e.get("status") == "known"}
        fresh_now = [v for v in ctx.violations if not (v["finding"] and v["finding"] in known_ids)]
        if ctx.disagreements and not fresh_now:
            print(f"CORRESPONDENCE-BROKEN {prop}: {ctx.disagreements[0]['what']}")
            intensify = max(intensify, 5.0)
        if intensify and not fresh_now:
            ctx.budget = intensify
            ctx.extra["intensified_search_budget"] = intensify
            first = list(ctx.disagreements)
            mod.run(ctx)   # intensified search
            ctx.disagreements = first + ctx.disagreements[len(first):]
    except common.InfraError as e:  # type: ignore[attr-defined]
        print(f"INFRA: {e}")
        return 2
    except Exception:
        traceback.print_exc()
        print("INFRA: check crashed")
        return 2
    finally:
        if ctx._driver:
            ctx._driver.close()

    # 6: verdict
    known = {e["id"]: e for e in common.load_known(prop) if e.get("status") == "known"}
    fresh = []
    for v in ctx.violations:
        if v["finding"] and v["finding"] in known:
            ctx.known_hits.setdefault(v["finding"], known[v["finding"]]["what"])
        else:
            fresh.append(v)
    for fid, what in sorted(ctx.known_hits.items()):
        print(f"KNOWN-FINDING: property={prop} {fid}: {what}")
    rc = 0
    nviol = 0
    if fresh:
        seen = set()
        for v in fresh:
            key = v["what"].split(":")[0]
            if key in seen:
                continue
            seen.add(key)
            path = common.write_replay(prop, {"property": prop, "kind": "failing-input", "what": v["what"], "input": v["replay"], "seed": seed, "tier": a.tier})
            print(f"VIOLATION property={prop} replay={path}")
            print(f"  what: {v['what'][:300]}")
            nviol += 1
        rc = 1
    elif not st.proof_ok or ctx.disagreements:
        broken = {"property": prop, "kind": "no-failing-input-found",
                  "proof_status": st.summary(),
                  "broken_theorems_or_tie": (st.summary() if not st.proof_ok else "correspondence: " + ctx.disagreements[0]["what"]),
                  "first_disagreement": ctx.disagreements[0] if ctx.disagreements else None,
                  "searched": {"evaluations": ctx.evaluations, "budget_multiplier": ctx.budget}, "seed": seed, "tier": a.tier}
        path = common.write_replay(prop, broken)
        print(f"VIOLATION property={prop} replay={path} no-failing-input-found")
        nviol = 1
        rc = 1
    common.write_evidence(ctx, nviol, getattr(mod, "ASSUMPTIONS", []))
    print(f"{prop} {a.tier} seed={seed}: evaluations={ctx.evaluations} nontrivial={len(ctx.nontrivial)} "
          f"obligations={st.obligations} discharged={st.discharged} disagreements={len(ctx.disagreements)} "
          f"violations={nviol} wall={time.time()-ctx.t0:.1f}s")
    return rc


class InfraError(Exception):
    pass


common.InfraError = InfraError

if __name__ == "__main__":
    sys.exit(main())
