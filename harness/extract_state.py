"""Translator section for the protocol-UPath branch of `nodes._get_state` (C02 / C03, stream "nodekinds").

`state_section()` returns Lean lines for `PytaskModel/Generated.lean` (namespace Pytask.Generated). Fail-closed: anything
unrecognised raises `extract.ExtractError(reason)`.

The local branch (`isinstance(stat, stat_result)` -> `hash_path(path, stat.st_mtime)`) is described by b-c12's extract_hashsrc
(`_get_state_facts`); this section describes the OTHER branch, which that translator skips:

    if isinstance(stat, UPathStatResult):
        etag = stat.as_info().get(<key>)
        if etag is not None:
            return etag
        return hash_path(path, stat.st_mtime)          # (before the repair of F61: return stat.as_info().get(<key>, <constant>))

Emitted (consumed by PytaskProofs/Lemmas/StateUPath.lean):
  upathStateKey     : String   -- the entry of the file system's info record used as state ("ETag")
  upathNoEtagKind   : String   -- what the state is when the file system reports no such entry: "hashPathMtime" | "const"
  upathNoEtagConst  : String   -- the constant in the latter case
"""
from __future__ import annotations

import ast
import sys


def _host():
    m = sys.modules.get("__main__")
    if m is not None and hasattr(m, "ExtractError") and hasattr(m, "_parse") and hasattr(m, "EXTRA_SECTIONS"):
        return m
    import extract
    return extract


def state_section():
    host = _host()

    def err(msg):
        return host.ExtractError("upath state: " + msg)

    mod = host._parse("nodes.py")
    fn = host._func(mod, "_get_state")
    if len(fn.args.args) != 1:
        raise err("_get_state does not take exactly one argument")
    branches = [s for s in ast.walk(fn) if isinstance(s, ast.If) and isinstance(s.test, ast.Call)
                and ast.unparse(s.test.func) == "isinstance" and len(s.test.args) == 2 and ast.unparse(s.test.args[1]) == "UPathStatResult"]
    if len(branches) != 1:
        raise err(f"expected exactly one `isinstance(<stat>, UPathStatResult)` branch, found {len(branches)}")
    br = branches[0]
    stat = ast.unparse(br.test.args[0])
    pth = fn.args.args[0].arg
    body = [s for s in br.body if not (isinstance(s, ast.Expr) and isinstance(s.value, ast.Constant))]
    if br.orelse:
        raise err("the UPathStatResult branch has an else part")
    q = lambda s: '"' + s.replace("\\", "\\\\").replace('"', '\\"') + '"'

    def info_get(r, nargs):
        return (isinstance(r, ast.Call) and isinstance(r.func, ast.Attribute) and r.func.attr == "get" and not r.keywords and len(r.args) == nargs
                and ast.unparse(r.func.value) == f"{stat}.as_info()" and all(isinstance(a, ast.Constant) and isinstance(a.value, str) for a in r.args))

    if len(body) == 1 and isinstance(body[0], ast.Return) and info_get(body[0].value, 2):
        # (before the repair of F61)  return stat.as_info().get(<key>, <constant>)
        key, kind, const = body[0].value.args[0].value, "const", body[0].value.args[1].value
    elif (len(body) == 3 and isinstance(body[0], ast.Assign) and len(body[0].targets) == 1 and isinstance(body[0].targets[0], ast.Name)
          and info_get(body[0].value, 1) and isinstance(body[1], ast.If) and not body[1].orelse and len(body[1].body) == 1
          and ast.unparse(body[1].test) == f"{body[0].targets[0].id} is not None"
          and isinstance(body[1].body[0], ast.Return) and ast.unparse(body[1].body[0].value) == body[0].targets[0].id
          and isinstance(body[2], ast.Return) and ast.unparse(body[2].value) == f"hash_path({pth}, {stat}.st_mtime)"):
        #   etag = stat.as_info().get(<key>);  if etag is not None: return etag;  return hash_path(path, stat.st_mtime)
        key, kind, const = body[0].value.args[0].value, "hashPathMtime", ""
    else:
        raise err("the UPathStatResult branch is neither `return <stat>.as_info().get(<str>, <str>)` nor "
                  "`e = <stat>.as_info().get(<str>); if e is not None: return e; return hash_path(<path>, <stat>.st_mtime)`: "
                  + " | ".join(ast.unparse(x).replace("\n", " ") for x in body)[:200])
    return [
        "/-- `nodes._get_state`, branch `isinstance(stat, UPathStatResult)`: the state is the entry `upathStateKey` of the file system's info",
        "record if there is one; otherwise `upathNoEtagKind` says what: \"hashPathMtime\" = `hash_path(path, stat.st_mtime)` (the memoised content",
        "hash, as for local paths), \"const\" = the constant `upathNoEtagConst`. -/",
        f"def upathStateKey : String := {q(key)}",
        f"def upathNoEtagKind : String := {q(kind)}",
        f"def upathNoEtagConst : String := {q(const)}",
    ]
