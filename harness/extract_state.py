"""Translator section for the protocol-UPath branch of `nodes._get_state` (C02 / C03, stream "nodekinds").

`state_section()` returns Lean lines for `PytaskModel/Generated.lean` (namespace Pytask.Generated). Fail-closed: anything
unrecognised raises `extract.ExtractError(reason)`.

The local branch (`isinstance(stat, stat_result)` -> `hash_path(path, stat.st_mtime)`) is described by b-c12's extract_hashsrc
(`_get_state_facts`); this section describes the OTHER branch, which that translator skips:

    if isinstance(stat, UPathStatResult):
        return stat.as_info().get(<key>, <default>)

Emitted (consumed by PytaskProofs/Lemmas/StateUPath.lean):
  upathStateKey     : String   -- the entry of the file system's info record used as state ("ETag")
  upathNoEtagState  : String   -- the constant returned when the file system reports no such entry ("0")
"""
from __future__ import annotations

import ast
import sys


def _host():
    m = sys.modules.get("__main__")
    if m is not None and hasattr(m, "ExtractError") and hasattr(m, "_parse") and hasattr(m, "EXTRA_SECTIONS"):
        return m
    import extract
    return extract


def state_section():
    host = _host()

    def err(msg):
        return host.ExtractError("upath state: " + msg)

    mod = host._parse("nodes.py")
    fn = host._func(mod, "_get_state")
    if len(fn.args.args) != 1:
        raise err("_get_state does not take exactly one argument")
    branches = [s for s in ast.walk(fn) if isinstance(s, ast.If) and isinstance(s.test, ast.Call)
                and ast.unparse(s.test.func) == "isinstance" and len(s.test.args) == 2 and ast.unparse(s.test.args[1]) == "UPathStatResult"]
    if len(branches) != 1:
        raise err(f"expected exactly one `isinstance(<stat>, UPathStatResult)` branch, found {len(branches)}")
    br = branches[0]
    stat = ast.unparse(br.test.args[0])
    body = [s for s in br.body if not (isinstance(s, ast.Expr) and isinstance(s.value, ast.Constant))]
    if br.orelse or len(body) != 1 or not isinstance(body[0], ast.Return):
        raise err("the UPathStatResult branch is not a single return statement")
    r = body[0].value
    ok = (isinstance(r, ast.Call) and isinstance(r.func, ast.Attribute) and r.func.attr == "get" and not r.keywords and len(r.args) == 2
          and ast.unparse(r.func.value) == f"{stat}.as_info()"
          and all(isinstance(a, ast.Constant) and isinstance(a.value, str) for a in r.args))
    if not ok:
        raise err(f"the UPathStatResult branch returns {ast.unparse(r)}, not {stat}.as_info().get(<str>, <str>)")
    key, default = r.args[0].value, r.args[1].value
    q = lambda s: '"' + s.replace("\\", "\\\\").replace('"', '\\"') + '"'
    return [
        "/-- `nodes._get_state`, branch `isinstance(stat, UPathStatResult)`: `stat.as_info().get(upathStateKey, upathNoEtagState)`. -/",
        f"def upathStateKey : String := {q(key)}",
        f"def upathNoEtagState : String := {q(default)}",
    ]
