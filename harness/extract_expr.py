"""Translator section for M3 (`Expr.lean`, property C16): facts read from `mark/expression.py`.

`expr_section() -> list[str]` of Lean lines for `Generated.lean`; fail-closed (`ExtractError`).

What is read (with `ast` + the regex parser of the standard library, nothing is executed):

* `Scanner.lex`: the order of the character tests (whitespace tuple, "(", ")", regex), the whitespace characters,
  the parenthesis characters, the identifier regex, that it is applied with `re.match` to `input_[pos:]` (or a
  module-level `re.compile(<literal>)` object with `.match(input_[pos:])` / `.match(input_, pos)`: prefix match at the
  current position), that `pos` advances by `len(value)`, the keyword table
  (`value == "<kw>"` → `TokenType.<KIND>`, first match wins, fallback `IDENT`), and the column offset of the
  `ParseError` (`pos + 1`).
* `Scanner.reject`: the column offset (`self.current.pos + 1`).
* The identifier regex must be in the fragment `( alt | alt | … )+` where every alternative is a single-character
  matcher (`\\w`, a literal, a character set of literals/`\\w`) or the historical typo `:?\\w` (= `\\w`, or `:` then `\\w`),
  which is accepted only when `:` is an alternative itself, so the language is still "non-empty run over the class".

Emitted
  exprWsChars        : List Char            characters skipped between tokens
  exprLParen/RParen  : Char
  identExtraChars    : List Char            literal members of the identifier class
  identHasWordClass  : Bool                 whether `\\w` is a member of the identifier class
  exprKeywords       : List (List Char × String)   keyword text ↦ TokenType member name, in test order
  exprErrorColOffset : Nat                  column = position + this
"""
from __future__ import annotations

import ast
import sys

try:  # Python ≥ 3.11
    import re._constants as _sc
    import re._parser as _sp
except ImportError:  # pragma: no cover
    import sre_constants as _sc
    import sre_parse as _sp


def _api():
    """The running translator module (it is executed as __main__ by the pipeline)."""
    m = sys.modules.get("__main__")
    if m is not None and hasattr(m, "ExtractError") and hasattr(m, "EXTRA_SECTIONS"):
        return m
    import extract
    return extract


def lean_char(ch: str) -> str:
    if ch == "'":
        return "'\\''"
    if ch == "\\":
        return "'\\\\'"
    if ch == "\t":
        return "'\\t'"
    if ch == "\n":
        return "'\\n'"
    if 32 <= ord(ch) < 127:
        return f"'{ch}'"
    return f"(Char.ofNat {ord(ch)})"


def lean_chars(s) -> str:
    return "[" + ", ".join(lean_char(c) for c in s) + "]"


# ------------------------------------------------------------------------------------------------
# the identifier regex
# ------------------------------------------------------------------------------------------------

def _single(E, item):
    """A single-character matcher → (set of literal code points, has_word) or None."""
    op, arg = item
    if op is _sc.LITERAL:
        return {int(arg)}, False
    if op is _sc.IN:
        lits, word = set(), False
        for o, a in arg:
            if o is _sc.LITERAL:
                lits.add(int(a))
            elif o is _sc.CATEGORY and a is _sc.CATEGORY_WORD:
                word = True
            elif o is _sc.RANGE:
                lo, hi = int(a[0]), int(a[1])
                if hi - lo > 64:
                    raise E(f"identifier regex: range {lo}-{hi} too wide for the literal list")
                lits.update(range(lo, hi + 1))
            else:
                raise E(f"identifier regex: class item {o} {a} not supported (negation / other category)")
        return lits, word
    return None


def ident_class(E, pattern: str):
    """(sorted literal chars, has_word) of a regex of the form (alt|alt|…)+ over single-char matchers."""
    try:
        parsed = _sp.parse(pattern)
    except Exception as e:  # noqa: BLE001
        raise E(f"identifier regex does not parse: {e}") from None
    if parsed.state.flags & ~_sc.SRE_FLAG_UNICODE:
        raise E("identifier regex: inline flags not supported")
    items = list(parsed)
    if len(items) != 1 or items[0][0] is not _sc.MAX_REPEAT:
        raise E(f"identifier regex {pattern!r} is not of the form (…)+")
    lo, hi, sub = items[0][1]
    if lo != 1 or hi is not _sc.MAXREPEAT:
        raise E(f"identifier regex: repetition {{{lo},{hi}}} is not '+'")
    sub = list(sub)
    # strip one level of (capturing or not) group
    if len(sub) == 1 and sub[0][0] is _sc.SUBPATTERN:
        _g, add_flags, del_flags, inner = sub[0][1]
        if add_flags or del_flags:
            raise E("identifier regex: group flags not supported")
        sub = list(inner)
    if len(sub) == 1 and sub[0][0] is _sc.BRANCH:
        alts = [list(a) for a in sub[0][1][1]]
    else:
        alts = [sub]
    lits: set[int] = set()
    word = False
    pending = []  # two-item alternatives  X?Y  to be checked for subsumption
    for alt in alts:
        if len(alt) == 1:
            r = _single(E, alt[0])
            if r is None:
                raise E(f"identifier regex: alternative {alt} is not a single-character matcher")
            lits |= r[0]
            word = word or r[1]
        elif len(alt) == 2 and alt[0][0] is _sc.MAX_REPEAT and alt[0][1][0] == 0 and alt[0][1][1] == 1:
            opt = list(alt[0][1][2])
            if len(opt) != 1:
                raise E(f"identifier regex: alternative {alt} not supported")
            a, b = _single(E, opt[0]), _single(E, alt[1])
            if a is None or b is None:
                raise E(f"identifier regex: alternative {alt} not supported")
            pending.append((a, b))
        else:
            raise E(f"identifier regex: alternative {alt} is not a single-character matcher")
    # X?Y inside (…)+ : with X absent it is the single-character matcher Y; with X present it is the two iterations
    # "X", "Y" provided X is a single-character alternative on its own. Then the language is still (class)+.
    for (_al, _aw), (bl, bw) in pending:
        lits |= bl
        word = word or bw
    for (al, aw), (_bl, _bw) in pending:
        if not (al <= lits and (not aw or word)):
            raise E("identifier regex: in the alternative `X?Y`, X is not a single-character alternative on its own")
    if not lits and not word:
        raise E("identifier regex: empty class")
    return "".join(chr(c) for c in sorted(lits)), word


# ------------------------------------------------------------------------------------------------
# Scanner.lex / Scanner.reject
# ------------------------------------------------------------------------------------------------

def _cls(E, mod: ast.Module, name: str) -> ast.ClassDef:
    for n in mod.body:
        if isinstance(n, ast.ClassDef) and n.name == name:
            return n
    raise E(f"class {name} not found in mark/expression.py")


def _method(E, cls: ast.ClassDef, name: str) -> ast.FunctionDef:
    for n in cls.body:
        if isinstance(n, ast.FunctionDef) and n.name == name:
            return n
    raise E(f"{cls.name}.{name} not found")


def _strip_doc(body):
    return [s for s in body if not (isinstance(s, ast.Expr) and isinstance(s.value, ast.Constant) and isinstance(s.value.value, str))]


def _yield_kind(E, stmt, what: str):
    """`yield Token(TokenType.K, <value>, pos)` → (K, unparsed value)."""
    if not (isinstance(stmt, ast.Expr) and isinstance(stmt.value, ast.Yield) and isinstance(stmt.value.value, ast.Call)):
        raise E(f"lex: {what}: expected `yield Token(…)`, found {ast.unparse(stmt)!r}")
    call = stmt.value.value
    if not (isinstance(call.func, ast.Name) and call.func.id == "Token" and len(call.args) == 3 and not call.keywords):
        raise E(f"lex: {what}: unrecognised token construction {ast.unparse(call)!r}")
    k, v, p = call.args
    if not (isinstance(k, ast.Attribute) and isinstance(k.value, ast.Name) and k.value.id == "TokenType"):
        raise E(f"lex: {what}: token type is not TokenType.<member>")
    if ast.unparse(p) != "pos":
        raise E(f"lex: {what}: token position is {ast.unparse(p)!r}, not pos")
    return k.attr, ast.unparse(v)


def _is_pos_inc(stmt, by: str) -> bool:
    return isinstance(stmt, ast.AugAssign) and isinstance(stmt.op, ast.Add) and ast.unparse(stmt.target) == "pos" and ast.unparse(stmt.value) == by


def _char_eq(E, test, what):
    """`input_[pos] == "<c>"` → c."""
    if not (isinstance(test, ast.Compare) and len(test.ops) == 1 and isinstance(test.ops[0], ast.Eq)
            and ast.unparse(test.left) == "input_[pos]" and isinstance(test.comparators[0], ast.Constant)
            and isinstance(test.comparators[0].value, str) and len(test.comparators[0].value) == 1):
        raise E(f"lex: {what}: expected `input_[pos] == \"<char>\"`, found {ast.unparse(test)!r}")
    return test.comparators[0].value


def _col_offset(E, node, base: str, what: str) -> int:
    """`<base> + k` → k."""
    if ast.unparse(node) == base:
        return 0
    if (isinstance(node, ast.BinOp) and isinstance(node.op, ast.Add) and ast.unparse(node.left) == base
            and isinstance(node.right, ast.Constant) and isinstance(node.right.value, int)):
        return node.right.value
    raise E(f"{what}: column {ast.unparse(node)!r} is not `{base} + <int>`")


def _compiled_pattern(E, mod: ast.Module, name: str):
    """The literal of a module-level `NAME = re.compile(<literal>)` (exactly one assignment, no flags)."""
    found = []
    for n in mod.body:
        if isinstance(n, ast.Assign) and len(n.targets) == 1 and isinstance(n.targets[0], ast.Name) and n.targets[0].id == name:
            found.append(n.value)
        elif isinstance(n, ast.AnnAssign) and isinstance(n.target, ast.Name) and n.target.id == name and n.value is not None:
            found.append(n.value)
    if len(found) != 1:
        raise E(f"lex: {name} is not assigned exactly once at module level")
    v = found[0]
    if not (isinstance(v, ast.Call) and ast.unparse(v.func) == "re.compile" and len(v.args) == 1 and not v.keywords):
        raise E(f"lex: {name} is not `re.compile(<literal>)` without flags")
    return v.args[0]


def lex_facts(E, src_mod: ast.Module):
    sc = _cls(E, src_mod, "Scanner")
    fn = _method(E, sc, "lex")
    body = _strip_doc(fn.body)
    if len(body) != 3:
        raise E(f"lex: expected `pos = 0; while …; yield EOF`, found {len(body)} statements")
    init, loop, fin = body
    if ast.unparse(init) != "pos = 0":
        raise E(f"lex: first statement is {ast.unparse(init)!r}, not `pos = 0`")
    if not (isinstance(loop, ast.While) and ast.unparse(loop.test) == "pos < len(input_)" and not loop.orelse):
        raise E("lex: loop is not `while pos < len(input_)`")
    kind, val = _yield_kind(E, fin, "end of input")
    if kind != "EOF":
        raise E(f"lex: final token is {kind}, not EOF")
    if len(loop.body) != 1 or not isinstance(loop.body[0], ast.If):
        raise E("lex: loop body is not a single if/elif chain")
    # --- branch 1: whitespace
    br = loop.body[0]
    t = br.test
    if not (isinstance(t, ast.Compare) and len(t.ops) == 1 and isinstance(t.ops[0], ast.In) and ast.unparse(t.left) == "input_[pos]"):
        raise E(f"lex: first test is {ast.unparse(t)!r}, not `input_[pos] in (…)`")
    try:
        coll = ast.literal_eval(t.comparators[0])
    except Exception:  # noqa: BLE001
        raise E("lex: whitespace collection is not a literal") from None
    ws = list(coll)
    if not ws or not all(isinstance(c, str) and len(c) == 1 for c in ws):
        raise E(f"lex: whitespace collection {coll!r} is not a collection of single characters")
    if len(br.body) != 1 or not _is_pos_inc(br.body[0], "1"):
        raise E("lex: whitespace branch is not `pos += 1`")
    # --- branches 2, 3: parentheses
    parens = []
    for want in ("LPAREN", "RPAREN"):
        if len(br.orelse) != 1 or not isinstance(br.orelse[0], ast.If):
            raise E(f"lex: missing elif branch for {want}")
        br = br.orelse[0]
        ch = _char_eq(E, br.test, want)
        if len(br.body) != 2 or not _is_pos_inc(br.body[1], "1"):
            raise E(f"lex: {want} branch is not `yield …; pos += 1`")
        kind, val = _yield_kind(E, br.body[0], want)
        if kind != want:
            raise E(f"lex: character {ch!r} yields {kind}, expected {want}")
        parens.append(ch)
    # --- else: regex
    rest = br.orelse
    if len(rest) != 2 or not isinstance(rest[0], ast.Assign) or not isinstance(rest[1], ast.If):
        raise E("lex: else branch is not `match = re.match(…); if match: … else: raise`")
    asg, ifm = rest
    call = asg.value
    if not (ast.unparse(asg.targets[0]) == "match" and isinstance(call, ast.Call) and isinstance(call.func, ast.Attribute)
            and isinstance(call.func.value, ast.Name)):
        raise E(f"lex: {ast.unparse(asg)!r} is not `match = re.match(…)` / `match = <compiled>.match(…)`")
    if call.func.attr != "match":
        raise E(f"lex: the identifier regex is applied with .{call.func.attr}, not .match (prefix match at pos)")
    if call.keywords:
        raise E("lex: regex match called with keyword arguments")
    if call.func.value.id == "re":
        # re.match(<literal>, input_[pos:])
        if len(call.args) != 2:
            raise E("lex: re.match called with flags / unexpected arguments")
        pat, subj = call.args[0], call.args[1:]
    else:
        # <NAME>.match(input_[pos:])  or  <NAME>.match(input_, pos)  with  NAME = re.compile(<literal>)  at module level
        pat = _compiled_pattern(E, src_mod, call.func.value.id)
        subj = call.args
    if not (isinstance(pat, ast.Constant) and isinstance(pat.value, str)):
        raise E("lex: identifier pattern is not a string literal")
    subj_src = [ast.unparse(a) for a in subj]
    if subj_src == ["input_[pos:]"]:
        pass
    elif subj_src == ["input_", "pos"] and call.func.value.id != "re":
        pass    # compiled.match(string, pos): same prefix match at pos (the pattern has no ^ / look-behind: checked by ident_class)
    else:
        raise E(f"lex: the regex is applied to {subj_src!r}, not to input_[pos:]")
    extra, word = ident_class(E, pat.value)
    if ast.unparse(ifm.test) != "match":
        raise E("lex: expected `if match:`")
    mb = ifm.body
    if len(mb) != 3 or ast.unparse(mb[0]) != "value = match.group(0)" or not _is_pos_inc(mb[2], "len(value)"):
        raise E("lex: match branch is not `value = match.group(0); <keyword chain>; pos += len(value)`")
    chain = mb[1]
    kws = []
    while True:
        if not isinstance(chain, ast.If):
            raise E("lex: keyword chain is not if/elif/else")
        t = chain.test
        if not (isinstance(t, ast.Compare) and len(t.ops) == 1 and isinstance(t.ops[0], ast.Eq) and ast.unparse(t.left) == "value"
                and isinstance(t.comparators[0], ast.Constant) and isinstance(t.comparators[0].value, str)):
            raise E(f"lex: keyword test {ast.unparse(t)!r} is not `value == \"<kw>\"`")
        if len(chain.body) != 1:
            raise E("lex: keyword branch has more than one statement")
        kind, val = _yield_kind(E, chain.body[0], "keyword")
        if val != "value":
            raise E(f"lex: keyword token carries {val!r}, not value")
        kws.append((t.comparators[0].value, kind))
        if len(chain.orelse) == 1 and isinstance(chain.orelse[0], ast.If):
            chain = chain.orelse[0]
            continue
        if len(chain.orelse) != 1:
            raise E("lex: keyword chain has no single else branch")
        kind, val = _yield_kind(E, chain.orelse[0], "identifier")
        if kind != "IDENT" or val != "value":
            raise E(f"lex: fallback token is {kind}({val}), not IDENT(value)")
        break
    for kw, kind in kws:
        if kind not in ("OR", "AND", "NOT"):
            raise E(f"lex: keyword {kw!r} yields TokenType.{kind}; only OR/AND/NOT are modelled")
        if not kw:
            raise E("lex: empty keyword")
    # --- else: raise ParseError(pos + 1, …)
    eb = ifm.orelse
    if len(eb) != 1 or not isinstance(eb[0], ast.Raise) or not isinstance(eb[0].exc, ast.Call) or ast.unparse(eb[0].exc.func) != "ParseError":
        raise E("lex: no-match branch is not `raise ParseError(…)`")
    if not eb[0].exc.args:
        raise E("lex: ParseError without column")
    off1 = _col_offset(E, eb[0].exc.args[0], "pos", "lex")
    # --- reject
    rj = _method(E, sc, "reject")
    raises = [n for n in ast.walk(rj) if isinstance(n, ast.Raise)]
    if len(raises) != 1 or not isinstance(raises[0].exc, ast.Call) or ast.unparse(raises[0].exc.func) != "ParseError" or not raises[0].exc.args:
        raise E("reject: expected exactly one `raise ParseError(column, …)`")
    off2 = _col_offset(E, raises[0].exc.args[0], "self.current.pos", "reject")
    if off1 != off2:
        raise E(f"column offsets differ: lex uses pos + {off1}, reject uses pos + {off2}")
    if off1 < 0:
        raise E("negative column offset")
    return {"ws": ws, "lparen": parens[0], "rparen": parens[1], "extra": extra, "word": word, "keywords": kws, "coloff": off1}


def expr_section() -> list[str]:
    X = _api()
    E = X.ExtractError
    p = X.SRC / "mark" / "expression.py"
    try:
        mod = ast.parse(p.read_text())
    except (OSError, SyntaxError) as e:
        raise E(f"cannot parse {p}: {e}") from None
    f = lex_facts(lambda m: E("expression.py: " + m), mod)
    L = []
    L.append("/-- `Scanner.lex` (mark/expression.py): characters skipped between tokens. -/")
    L.append(f"def exprWsChars : List Char := {lean_chars(f['ws'])}")
    L.append(f"def exprLParen : Char := {lean_char(f['lparen'])}")
    L.append(f"def exprRParen : Char := {lean_char(f['rparen'])}")
    L.append("/-- The identifier regex is `(class)+` applied with `re.match` at the current position; the class is `\\w` (if")
    L.append("`identHasWordClass`) plus these literal characters. -/")
    L.append(f"def identExtraChars : List Char := {lean_chars(f['extra'])}")
    L.append(f"def identHasWordClass : Bool := {X.lean_bool(f['word'])}")
    L.append("/-- Keyword texts in test order and the `TokenType` member each yields; anything else is `IDENT`. -/")
    L.append("def exprKeywords : List (List Char × String) := "
             + X.lean_list(f["keywords"], lambda r: f"({lean_chars(r[0])}, {X.lean_str(r[1])})"))
    L.append("/-- `ParseError(pos + k, …)`: the reported column is the 0-based position plus this. -/")
    L.append(f"def exprErrorColOffset : Nat := {f['coloff']}")
    L.append("")
    return L


# ================================================================================================
# ExprTie: the CONTROL STRUCTURE of the parser functions, the lexer loop and the matchers as data
# (section `extract_exprgen`, consumed by lean/PytaskModel/ExprGen.lean; Properties/ExprTie.lean proves the
# interpreters of this data equal to the hand-written model Expr.lean).
#
# Recognition is on the AST: local names are free (the scanner parameter, the accumulator, helper variables holding a
# sub-parser's result are identified by their role), comments / docstrings / annotations / `# noqa` are invisible, simple
# helper assignments are substituted. Anything else raises (fail-closed).
# ================================================================================================

GRAM_SCHEMA = '''\
namespace Gram
/-- One alternative of `not_expr`, tried in order. -/
inductive Alt where
  /-- `if s.accept(tok): return UnaryOp(node(), sub(s))` -/
  | unary (tok sub node : String)
  /-- `if s.accept(open): ret = sub(s); s.accept(close, reject=closeRequired); return ret` -/
  | group (open_ sub close : String) (closeRequired : Bool)
  /-- `ident = s.accept(tok); if ident: return Name(IDENT_PREFIX + ident.value)` (the prefix is stripped again by `MatcherAdapter`) -/
  | ident (tok : String)
  deriving Repr, DecidableEq
/-- A parser function. -/
inductive Rule where
  /-- `ret = first(s); while s.accept(cont): rhs = next(s); ret = <node op of ret, rhs built in `shape`>; return ret` -/
  | loop (first cont next op shape : String)
  /-- alternatives, then `s.reject(…)` -/
  | alts (alts : List Alt)
  deriving Repr, DecidableEq
/-- `expression`: `if s.accept(eofTok): Constant(emptyConst) else: ret = sub(s); s.accept(eofTok, reject=eofRequired)`. -/
structure Top where
  eofTok : String
  emptyConst : Bool
  sub : String
  eofRequired : Bool
  deriving Repr, DecidableEq
/-- One branch of the `if/elif` chain in the loop of `Scanner.lex`, tried in order. -/
inductive LexBranch where
  /-- `input_[pos] in chars: pos += 1` -/
  | skip (chars : List Char)
  /-- `input_[pos] == c: yield Token(kind); pos += 1` -/
  | single (c : Char) (kind : String)
  /-- maximal non-empty run over the class (`\\w` if `word`, plus `extra`); keyword chain by whole-match equality, else `fallback` -/
  | run (extra : List Char) (word : Bool) (keywords : List (List Char × String)) (fallback : String)
  deriving Repr
/-- A matcher: where the names come from, what is lower-cased where, and the test. -/
structure Matcher where
  sources : List String          -- "name" | "function_dict" | "markers", canonical order
  lowerNamesAtCreate : Bool
  lowerQueryAtCall : Bool
  lowerNamesAtCall : Bool
  test : String                  -- "substring" (query in name) | "member" (query in names)
  deriving Repr, DecidableEq
/-- A `select_by_*` function. -/
structure Select where
  noneWhenEmpty : Bool           -- `if not expr: return None`
  parseErrorIsError : Bool       -- `except ParseError: raise ValueError`
  matcher : String               -- class whose `from_task(task)` is evaluated
  guardNonEmpty : Bool           -- `if <expr> and expression.evaluate(…)`
  closure : Bool                 -- `update(task_and_preceding_tasks(…))` instead of `add(signature)`
  deriving Repr, DecidableEq
/-- One `if <guard on remaining>: _deselect_others_with_mark(session, remaining, Mark(markName, …))` of
`select_tasks_by_marks_and_expressions`. -/
structure Deselect where
  selectFn : String              -- whose result `remaining` is
  guard : String                 -- "isNotNone" (`remaining is not None`: None = option not given) | "truthy" (`if remaining:`)
  markName : String              -- the mark attached to every task whose signature is not in `remaining`
  deriving Repr, DecidableEq
/-- Where `select_tasks_by_marks_and_expressions` is applied. -/
structure SelectionSite where
  inCreateDagFromSession : Bool  -- called (unconditionally, at top level) in `dag.create_dag_from_session`
  recreateUsesIt : Bool          -- `provisional_utils.recreate_dag` builds the new DAG with `create_dag_from_session`
  deriving Repr, DecidableEq
/-- The string branch of the loop over `session.tasks` in `_modify_dag` (dag.py). -/
structure AfterLoop where
  selectFn : String              -- the function evaluated on (session, after) in every iteration
  discardsSelf : Bool            -- the task's own signature is removed from the selection
  viaSuccessors : Bool           -- edges are drawn from the successors (products) of every selected task to the task
  stateless : Bool               -- an iteration reads nothing an earlier iteration wrote, except the dag
  deriving Repr, DecidableEq
end Gram
'''


def _gE(msg):
    return _api().ExtractError("expression grammar: " + msg)


def _stmts(fn):
    return _strip_doc(fn.body)


def _tok_kind(node):
    """`TokenType.K` → K"""
    if isinstance(node, ast.Attribute) and isinstance(node.value, ast.Name) and node.value.id == "TokenType":
        return node.attr
    return None


def _accept_call(node, s: str):
    """`s.accept(TokenType.K[, reject=<bool>])` → (K, reject) else None"""
    if not (isinstance(node, ast.Call) and isinstance(node.func, ast.Attribute) and node.func.attr == "accept"
            and isinstance(node.func.value, ast.Name) and node.func.value.id == s and len(node.args) == 1):
        return None
    k = _tok_kind(node.args[0])
    if k is None:
        return None
    rej = False
    for kw in node.keywords:
        if kw.arg == "reject" and isinstance(kw.value, ast.Constant) and isinstance(kw.value.value, bool):
            rej = kw.value.value
        else:
            return None
    return k, rej


def _sub_call(node, s: str, parsers):
    """`sub(s)` for a known parser function → its name"""
    if (isinstance(node, ast.Call) and isinstance(node.func, ast.Name) and node.func.id in parsers and not node.keywords
            and len(node.args) == 1 and isinstance(node.args[0], ast.Name) and node.args[0].id == s):
        return node.func.id
    return None


def _astcls(node):
    """`ast.X` or `X` → X"""
    if isinstance(node, ast.Attribute) and isinstance(node.value, ast.Name) and node.value.id == "ast":
        return node.attr
    if isinstance(node, ast.Name):
        return node.id
    return None


def _astnode(node, cls: str):
    """`ast.<cls>(args…)` → positional args (keywords by name appended in the constructor's field order are not supported)"""
    if isinstance(node, ast.Call) and _astcls(node.func) == cls and not node.keywords:
        return node.args
    return None


def _target(st):
    """(name, value) of `x = v` / `x: T = v`"""
    if isinstance(st, ast.Assign) and len(st.targets) == 1 and isinstance(st.targets[0], ast.Name):
        return st.targets[0].id, st.value
    if isinstance(st, ast.AnnAssign) and isinstance(st.target, ast.Name) and st.value is not None:
        return st.target.id, st.value
    return None


def _count_calls(nodes, names) -> int:
    n = 0
    for st in nodes:
        for x in ast.walk(st):
            if isinstance(x, ast.Call) and isinstance(x.func, ast.Name) and x.func.id in names:
                n += 1
    return n


def _boolop(node, acc: str, rhs_ok):
    """`ast.BoolOp(ast.OP(), [acc, <rhs>])` → OP"""
    a = _astnode(node, "BoolOp")
    if a is None or len(a) != 2:
        return None
    opn = "Or" if _astnode(a[0], "Or") == [] else "And" if _astnode(a[0], "And") == [] else None
    if opn is None:
        return None
    if not isinstance(a[1], (ast.List, ast.Tuple)) or len(a[1].elts) != 2:
        return None
    l, r = a[1].elts
    if not (isinstance(l, ast.Name) and l.id == acc and rhs_ok(r)):
        return None
    return opn


def _boolop_flat(node, acc: str, rhs_ok):
    """`ast.BoolOp(ast.OP(), [*acc.values, <rhs>])` → OP"""
    a = _astnode(node, "BoolOp")
    if a is None or len(a) != 2 or not isinstance(a[1], (ast.List, ast.Tuple)) or len(a[1].elts) != 2:
        return None
    opn = "Or" if _astnode(a[0], "Or") == [] else "And" if _astnode(a[0], "And") == [] else None
    l, r = a[1].elts
    if opn and isinstance(l, ast.Starred) and ast.unparse(l.value) == f"{acc}.values" and rhs_ok(r):
        return opn
    return None


def _flat_cond(test, acc: str):
    """`isinstance(acc, ast.BoolOp)` → "any";  `… and isinstance(acc.op, ast.OP)` → OP;  else None"""
    def isinst(n, subj, clsname=None):
        if not (isinstance(n, ast.Call) and isinstance(n.func, ast.Name) and n.func.id == "isinstance" and len(n.args) == 2
                and ast.unparse(n.args[0]) == subj):
            return None
        c = _astcls(n.args[1])
        return c
    if isinst(test, acc) == "BoolOp":
        return "any"
    if isinstance(test, ast.BoolOp) and isinstance(test.op, ast.And) and len(test.values) == 2:
        if isinst(test.values[0], acc) == "BoolOp":
            c = isinst(test.values[1], f"{acc}.op")
            if c in ("Or", "And"):
                return c
    return None


def _loop_rule(fn, parsers):
    s = fn.args.args[0].arg if fn.args.args else None
    body = _stmts(fn)
    if s is None or len(body) != 3:
        raise _gE(f"{fn.name}: expected `acc = sub(s); while s.accept(K): …; return acc`")
    first = _target(body[0])
    if first is None or _sub_call(first[1], s, parsers) is None:
        raise _gE(f"{fn.name}: first statement {ast.unparse(body[0])!r} is not `acc = <parser>(s)`")
    acc, sub1 = first[0], _sub_call(first[1], s, parsers)
    loop = body[1]
    if not isinstance(loop, ast.While) or loop.orelse:
        raise _gE(f"{fn.name}: second statement is not a `while` loop")
    ac = _accept_call(loop.test, s)
    if ac is None or ac[1]:
        raise _gE(f"{fn.name}: loop condition {ast.unparse(loop.test)!r} is not `s.accept(TokenType.K)`")
    if not (isinstance(body[2], ast.Return) and isinstance(body[2].value, ast.Name) and body[2].value.id == acc):
        raise _gE(f"{fn.name}: does not end with `return {acc}`")
    lb = list(loop.body)
    if _count_calls(lb, parsers) != 1:
        raise _gE(f"{fn.name}: the loop body must call exactly one sub-parser exactly once")
    # helper variables holding the right operand
    rhs_names = {}
    rest = []
    for st in lb:
        t = _target(st)
        if t is not None and t[0] != acc and _sub_call(t[1], s, parsers):
            if rest:
                raise _gE(f"{fn.name}: the right operand is parsed after the node is built")
            rhs_names[t[0]] = _sub_call(t[1], s, parsers)
        else:
            rest.append(st)
    found = {}

    def rhs_ok(n):
        if isinstance(n, ast.Name) and n.id in rhs_names:
            found["sub"] = rhs_names[n.id]
            return True
        c = _sub_call(n, s, parsers)
        if c and not rhs_names:
            found["sub"] = c
            return True
        return False

    if len(rest) != 1:
        raise _gE(f"{fn.name}: loop body has {len(rest)} statements besides the operand, expected the node construction only")
    st = rest[0]
    op = shape = None
    t = _target(st)
    if t is not None and t[0] == acc:
        v = t[1]
        o = _boolop(v, acc, rhs_ok)
        if o:
            op, shape = o, "nested"
        elif isinstance(v, ast.IfExp):
            test, a, b = v.test, v.body, v.orelse
            if isinstance(test, ast.UnaryOp) and isinstance(test.op, ast.Not):
                test, a, b = test.operand, b, a
            c, of, on = _flat_cond(test, acc), _boolop_flat(a, acc, rhs_ok), _boolop(b, acc, rhs_ok)
            if c and of and on and of == on:
                op = on
                shape = "flatSameOp" if c == on else "flatAnyBoolOp" if c == "any" else None
    elif isinstance(st, ast.If) and len(st.body) == 1 and len(st.orelse) == 1:
        c = _flat_cond(st.test, acc)
        app = st.body[0]
        is_app = (isinstance(app, ast.Expr) and isinstance(app.value, ast.Call) and ast.unparse(app.value.func) == f"{acc}.values.append"
                  and len(app.value.args) == 1 and rhs_ok(app.value.args[0]))
        t2 = _target(st.orelse[0])
        on = _boolop(t2[1], acc, rhs_ok) if t2 is not None and t2[0] == acc else None
        if c and is_app and on:
            op = on
            shape = "flatSameOp" if c == on else "flatAnyBoolOp" if c == "any" else None
    if not op or not shape or "sub" not in found:
        raise _gE(f"{fn.name}: node construction {ast.unparse(st)!r} is not a recognised BoolOp construction")
    return ("loop", sub1, ac[0], found["sub"], op, shape)


def _alts_rule(fn, parsers, prefix_name):
    s = fn.args.args[0].arg if fn.args.args else None
    body = _stmts(fn)
    alts = []
    i = 0
    pending_ident = None   # (var, tok)
    rejects = False
    while i < len(body):
        st = body[i]
        i += 1
        t = _target(st)
        if t is not None:
            ac = _accept_call(t[1], s)
            if ac is None or ac[1] or pending_ident:
                raise _gE(f"{fn.name}: unrecognised statement {ast.unparse(st)!r}")
            pending_ident = (t[0], ac[0])
            continue
        if isinstance(st, ast.If) and not st.orelse:
            test = st.test
            if pending_ident:
                var, tok = pending_ident
                ok_test = (isinstance(test, ast.Name) and test.id == var) or ast.unparse(test) == f"{var} is not None"
                ret = st.body[0] if len(st.body) == 1 and isinstance(st.body[0], ast.Return) else None
                a = _astnode(ret.value, "Name") if ret is not None and ret.value is not None else None
                if not ok_test or a is None or not a:
                    raise _gE(f"{fn.name}: identifier alternative {ast.unparse(st)!r} not recognised")
                idn = a[0]
                if not (isinstance(idn, ast.BinOp) and isinstance(idn.op, ast.Add) and isinstance(idn.left, ast.Name)
                        and idn.left.id == prefix_name and ast.unparse(idn.right) == f"{var}.value"):
                    raise _gE(f"{fn.name}: the identifier is not `Name({prefix_name} + {var}.value)`")
                if len(a) > 1 and _astnode(a[1], "Load") is None:
                    raise _gE(f"{fn.name}: identifier context is not Load")
                alts.append(("ident", tok))
                pending_ident = None
                continue
            ac = _accept_call(test, s)
            if ac is None or ac[1]:
                raise _gE(f"{fn.name}: condition {ast.unparse(test)!r} is not `s.accept(TokenType.K)`")
            b = list(st.body)
            if len(b) == 1 and isinstance(b[0], ast.Return) and b[0].value is not None:
                a = _astnode(b[0].value, "UnaryOp")
                if a is not None and len(a) == 2 and _astnode(a[0], "Not") is not None and _sub_call(a[1], s, parsers):
                    alts.append(("unary", ac[0], _sub_call(a[1], s, parsers), "Not"))
                    continue
                raise _gE(f"{fn.name}: {ast.unparse(b[0])!r} is not `return UnaryOp(Not(), <parser>(s))`")
            if len(b) == 3:
                t1 = _target(b[0])
                ac2 = _accept_call(b[1].value, s) if isinstance(b[1], ast.Expr) else None
                if (t1 is not None and _sub_call(t1[1], s, parsers) and ac2 is not None and isinstance(b[2], ast.Return)
                        and isinstance(b[2].value, ast.Name) and b[2].value.id == t1[0]):
                    alts.append(("group", ac[0], _sub_call(t1[1], s, parsers), ac2[0], ac2[1]))
                    continue
            raise _gE(f"{fn.name}: alternative {ast.unparse(st)!r} not recognised")
        # final reject
        call = st.value if isinstance(st, (ast.Expr, ast.Return)) else None
        if (isinstance(call, ast.Call) and isinstance(call.func, ast.Attribute) and call.func.attr == "reject"
                and isinstance(call.func.value, ast.Name) and call.func.value.id == s and i == len(body)):
            rejects = True
            continue
        raise _gE(f"{fn.name}: unrecognised statement {ast.unparse(st)!r}")
    if pending_ident or not rejects or not alts:
        raise _gE(f"{fn.name}: alternatives must end with `s.reject(…)`")
    return ("alts", alts)


def _top_rule(fn, parsers):
    s = fn.args.args[0].arg if fn.args.args else None
    body = _stmts(fn)
    if len(body) != 2 or not isinstance(body[0], ast.If) or not isinstance(body[1], ast.Return):
        raise _gE(f"{fn.name}: expected `if s.accept(EOF): … else: …; return …`")
    iff = body[0]
    ac = _accept_call(iff.test, s)
    if ac is None or ac[1]:
        raise _gE(f"{fn.name}: condition {ast.unparse(iff.test)!r} is not `s.accept(TokenType.K)`")
    t = _target(iff.body[0]) if len(iff.body) == 1 else None
    c = _astnode(t[1], "Constant") if t else None
    if not c or len(c) != 1 or not isinstance(c[0], ast.Constant) or not isinstance(c[0].value, bool):
        raise _gE(f"{fn.name}: the empty expression is not `ret = Constant(<bool>)`")
    ret = t[0]
    eb = iff.orelse
    t2 = _target(eb[0]) if len(eb) == 2 else None
    ac2 = _accept_call(eb[1].value, s) if len(eb) == 2 and isinstance(eb[1], ast.Expr) else None
    if not (t2 and t2[0] == ret and _sub_call(t2[1], s, parsers) and ac2 and ac2[0] == ac[0]):
        raise _gE(f"{fn.name}: else branch is not `ret = <parser>(s); s.accept(TokenType.{ac[0]}, reject=…)`")
    rv = body[1].value
    # return [fix_missing_locations](Expression(ret))
    inner = rv
    if isinstance(inner, ast.Call) and ast.unparse(inner.func).endswith("fix_missing_locations") and len(inner.args) == 1:
        inner = inner.args[0]
    a = _astnode(inner, "Expression")
    if not (a and len(a) == 1 and isinstance(a[0], ast.Name) and a[0].id == ret):
        raise _gE(f"{fn.name}: does not return `Expression({ret})`")
    return {"eof": ac[0], "const": c[0].value, "sub": _sub_call(t2[1], s, parsers), "eofreq": ac2[1]}


def _check_accept(mod):
    """`Scanner.accept`: returns the current token and advances (unless EOF) iff its type is the requested one; rejects when asked."""
    sc = _cls(_gE, mod, "Scanner")
    fn = _method(_gE, sc, "accept")
    body = _stmts(fn)
    a = fn.args
    names = [x.arg for x in a.args + a.kwonlyargs]
    if len(names) != 3 or len(body) != 3:
        raise _gE("Scanner.accept: unexpected signature / number of statements")
    slf, ty, rj = names
    i1, i2, r = body
    if not (isinstance(i1, ast.If) and not i1.orelse and ast.unparse(i1.test) in (f"{slf}.current.type_ is {ty}", f"{slf}.current.type_ == {ty}")):
        raise _gE("Scanner.accept: first statement is not `if self.current.type_ is type_:`")
    b = list(i1.body)
    t = _target(b[0]) if b else None
    if not (len(b) == 3 and t and ast.unparse(t[1]) == f"{slf}.current" and isinstance(b[1], ast.If) and not b[1].orelse
            and ast.unparse(b[1].test) in (f"{t[0]}.type_ is not TokenType.EOF", f"{t[0]}.type_ != TokenType.EOF")
            and len(b[1].body) == 1 and ast.unparse(b[1].body[0]) == f"{slf}.current = next({slf}.tokens)"
            and isinstance(b[2], ast.Return) and ast.unparse(b[2].value) == t[0]):
        raise _gE("Scanner.accept: matching branch is not `token = self.current; if token is not EOF: self.current = next(self.tokens); return token`")
    if not (isinstance(i2, ast.If) and not i2.orelse and ast.unparse(i2.test) == rj and len(i2.body) == 1
            and ast.unparse(i2.body[0]).replace(" ", "") == f"{slf}.reject(({ty},))"):
        raise _gE("Scanner.accept: second statement is not `if reject: self.reject((type_,))`")
    if not (isinstance(r, ast.Return) and (r.value is None or (isinstance(r.value, ast.Constant) and r.value.value is None))):
        raise _gE("Scanner.accept: does not end with `return None`")
    init = _method(_gE, sc, "__init__")
    src = [ast.unparse(x) for x in _stmts(init)]
    arg = init.args.args[1].arg if len(init.args.args) == 2 else None
    if src != [f"self.tokens = self.lex({arg})", "self.current = next(self.tokens)"]:
        raise _gE("Scanner.__init__ is not `self.tokens = self.lex(input_); self.current = next(self.tokens)`")


def _check_compile_evaluate(mod, top_name, prefix_name):
    ex = _cls(_gE, mod, "Expression")
    comp = _method(_gE, ex, "compile_")
    body = _stmts(comp)
    arg = comp.args.args[1].arg if len(comp.args.args) == 2 else None
    t = _target(body[0]) if len(body) == 3 else None
    if not (t and ast.unparse(t[1]) == f"{top_name}(Scanner({arg}))"):
        raise _gE(f"Expression.compile_: first statement is not `astexpr = {top_name}(Scanner({arg}))`")
    t2 = _target(body[1])
    c = t2[1] if t2 else None
    if not (isinstance(c, ast.Call) and isinstance(c.func, ast.Name) and c.func.id == "compile" and c.args
            and isinstance(c.args[0], ast.Name) and c.args[0].id == t[0]
            and any(kw.arg == "mode" and isinstance(kw.value, ast.Constant) and kw.value.value == "eval" for kw in c.keywords)):
        raise _gE("Expression.compile_: the tree is not compiled with compile(astexpr, …, mode='eval')")
    if not (isinstance(body[2], ast.Return) and ast.unparse(body[2].value) == f"cls({t2[0]})"):
        raise _gE("Expression.compile_: does not return cls(code)")
    ev = _method(_gE, ex, "evaluate")
    m = ev.args.args[1].arg if len(ev.args.args) == 2 else None
    calls = [n for n in ast.walk(ev) if isinstance(n, ast.Call) and isinstance(n.func, ast.Name) and n.func.id == "eval"]
    if len(calls) != 1 or len(calls[0].args) != 3 or ast.unparse(calls[0].args[0]) != "self.code" \
            or ast.unparse(calls[0].args[2]) != f"MatcherAdapter({m})":
        raise _gE("Expression.evaluate: not `eval(self.code, …, MatcherAdapter(matcher))`")
    rets = [n for n in ast.walk(ev) if isinstance(n, ast.Return)]
    tgt = [_target(x) for x in _stmts(ev)]
    ok = len(rets) == 1 and (rets[0].value is calls[0] or (isinstance(rets[0].value, ast.Name) and any(
        t3 and t3[0] == rets[0].value.id and t3[1] is calls[0] for t3 in tgt)))
    if not ok:
        raise _gE("Expression.evaluate: does not return the value of eval(…)")
    ad = _cls(_gE, mod, "MatcherAdapter")
    gi = _method(_gE, ad, "__getitem__")
    key = gi.args.args[1].arg if len(gi.args.args) == 2 else None
    b = _stmts(gi)
    want = f"self.matcher({key}[len({prefix_name}):])"
    if not (len(b) == 1 and isinstance(b[0], ast.Return) and ast.unparse(b[0].value).replace(" ", "") == want):
        raise _gE(f"MatcherAdapter.__getitem__ is not `return {want}` (the prefix added by the parser must be stripped again)")
    ini = _method(_gE, ad, "__init__")
    if [ast.unparse(x) for x in _stmts(ini)] != [f"self.matcher = {ini.args.args[1].arg}"]:
        raise _gE("MatcherAdapter.__init__ does not store the matcher")


def grammar_facts(mod: ast.Module):
    funcs = {n.name: n for n in mod.body if isinstance(n, ast.FunctionDef)}
    prefix = [t for t in (_target(n) for n in mod.body) if t and isinstance(t[1], ast.Constant) and isinstance(t[1].value, str)
              and t[0].isupper() and "PREFIX" in t[0]]
    if len(prefix) != 1 or not prefix[0][1].value:
        raise _gE("IDENT_PREFIX (a non-empty module-level string constant) not found")
    prefix_name = prefix[0][0]
    # parser functions: module-level functions with exactly one parameter annotated / used as the scanner
    parsers = {name for name, fn in funcs.items() if len(fn.args.args) == 1 and not fn.args.kwonlyargs
               and any(isinstance(x, ast.Attribute) and x.attr in ("accept", "reject") for x in ast.walk(fn))}
    rules = {}
    top = None
    top_name = None
    for name in sorted(parsers, key=lambda n: funcs[n].lineno):
        fn = funcs[name]
        body = _stmts(fn)
        if body and isinstance(body[0], ast.If) and isinstance(body[-1], ast.Return) and len(body) == 2:
            if top is not None:
                raise _gE("more than one top-level rule")
            top, top_name = _top_rule(fn, parsers), name
        elif any(isinstance(x, ast.While) for x in body):
            rules[name] = _loop_rule(fn, parsers)
        else:
            rules[name] = _alts_rule(fn, parsers, prefix_name)
    if top is None:
        raise _gE("top-level rule (`expression`) not found")
    _check_accept(mod)
    _check_compile_evaluate(mod, top_name, prefix_name)
    return top, rules


# ---- matchers and selections (mark/__init__.py) --------------------------------------------------------------------------------

def _mE(msg):
    return _api().ExtractError("matchers: " + msg)


def _lowered(node, var: str) -> bool:
    return ast.unparse(node) == f"{var}.lower()"


def _subst(node, env):
    """substitute helper names by their defining expressions (one level is enough for these bodies)"""
    class T(ast.NodeTransformer):
        def visit_Name(self, n):
            return env.get(n.id, n) if isinstance(n.ctx, ast.Load) else n
    import copy
    return T().visit(copy.deepcopy(node))


def _names_iter(node, field: str):
    """A generator / set comprehension over `self.<field>`: (element variable, element expression) or the bare attribute."""
    if ast.unparse(node) == f"self.{field}":
        return None, None
    if isinstance(node, (ast.GeneratorExp, ast.SetComp, ast.ListComp)) and len(node.generators) == 1:
        g = node.generators[0]
        if ast.unparse(g.iter) == f"self.{field}" and isinstance(g.target, ast.Name) and not g.ifs:
            return g.target.id, node.elt
    raise _mE(f"{ast.unparse(node)!r} is not an iteration over self.{field}")


def _source_of(node, task: str):
    """which names an expression adds to the matcher's name set"""
    src = ast.unparse(node)
    if src in (f"{{{task}.name}}", f"[{task}.name]", f"({task}.name,)"):
        return "name"
    if src == f"{task}.function.__dict__":
        return "function_dict"
    if isinstance(node, (ast.GeneratorExp, ast.SetComp, ast.ListComp)) and len(node.generators) == 1:
        g = node.generators[0]
        if ast.unparse(g.iter) == f"{task}.markers" and isinstance(g.target, ast.Name) and not g.ifs \
                and ast.unparse(node.elt) == f"{g.target.id}.name":
            return "markers"
    return None


def _from_task(cls: ast.ClassDef):
    fn = _method(_mE, cls, "from_task")
    if not any(ast.unparse(d) == "classmethod" for d in fn.decorator_list) or len(fn.args.args) != 2:
        raise _mE(f"{cls.name}.from_task is not a classmethod of one argument")
    c, task = fn.args.args[0].arg, fn.args.args[1].arg
    body = _stmts(fn)
    if not body or not isinstance(body[-1], ast.Return):
        raise _mE(f"{cls.name}.from_task does not end with return")
    acc = None
    sources = []
    for st in body[:-1]:
        t = _target(st)
        if t is not None and acc is None:
            acc = t[0]
            if isinstance(t[1], ast.Set):
                for e in t[1].elts:
                    s = _source_of(ast.Set(elts=[e]), task)
                    if s is None:
                        raise _mE(f"{cls.name}.from_task: unrecognised name source {ast.unparse(e)!r}")
                    sources.append(s)
            else:
                s = _source_of(t[1], task)
                if s is None:
                    raise _mE(f"{cls.name}.from_task: unrecognised name source {ast.unparse(t[1])!r}")
                sources.append(s)
            continue
        if (isinstance(st, ast.Expr) and isinstance(st.value, ast.Call) and acc is not None
                and ast.unparse(st.value.func) == f"{acc}.update" and len(st.value.args) == 1):
            s = _source_of(st.value.args[0], task)
            if s is None:
                raise _mE(f"{cls.name}.from_task: unrecognised name source {ast.unparse(st.value.args[0])!r}")
            sources.append(s)
            continue
        raise _mE(f"{cls.name}.from_task: unrecognised statement {ast.unparse(st)!r}")
    rv = body[-1].value
    if not (isinstance(rv, ast.Call) and isinstance(rv.func, ast.Name) and rv.func.id == c and len(rv.args) == 1 and not rv.keywords):
        raise _mE(f"{cls.name}.from_task does not return cls(<names>)")
    arg = rv.args[0]
    lower_create = False
    if acc is not None and isinstance(arg, ast.Name) and arg.id == acc:
        pass
    elif acc is None and _source_of(arg, task):
        sources.append(_source_of(arg, task))
    elif (acc is not None and isinstance(arg, (ast.SetComp, ast.GeneratorExp, ast.ListComp)) and len(arg.generators) == 1
          and ast.unparse(arg.generators[0].iter) == acc and isinstance(arg.generators[0].target, ast.Name) and not arg.generators[0].ifs
          and _lowered(arg.elt, arg.generators[0].target.id)):
        lower_create = True
    else:
        raise _mE(f"{cls.name}.from_task: returned names {ast.unparse(arg)!r} not recognised")
    rank = {"name": 0, "function_dict": 1, "markers": 2}
    if len(set(sources)) != len(sources):
        raise _mE(f"{cls.name}.from_task: a name source is used twice")
    return sorted(sources, key=rank.get), lower_create


def _field_of(cls: ast.ClassDef) -> str:
    fields = [n.target.id for n in cls.body if isinstance(n, ast.AnnAssign) and isinstance(n.target, ast.Name)]
    if len(fields) != 1:
        raise _mE(f"{cls.name}: expected exactly one attribute")
    return fields[0].lstrip("_") if False else fields[0]


def matcher_facts(mod: ast.Module):
    out = {}
    for cname in ("KeywordMatcher", "MarkMatcher"):
        cls = _cls(_mE, mod, cname)
        field = _field_of(cls)
        sources, lower_create = _from_task(cls)
        call = _method(_mE, cls, "__call__")
        if len(call.args.args) != 2:
            raise _mE(f"{cname}.__call__ takes one argument")
        q = call.args.args[1].arg
        body = _stmts(call)
        if not body or not isinstance(body[-1], ast.Return):
            raise _mE(f"{cname}.__call__ does not end with return")
        env = {}
        lower_q = False
        for st in body[:-1]:
            t = _target(st)
            if t is None:
                raise _mE(f"{cname}.__call__: unrecognised statement {ast.unparse(st)!r}")
            if t[0] == q:
                if not _lowered(t[1], q):
                    raise _mE(f"{cname}.__call__: the query is rebound to {ast.unparse(t[1])!r}")
                lower_q = True
            else:
                env[t[0]] = t[1]
        rv = _subst(body[-1].value, env)
        lower_n = False
        if isinstance(rv, ast.Compare) and len(rv.ops) == 1 and isinstance(rv.ops[0], ast.In):
            # query in self.names
            l = rv.left
            if _lowered(l, q):
                lower_q = True
            elif not (isinstance(l, ast.Name) and l.id == q):
                raise _mE(f"{cname}.__call__: left side of `in` is {ast.unparse(l)!r}")
            v, elt = _names_iter(rv.comparators[0], field)
            if v is not None:
                if _lowered(elt, v):
                    lower_n = True
                elif not (isinstance(elt, ast.Name) and elt.id == v):
                    raise _mE(f"{cname}.__call__: names are transformed by {ast.unparse(elt)!r}")
            test = "member"
        elif (isinstance(rv, ast.Call) and isinstance(rv.func, ast.Name) and rv.func.id == "any" and len(rv.args) == 1
              and isinstance(rv.args[0], (ast.GeneratorExp, ast.ListComp)) and len(rv.args[0].generators) == 1):
            g = rv.args[0].generators[0]
            if not isinstance(g.target, ast.Name) or g.ifs:
                raise _mE(f"{cname}.__call__: unrecognised generator")
            nm = g.target.id
            v, elt = _names_iter(g.iter, field)
            if v is not None:
                if _lowered(elt, v):
                    lower_n = True
                elif not (isinstance(elt, ast.Name) and elt.id == v):
                    raise _mE(f"{cname}.__call__: names are transformed by {ast.unparse(elt)!r}")
            cmp_ = rv.args[0].elt
            if not (isinstance(cmp_, ast.Compare) and len(cmp_.ops) == 1 and isinstance(cmp_.ops[0], ast.In)):
                raise _mE(f"{cname}.__call__: element test {ast.unparse(cmp_)!r} is not `query in name`")
            l, r = cmp_.left, cmp_.comparators[0]
            if _lowered(l, q):
                lower_q = True
            elif not (isinstance(l, ast.Name) and l.id == q):
                raise _mE(f"{cname}.__call__: the needle is {ast.unparse(l)!r}, not the query")
            if _lowered(r, nm):
                lower_n = True
            elif not (isinstance(r, ast.Name) and r.id == nm):
                raise _mE(f"{cname}.__call__: the haystack is {ast.unparse(r)!r}, not the name")
            test = "substring"
        else:
            raise _mE(f"{cname}.__call__: {ast.unparse(rv)!r} is neither `any(query in name for name in names)` nor `query in names`")
        out[cname] = {"sources": sources, "lower_create": lower_create, "lower_q": lower_q, "lower_n": lower_n, "test": test}
    return out


def select_facts(mod: ast.Module):
    out = {}
    for fname in ("select_by_keyword", "select_by_mark", "select_by_after_keyword"):
        fns = [n for n in mod.body if isinstance(n, ast.FunctionDef) and n.name == fname]
        if len(fns) != 1:
            raise _mE(f"{fname} not found")
        fn = fns[0]
        body = _stmts(fn)
        params = [a.arg for a in fn.args.args]
        # the expression text: a parameter, or a local read from session.config[...]
        exprvar = None
        none_when_empty = False
        i = 0
        t = _target(body[0])
        if t is not None and ast.unparse(t[1]).startswith(f"{params[0]}.config["):
            exprvar = t[0]
            i = 1
        elif len(params) == 2 and fname == "select_by_after_keyword":
            exprvar = params[1]
        else:
            raise _mE(f"{fname}: where the expression comes from is not recognised")
        if isinstance(body[i], ast.If) and not body[i].orelse and ast.unparse(body[i].test) == f"not {exprvar}":
            b = body[i].body
            if not (len(b) == 1 and isinstance(b[0], ast.Return) and (b[0].value is None or ast.unparse(b[0].value) == "None")):
                raise _mE(f"{fname}: `if not {exprvar}:` does not return None")
            none_when_empty = True
            i += 1
        tr = body[i]
        if not (isinstance(tr, ast.Try) and len(tr.body) == 1 and len(tr.handlers) == 1 and not tr.orelse and not tr.finalbody):
            raise _mE(f"{fname}: expected `try: expression = Expression.compile_(…) except ParseError: raise ValueError`")
        t = _target(tr.body[0])
        if not (t and ast.unparse(t[1]) == f"Expression.compile_({exprvar})"):
            raise _mE(f"{fname}: the compiled text is {ast.unparse(tr.body[0])!r}, not Expression.compile_({exprvar})")
        ev = t[0]
        h = tr.handlers[0]
        raises = [n for n in ast.walk(h) if isinstance(n, ast.Raise)]
        if not (ast.unparse(h.type) == "ParseError" and len(raises) == 1 and raises[0].exc is not None
                and "ValueError" in ast.unparse(raises[0].exc)):
            raise _mE(f"{fname}: ParseError is not turned into ValueError")
        i += 1
        t = _target(body[i])
        if not (t and ast.unparse(t[1]) == "set()"):
            raise _mE(f"{fname}: result set not initialised with set()")
        res = t[0]
        i += 1
        loop = body[i]
        if not (isinstance(loop, ast.For) and ast.unparse(loop.iter) == f"{params[0]}.tasks" and isinstance(loop.target, ast.Name)
                and len(loop.body) == 1 and isinstance(loop.body[0], ast.If) and not loop.body[0].orelse and not loop.orelse):
            raise _mE(f"{fname}: expected `for task in session.tasks: if …: …`")
        task = loop.target.id
        cond = loop.body[0].test
        guard = False
        if isinstance(cond, ast.BoolOp) and isinstance(cond.op, ast.And) and len(cond.values) == 2 \
                and isinstance(cond.values[0], ast.Name) and cond.values[0].id == exprvar:
            guard = True
            cond = cond.values[1]
        m = None
        for cname in ("KeywordMatcher", "MarkMatcher"):
            if ast.unparse(cond) == f"{ev}.evaluate({cname}.from_task({task}))":
                m = cname
        if m is None:
            raise _mE(f"{fname}: condition {ast.unparse(cond)!r} is not `expression.evaluate(<Matcher>.from_task(task))`")
        act = loop.body[0].body
        src = ast.unparse(act[0]) if len(act) == 1 else ""
        dagp = params[1] if len(params) > 1 else "dag"
        if src == f"{res}.update(task_and_preceding_tasks({task}.signature, {dagp}))":
            closure = True
        elif src == f"{res}.add({task}.signature)":
            closure = False
        else:
            raise _mE(f"{fname}: selected tasks are recorded by {src!r}")
        i += 1
        if not (i == len(body) - 1 and isinstance(body[i], ast.Return) and ast.unparse(body[i].value) == res):
            raise _mE(f"{fname}: does not end with `return {res}`")
        out[fname] = {"none": none_when_empty, "matcher": m, "guard": guard, "closure": closure}
    return out


# ---- `select_tasks_by_marks_and_expressions`: from the selection sets to deselected tasks --------------------------------------

def deselect_facts(mod: ast.Module):
    def fn_of(name):
        f = [n for n in mod.body if isinstance(n, ast.FunctionDef) and n.name == name]
        if len(f) != 1:
            raise _mE(f"{name} not found")
        return f[0]
    top = fn_of("select_tasks_by_marks_and_expressions")
    params = [a.arg for a in top.args.args]
    if len(params) != 2:
        raise _mE("select_tasks_by_marks_and_expressions: expected (session, dag)")
    session, dag = params
    results = {}      # variable -> select function
    steps = []
    seen_if = False
    for st in _stmts(top):
        t = _target(st)
        if t is not None:
            v = t[1]
            if (isinstance(v, ast.Call) and isinstance(v.func, ast.Name) and v.func.id in ("select_by_keyword", "select_by_mark")
                    and [ast.unparse(a) for a in v.args] == [session, dag] and not v.keywords):
                if seen_if:
                    raise _mE("a selection is evaluated after tasks were deselected (the attached skip marks would be visible to it)")
                if v.func.id in results.values():
                    raise _mE(f"{v.func.id} is evaluated twice")
                results[t[0]] = v.func.id
                continue
            raise _mE(f"select_tasks_by_marks_and_expressions: unrecognised statement {ast.unparse(st)!r}")
        if isinstance(st, ast.If) and not st.orelse and len(st.body) == 1:
            seen_if = True
            test = st.test
            var = guard = None
            if isinstance(test, ast.Name):
                var, guard = test.id, "truthy"
            elif (isinstance(test, ast.Compare) and len(test.ops) == 1 and isinstance(test.left, ast.Name)
                  and isinstance(test.comparators[0], ast.Constant) and test.comparators[0].value is None):
                if isinstance(test.ops[0], (ast.IsNot, ast.NotEq)):
                    var, guard = test.left.id, "isNotNone"
            elif (isinstance(test, ast.Call) and isinstance(test.func, ast.Name) and test.func.id in ("bool", "len") and len(test.args) == 1
                  and isinstance(test.args[0], ast.Name)):
                var, guard = test.args[0].id, "truthy"
            if var is None or var not in results:
                raise _mE(f"guard {ast.unparse(test)!r} is not a test on a selection result")
            call = st.body[0].value if isinstance(st.body[0], ast.Expr) else None
            if not (isinstance(call, ast.Call) and isinstance(call.func, ast.Name) and call.func.id == "_deselect_others_with_mark"
                    and len(call.args) == 3 and not call.keywords and ast.unparse(call.args[0]) == session and ast.unparse(call.args[1]) == var):
                raise _mE(f"guarded statement {ast.unparse(st.body[0])!r} is not `_deselect_others_with_mark(session, {var}, Mark(…))`")
            mk = call.args[2]
            if not (isinstance(mk, ast.Call) and ast.unparse(mk.func) == "Mark" and mk.args and isinstance(mk.args[0], ast.Constant)
                    and isinstance(mk.args[0].value, str)):
                raise _mE("the deselection mark is not `Mark(\"<name>\", …)`")
            steps.append((results[var], guard, mk.args[0].value))
            continue
        raise _mE(f"select_tasks_by_marks_and_expressions: unrecognised statement {ast.unparse(st)!r}")
    if sorted(x[0] for x in steps) != ["select_by_keyword", "select_by_mark"]:
        raise _mE("not exactly one deselection step per selection")
    # _deselect_others_with_mark: for task in session.tasks: if task.signature not in remaining: task.markers.append(mark)
    d = fn_of("_deselect_others_with_mark")
    dp = [a.arg for a in d.args.args]
    body = _stmts(d)
    ok = False
    if len(dp) == 3 and len(body) == 1 and isinstance(body[0], ast.For) and ast.unparse(body[0].iter) == f"{dp[0]}.tasks" \
            and isinstance(body[0].target, ast.Name) and len(body[0].body) == 1 and isinstance(body[0].body[0], ast.If) and not body[0].body[0].orelse:
        tk = body[0].target.id
        iff = body[0].body[0]
        if ast.unparse(iff.test) == f"{tk}.signature not in {dp[1]}" and len(iff.body) == 1 \
                and ast.unparse(iff.body[0]) == f"{tk}.markers.append({dp[2]})":
            ok = True
    if not ok:
        raise _mE("_deselect_others_with_mark is not `for task in session.tasks: if task.signature not in remaining: task.markers.append(mark)`")
    return steps


# ---- where the selection is applied: on every (re-)creation of the DAG -----------------------------------------------------------

def selection_site_facts(dag_mod: ast.Module, prov_mod: ast.Module):
    def fn_of(mod, name, what):
        f = [n for n in mod.body if isinstance(n, ast.FunctionDef) and n.name == name]
        if len(f) != 1:
            raise _dE(f"{what}: function {name} not found")
        return f[0]
    cds = fn_of(dag_mod, "create_dag_from_session", "dag.py")
    in_cds = False
    for st in _stmts(cds):
        call = st.value if isinstance(st, ast.Expr) else None
        if isinstance(call, ast.Call) and isinstance(call.func, ast.Name) and call.func.id == "select_tasks_by_marks_and_expressions":
            in_cds = True
    # a call nested in a condition / loop is not "on every creation"
    nested = [n for n in ast.walk(cds) if isinstance(n, ast.Call) and isinstance(n.func, ast.Name)
              and n.func.id == "select_tasks_by_marks_and_expressions"]
    if nested and not in_cds:
        raise _dE("create_dag_from_session calls select_tasks_by_marks_and_expressions conditionally")
    rec = fn_of(prov_mod, "recreate_dag", "provisional_utils.py")
    uses = any(isinstance(n, ast.Call) and isinstance(n.func, ast.Name) and n.func.id == "create_dag_from_session" for n in ast.walk(rec))
    others = [n.func.id for n in ast.walk(rec) if isinstance(n, ast.Call) and isinstance(n.func, ast.Name) and n.func.id.startswith(("create_dag", "_create_dag"))]
    if not others:
        raise _dE("recreate_dag does not create a DAG through a known function")
    return {"in_cds": in_cds, "recreate": uses}


# ---- `_modify_dag` (dag.py): the per-task evaluation of `after="<expr>"` -------------------------------------------------------

def _dE(msg):
    return _api().ExtractError("_modify_dag: " + msg)


_READONLY_METHODS = {"get", "items", "keys", "values", "copy", "successors", "predecessors"}


def _parent_of(root, node):
    for p in ast.walk(root):
        for c in ast.iter_child_nodes(p):
            if c is node:
                return p
    return None


def after_loop_facts(mod: ast.Module):
    fns = [n for n in mod.body if isinstance(n, ast.FunctionDef) and n.name == "_modify_dag"]
    if len(fns) != 1:
        raise _dE("function not found")
    fn = fns[0]
    params = [a.arg for a in fn.args.args + fn.args.kwonlyargs]
    if len(params) != 2:
        raise _dE("expected parameters (session, dag)")
    session, dag = params
    body = _stmts(fn)
    loops = [i for i, st in enumerate(body) if isinstance(st, ast.For) and ast.unparse(st.iter) == f"{session}.tasks"]
    if len(loops) != 1:
        raise _dE(f"expected exactly one `for task in {session}.tasks` loop at top level")
    li = loops[0]
    loop = body[li]
    if not isinstance(loop.target, ast.Name) or loop.orelse:
        raise _dE("unexpected loop header")
    task = loop.target.id
    # names bound before the loop (besides the parameters): they may be read in the loop but never written / mutated there
    pre = set()
    for st in body[:li]:
        for n in ast.walk(st):
            if isinstance(n, ast.Name) and isinstance(n.ctx, ast.Store):
                pre.add(n.id)
    # comprehension variables are local to the comprehension
    assigned_in_loop = set()
    for n in ast.walk(loop):
        if isinstance(n, ast.Name) and isinstance(n.ctx, ast.Store) and n is not loop.target:
            assigned_in_loop.add(n.id)
    if assigned_in_loop & pre:
        raise _dE(f"names bound before the loop are rebound inside it: {sorted(assigned_in_loop & pre)}")
    # a memo of the selection keyed by the expression text is admitted when it cannot leak between tasks: it is a dict created
    # empty before the loop, written only as `M[after] = <select>(session, after)`, and read only through a fresh copy
    # (`set(M[after])`, `M[after].copy()`, `M[after] - {…}`) or a membership test
    memos = set()
    for st in body[:li]:
        t = _target(st)
        if t and ast.unparse(t[1]) in ("{}", "dict()"):
            memos.add(t[0])
    memo_ok_nodes = set()
    for name in list(memos):
        ok = True
        for n in ast.walk(loop):
            if isinstance(n, ast.Name) and n.id == name:
                par = _parent_of(loop, n)
                gp = _parent_of(loop, par) if par is not None else None
                if isinstance(par, ast.Compare) and len(par.ops) == 1 and isinstance(par.ops[0], (ast.In, ast.NotIn)) and par.comparators[0] is n:
                    continue
                if isinstance(par, ast.Subscript) and par.value is n:
                    if isinstance(par.ctx, ast.Store):
                        asg = gp
                        if (isinstance(asg, (ast.Assign, ast.AnnAssign)) and isinstance(asg.value, ast.Call) and isinstance(asg.value.func, ast.Name)
                                and len(asg.value.args) == 2 and ast.unparse(asg.value.args[0]) == session
                                and ast.unparse(asg.value.args[1]) == ast.unparse(par.slice)):
                            memo_ok_nodes.add(par)
                            continue
                    elif isinstance(par.ctx, ast.Load):
                        fresh = ((isinstance(gp, ast.Call) and ast.unparse(gp.func) in ("set", "frozenset", "list", "sorted") and gp.args and gp.args[0] is par)
                                 or (isinstance(gp, ast.Attribute) and gp.attr in ("copy", "difference") and gp.value is par
                                     and isinstance(_parent_of(loop, gp), ast.Call))
                                 or (isinstance(gp, ast.BinOp) and isinstance(gp.op, ast.Sub) and gp.left is par))
                        if fresh:
                            continue
                ok = False
        if not ok:
            memos.discard(name)
    pre_state = pre - memos
    for n in ast.walk(loop):
        # writes through a name bound before the loop:  x[k] = …,  x.attr = …,  x[k] += …,  del x[k],  x.method(…) that may mutate
        if isinstance(n, (ast.Subscript, ast.Attribute)) and isinstance(n.ctx, (ast.Store, ast.Del)):
            base = n.value
            while isinstance(base, (ast.Subscript, ast.Attribute)):
                base = base.value
            if isinstance(base, ast.Name) and base.id in pre_state:
                raise _dE(f"state bound before the loop is written inside it: {ast.unparse(n)!r} — iterations are no longer independent")
        if isinstance(n, ast.Call) and isinstance(n.func, ast.Attribute):
            base = n.func.value
            while isinstance(base, (ast.Subscript, ast.Attribute)):
                base = base.value
            if isinstance(base, ast.Name) and base.id in pre_state and n.func.attr not in _READONLY_METHODS:
                raise _dE(f"method {ast.unparse(n.func)!r} is called on state bound before the loop — iterations may no longer be independent")
        if isinstance(n, (ast.Global, ast.Nonlocal)):
            raise _dE("global / nonlocal state in the loop")
    # a name assigned in the loop must not be read before its assignment in the same iteration (value carried over)
    first = {}
    for n in sorted((x for x in ast.walk(loop) if isinstance(x, ast.Name)), key=lambda x: (x.lineno, x.col_offset)):
        if n.id in assigned_in_loop and n.id not in first:
            first[n.id] = type(n.ctx).__name__
    # (the target of an assignment is visited after its value in source order only if it stands to the right; `x = f(x)` reads first)
    for name, ctx in first.items():
        if ctx == "Load":
            comp_local = any(isinstance(c, (ast.GeneratorExp, ast.ListComp, ast.SetComp, ast.DictComp)) and any(
                isinstance(g.target, ast.Name) and g.target.id == name for g in c.generators) for c in ast.walk(loop))
            if not comp_local:
                raise _dE(f"{name} is read before it is assigned within an iteration (value carried over from the previous task)")
    # the string branch
    after_var = None
    for st in loop.body:
        t = _target(st)
        if t and ast.unparse(t[1]) in (f"{task}.attributes.get('after')", f'{task}.attributes.get("after")'):
            after_var = t[0]
    if after_var is None:
        raise _dE("`after = task.attributes.get('after')` not found")
    branch = None
    for n in ast.walk(loop):
        if isinstance(n, ast.If) and ast.unparse(n.test) == f"isinstance({after_var}, str)":
            branch = n.body
    if branch is None:
        raise _dE("no `isinstance(after, str)` branch")
    env = {}
    sel_var = sel_fn = None
    memo_used = None
    discards = False
    edges = False
    for st in branch:
        t = _target(st)
        # memo fill:  if after not in M: M[after] = <select>(session, after)
        if (isinstance(st, ast.If) and not st.orelse and len(st.body) == 1 and isinstance(st.test, ast.Compare) and len(st.test.ops) == 1
                and isinstance(st.test.ops[0], ast.NotIn) and ast.unparse(st.test.left) == after_var
                and isinstance(st.test.comparators[0], ast.Name) and st.test.comparators[0].id in memos):
            m = st.test.comparators[0].id
            a = st.body[0]
            if (isinstance(a, (ast.Assign, ast.AnnAssign)) and ast.unparse(a.targets[0] if isinstance(a, ast.Assign) else a.target) == f"{m}[{after_var}]"
                    and isinstance(a.value, ast.Call) and isinstance(a.value.func, ast.Name)
                    and [ast.unparse(x) for x in a.value.args] == [session, after_var] and sel_fn is None):
                sel_fn = a.value.func.id
                memo_used = m
                continue
            raise _dE(f"unrecognised memo statement {ast.unparse(st)!r}")
        if t is not None and memo_used is not None and sel_var is None:
            src = ast.unparse(t[1])
            key = f"{memo_used}[{after_var}]"
            if src in (f"set({key})", f"{key}.copy()") or src.startswith(f"{key} - ") or src.startswith(f"{key}.difference("):
                sel_var = t[0]
                if src.startswith((f"{key} - ", f"{key}.difference(")):
                    rest_src = src[len(key):]
                    if f"{task}.signature" in rest_src or any(v == f"{task}.signature" and k in rest_src for k, v in env.items()):
                        discards = True
                continue
        if t is not None:
            v = t[1]
            if (isinstance(v, ast.Call) and isinstance(v.func, ast.Name) and [ast.unparse(a) for a in v.args] == [session, after_var]
                    and not v.keywords):
                if sel_var is not None:
                    raise _dE("the selection is evaluated more than once")
                sel_var, sel_fn = t[0], v.func.id
            else:
                env[t[0]] = ast.unparse(v)
            continue
        if isinstance(st, ast.Expr) and isinstance(st.value, ast.Call) and sel_var is not None \
                and ast.unparse(st.value.func) == f"{sel_var}.discard" and len(st.value.args) == 1:
            a = ast.unparse(st.value.args[0])
            if env.get(a, a) != f"{task}.signature":
                raise _dE(f"what is discarded from the selection is {a!r}, not the task's own signature")
            discards = True
            continue
        if isinstance(st, ast.For) and sel_var is not None and ast.unparse(st.iter) == sel_var and isinstance(st.target, ast.Name):
            sg = st.target.id
            inner = st.body[0] if len(st.body) == 1 else None
            if (isinstance(inner, ast.For) and ast.unparse(inner.iter) == f"{dag}.successors({sg})" and isinstance(inner.target, ast.Name)
                    and len(inner.body) == 1):
                call = ast.unparse(inner.body[0])
                tgt = [f"{dag}.add_edge({inner.target.id}, {task}.signature)"] + [f"{dag}.add_edge({inner.target.id}, {k})" for k, v in env.items() if v == f"{task}.signature"]
                if call in tgt:
                    edges = True
                    continue
            raise _dE(f"edges are not drawn as `for s in selection: for successor in dag.successors(s): dag.add_edge(successor, task.signature)`")
        raise _dE(f"unrecognised statement in the string branch: {ast.unparse(st)!r}")
    if sel_fn is None or not edges:
        raise _dE("the string branch does not evaluate a selection and draw edges from it")
    return {"fn": sel_fn, "discards": discards, "edges": edges}


def _lean_s(s):
    return _api().lean_str(s)


def grammar_section() -> list[str]:
    """Section `extract_exprgen` of Generated.lean."""
    X = _api()
    try:
        mod = ast.parse((X.SRC / "mark" / "expression.py").read_text())
        mmod = ast.parse((X.SRC / "mark" / "__init__.py").read_text())
        dmod = ast.parse((X.SRC / "dag.py").read_text())
        pmod = ast.parse((X.SRC / "provisional_utils.py").read_text())
    except (OSError, SyntaxError) as e:
        raise X.ExtractError(f"cannot parse mark/: {e}") from None
    f = lex_facts(lambda m: X.ExtractError("expression.py: " + m), mod)
    top, rules = grammar_facts(mod)
    mf = matcher_facts(mmod)
    sf = select_facts(mmod)
    al = after_loop_facts(dmod)
    ds = deselect_facts(mmod)
    site = selection_site_facts(dmod, pmod)
    b = X.lean_bool
    L = [GRAM_SCHEMA]

    def alt(a):
        if a[0] == "unary":
            return f".unary {_lean_s(a[1])} {_lean_s(a[2])} {_lean_s(a[3])}"
        if a[0] == "group":
            return f".group {_lean_s(a[1])} {_lean_s(a[2])} {_lean_s(a[3])} {b(a[4])}"
        return f".ident {_lean_s(a[1])}"

    def rule(r):
        if r[0] == "loop":
            return ".loop " + " ".join(_lean_s(x) for x in r[1:])
        return ".alts " + X.lean_list(r[1], alt)

    L.append("/-- The parser functions of mark/expression.py in definition order: name ↦ control structure. -/")
    L.append("def exprRules : List (String × Gram.Rule) := " + X.lean_list(list(rules.items()), lambda kv: f"({_lean_s(kv[0])}, {rule(kv[1])})"))
    L.append(f"def exprTop : Gram.Top := {{ eofTok := {_lean_s(top['eof'])}, emptyConst := {b(top['const'])}, sub := {_lean_s(top['sub'])}, eofRequired := {b(top['eofreq'])} }}")
    L.append("/-- The if/elif chain of `Scanner.lex`. -/")
    kws = X.lean_list(f["keywords"], lambda r: f"({lean_chars(r[0])}, {_lean_s(r[1])})")
    L.append("def exprLexBranches : List Gram.LexBranch := ["
             + f".skip {lean_chars(f['ws'])}, .single {lean_char(f['lparen'])} \"LPAREN\", .single {lean_char(f['rparen'])} \"RPAREN\", "
             + f".run {lean_chars(f['extra'])} {b(f['word'])} {kws} \"IDENT\"]")
    for cname, key in (("KeywordMatcher", "kwMatcher"), ("MarkMatcher", "markMatcher")):
        m = mf[cname]
        L.append(f"def {key} : Gram.Matcher := {{ sources := {X.lean_list(m['sources'], _lean_s)}, lowerNamesAtCreate := {b(m['lower_create'])}, "
                 f"lowerQueryAtCall := {b(m['lower_q'])}, lowerNamesAtCall := {b(m['lower_n'])}, test := {_lean_s(m['test'])} }}")
    for fname, key in (("select_by_keyword", "selKeyword"), ("select_by_mark", "selMark"), ("select_by_after_keyword", "selAfter")):
        s = sf[fname]
        L.append(f"def {key} : Gram.Select := {{ noneWhenEmpty := {b(s['none'])}, parseErrorIsError := true, matcher := {_lean_s(s['matcher'])}, "
                 f"guardNonEmpty := {b(s['guard'])}, closure := {b(s['closure'])} }}")
    L.append("/-- The selection is part of every creation of the DAG, also of the re-creation after a task generator ran. -/")
    L.append(f"def selectionSite : Gram.SelectionSite := {{ inCreateDagFromSession := {b(site['in_cds'])}, recreateUsesIt := {b(site['recreate'])} }}")
    L.append("/-- `select_tasks_by_marks_and_expressions`: both selections are evaluated first, then these steps run in order. -/")
    L.append("def deselectSteps : List Gram.Deselect := " + X.lean_list(ds, lambda r: f"{{ selectFn := {_lean_s(r[0])}, guard := {_lean_s(r[1])}, markName := {_lean_s(r[2])} }}"))
    L.append("/-- `_modify_dag`: how `after=\"<expr>\"` is turned into edges, per task. -/")
    L.append(f"def afterLoop : Gram.AfterLoop := {{ selectFn := {_lean_s(al['fn'])}, discardsSelf := {b(al['discards'])}, "
             f"viaSuccessors := {b(al['edges'])}, stateless := true }}")
    L.append("")
    return L
