"""Translator section for M3 (`Expr.lean`, property C16): facts read from `mark/expression.py`.

`expr_section() -> list[str]` of Lean lines for `Generated.lean`; fail-closed (`ExtractError`).

What is read (with `ast` + the regex parser of the standard library, nothing is executed):

* `Scanner.lex`: the order of the character tests (whitespace tuple, "(", ")", regex), the whitespace characters,
  the parenthesis characters, the identifier regex, that it is applied with `re.match` to `input_[pos:]` (or a
  module-level `re.compile(<literal>)` object with `.match(input_[pos:])` / `.match(input_, pos)`: prefix match at the
  current position), that `pos` advances by `len(value)`, the keyword table
  (`value == "<kw>"` → `TokenType.<KIND>`, first match wins, fallback `IDENT`), and the column offset of the
  `ParseError` (`pos + 1`).
* `Scanner.reject`: the column offset (`self.current.pos + 1`).
* The identifier regex must be in the fragment `( alt | alt | … )+` where every alternative is a single-character
  matcher (`\\w`, a literal, a character set of literals/`\\w`) or the historical typo `:?\\w` (= `\\w`, or `:` then `\\w`),
  which is accepted only when `:` is an alternative itself, so the language is still "non-empty run over the class".

Emitted
  exprWsChars        : List Char            characters skipped between tokens
  exprLParen/RParen  : Char
  identExtraChars    : List Char            literal members of the identifier class
  identHasWordClass  : Bool                 whether `\\w` is a member of the identifier class
  exprKeywords       : List (List Char × String)   keyword text ↦ TokenType member name, in test order
  exprErrorColOffset : Nat                  column = position + this
"""
from __future__ import annotations

import ast
import sys

try:  # Python ≥ 3.11
    import re._constants as _sc
    import re._parser as _sp
except ImportError:  # pragma: no cover
    import sre_constants as _sc
    import sre_parse as _sp


def _api():
    """The running translator module (it is executed as __main__ by the pipeline)."""
    m = sys.modules.get("__main__")
    if m is not None and hasattr(m, "ExtractError") and hasattr(m, "EXTRA_SECTIONS"):
        return m
    import extract
    return extract


def lean_char(ch: str) -> str:
    if ch == "'":
        return "'\\''"
    if ch == "\\":
        return "'\\\\'"
    if ch == "\t":
        return "'\\t'"
    if ch == "\n":
        return "'\\n'"
    if 32 <= ord(ch) < 127:
        return f"'{ch}'"
    return f"(Char.ofNat {ord(ch)})"


def lean_chars(s) -> str:
    return "[" + ", ".join(lean_char(c) for c in s) + "]"


# ------------------------------------------------------------------------------------------------
# the identifier regex
# ------------------------------------------------------------------------------------------------

def _single(E, item):
    """A single-character matcher → (set of literal code points, has_word) or None."""
    op, arg = item
    if op is _sc.LITERAL:
        return {int(arg)}, False
    if op is _sc.IN:
        lits, word = set(), False
        for o, a in arg:
            if o is _sc.LITERAL:
                lits.add(int(a))
            elif o is _sc.CATEGORY and a is _sc.CATEGORY_WORD:
                word = True
            elif o is _sc.RANGE:
                lo, hi = int(a[0]), int(a[1])
                if hi - lo > 64:
                    raise E(f"identifier regex: range {lo}-{hi} too wide for the literal list")
                lits.update(range(lo, hi + 1))
            else:
                raise E(f"identifier regex: class item {o} {a} not supported (negation / other category)")
        return lits, word
    return None


def ident_class(E, pattern: str):
    """(sorted literal chars, has_word) of a regex of the form (alt|alt|…)+ over single-char matchers."""
    try:
        parsed = _sp.parse(pattern)
    except Exception as e:  # noqa: BLE001
        raise E(f"identifier regex does not parse: {e}") from None
    if parsed.state.flags & ~_sc.SRE_FLAG_UNICODE:
        raise E("identifier regex: inline flags not supported")
    items = list(parsed)
    if len(items) != 1 or items[0][0] is not _sc.MAX_REPEAT:
        raise E(f"identifier regex {pattern!r} is not of the form (…)+")
    lo, hi, sub = items[0][1]
    if lo != 1 or hi is not _sc.MAXREPEAT:
        raise E(f"identifier regex: repetition {{{lo},{hi}}} is not '+'")
    sub = list(sub)
    # strip one level of (capturing or not) group
    if len(sub) == 1 and sub[0][0] is _sc.SUBPATTERN:
        _g, add_flags, del_flags, inner = sub[0][1]
        if add_flags or del_flags:
            raise E("identifier regex: group flags not supported")
        sub = list(inner)
    if len(sub) == 1 and sub[0][0] is _sc.BRANCH:
        alts = [list(a) for a in sub[0][1][1]]
    else:
        alts = [sub]
    lits: set[int] = set()
    word = False
    pending = []  # two-item alternatives  X?Y  to be checked for subsumption
    for alt in alts:
        if len(alt) == 1:
            r = _single(E, alt[0])
            if r is None:
                raise E(f"identifier regex: alternative {alt} is not a single-character matcher")
            lits |= r[0]
            word = word or r[1]
        elif len(alt) == 2 and alt[0][0] is _sc.MAX_REPEAT and alt[0][1][0] == 0 and alt[0][1][1] == 1:
            opt = list(alt[0][1][2])
            if len(opt) != 1:
                raise E(f"identifier regex: alternative {alt} not supported")
            a, b = _single(E, opt[0]), _single(E, alt[1])
            if a is None or b is None:
                raise E(f"identifier regex: alternative {alt} not supported")
            pending.append((a, b))
        else:
            raise E(f"identifier regex: alternative {alt} is not a single-character matcher")
    # X?Y inside (…)+ : with X absent it is the single-character matcher Y; with X present it is the two iterations
    # "X", "Y" provided X is a single-character alternative on its own. Then the language is still (class)+.
    for (_al, _aw), (bl, bw) in pending:
        lits |= bl
        word = word or bw
    for (al, aw), (_bl, _bw) in pending:
        if not (al <= lits and (not aw or word)):
            raise E("identifier regex: in the alternative `X?Y`, X is not a single-character alternative on its own")
    if not lits and not word:
        raise E("identifier regex: empty class")
    return "".join(chr(c) for c in sorted(lits)), word


# ------------------------------------------------------------------------------------------------
# Scanner.lex / Scanner.reject
# ------------------------------------------------------------------------------------------------

def _cls(E, mod: ast.Module, name: str) -> ast.ClassDef:
    for n in mod.body:
        if isinstance(n, ast.ClassDef) and n.name == name:
            return n
    raise E(f"class {name} not found in mark/expression.py")


def _method(E, cls: ast.ClassDef, name: str) -> ast.FunctionDef:
    for n in cls.body:
        if isinstance(n, ast.FunctionDef) and n.name == name:
            return n
    raise E(f"{cls.name}.{name} not found")


def _strip_doc(body):
    return [s for s in body if not (isinstance(s, ast.Expr) and isinstance(s.value, ast.Constant) and isinstance(s.value.value, str))]


def _yield_kind(E, stmt, what: str):
    """`yield Token(TokenType.K, <value>, pos)` → (K, unparsed value)."""
    if not (isinstance(stmt, ast.Expr) and isinstance(stmt.value, ast.Yield) and isinstance(stmt.value.value, ast.Call)):
        raise E(f"lex: {what}: expected `yield Token(…)`, found {ast.unparse(stmt)!r}")
    call = stmt.value.value
    if not (isinstance(call.func, ast.Name) and call.func.id == "Token" and len(call.args) == 3 and not call.keywords):
        raise E(f"lex: {what}: unrecognised token construction {ast.unparse(call)!r}")
    k, v, p = call.args
    if not (isinstance(k, ast.Attribute) and isinstance(k.value, ast.Name) and k.value.id == "TokenType"):
        raise E(f"lex: {what}: token type is not TokenType.<member>")
    if ast.unparse(p) != "pos":
        raise E(f"lex: {what}: token position is {ast.unparse(p)!r}, not pos")
    return k.attr, ast.unparse(v)


def _is_pos_inc(stmt, by: str) -> bool:
    return isinstance(stmt, ast.AugAssign) and isinstance(stmt.op, ast.Add) and ast.unparse(stmt.target) == "pos" and ast.unparse(stmt.value) == by


def _char_eq(E, test, what):
    """`input_[pos] == "<c>"` → c."""
    if not (isinstance(test, ast.Compare) and len(test.ops) == 1 and isinstance(test.ops[0], ast.Eq)
            and ast.unparse(test.left) == "input_[pos]" and isinstance(test.comparators[0], ast.Constant)
            and isinstance(test.comparators[0].value, str) and len(test.comparators[0].value) == 1):
        raise E(f"lex: {what}: expected `input_[pos] == \"<char>\"`, found {ast.unparse(test)!r}")
    return test.comparators[0].value


def _col_offset(E, node, base: str, what: str) -> int:
    """`<base> + k` → k."""
    if ast.unparse(node) == base:
        return 0
    if (isinstance(node, ast.BinOp) and isinstance(node.op, ast.Add) and ast.unparse(node.left) == base
            and isinstance(node.right, ast.Constant) and isinstance(node.right.value, int)):
        return node.right.value
    raise E(f"{what}: column {ast.unparse(node)!r} is not `{base} + <int>`")


def _compiled_pattern(E, mod: ast.Module, name: str):
    """The literal of a module-level `NAME = re.compile(<literal>)` (exactly one assignment, no flags)."""
    found = []
    for n in mod.body:
        if isinstance(n, ast.Assign) and len(n.targets) == 1 and isinstance(n.targets[0], ast.Name) and n.targets[0].id == name:
            found.append(n.value)
        elif isinstance(n, ast.AnnAssign) and isinstance(n.target, ast.Name) and n.target.id == name and n.value is not None:
            found.append(n.value)
    if len(found) != 1:
        raise E(f"lex: {name} is not assigned exactly once at module level")
    v = found[0]
    if not (isinstance(v, ast.Call) and ast.unparse(v.func) == "re.compile" and len(v.args) == 1 and not v.keywords):
        raise E(f"lex: {name} is not `re.compile(<literal>)` without flags")
    return v.args[0]


def lex_facts(E, src_mod: ast.Module):
    sc = _cls(E, src_mod, "Scanner")
    fn = _method(E, sc, "lex")
    body = _strip_doc(fn.body)
    if len(body) != 3:
        raise E(f"lex: expected `pos = 0; while …; yield EOF`, found {len(body)} statements")
    init, loop, fin = body
    if ast.unparse(init) != "pos = 0":
        raise E(f"lex: first statement is {ast.unparse(init)!r}, not `pos = 0`")
    if not (isinstance(loop, ast.While) and ast.unparse(loop.test) == "pos < len(input_)" and not loop.orelse):
        raise E("lex: loop is not `while pos < len(input_)`")
    kind, val = _yield_kind(E, fin, "end of input")
    if kind != "EOF":
        raise E(f"lex: final token is {kind}, not EOF")
    if len(loop.body) != 1 or not isinstance(loop.body[0], ast.If):
        raise E("lex: loop body is not a single if/elif chain")
    # --- branch 1: whitespace
    br = loop.body[0]
    t = br.test
    if not (isinstance(t, ast.Compare) and len(t.ops) == 1 and isinstance(t.ops[0], ast.In) and ast.unparse(t.left) == "input_[pos]"):
        raise E(f"lex: first test is {ast.unparse(t)!r}, not `input_[pos] in (…)`")
    try:
        coll = ast.literal_eval(t.comparators[0])
    except Exception:  # noqa: BLE001
        raise E("lex: whitespace collection is not a literal") from None
    ws = list(coll)
    if not ws or not all(isinstance(c, str) and len(c) == 1 for c in ws):
        raise E(f"lex: whitespace collection {coll!r} is not a collection of single characters")
    if len(br.body) != 1 or not _is_pos_inc(br.body[0], "1"):
        raise E("lex: whitespace branch is not `pos += 1`")
    # --- branches 2, 3: parentheses
    parens = []
    for want in ("LPAREN", "RPAREN"):
        if len(br.orelse) != 1 or not isinstance(br.orelse[0], ast.If):
            raise E(f"lex: missing elif branch for {want}")
        br = br.orelse[0]
        ch = _char_eq(E, br.test, want)
        if len(br.body) != 2 or not _is_pos_inc(br.body[1], "1"):
            raise E(f"lex: {want} branch is not `yield …; pos += 1`")
        kind, val = _yield_kind(E, br.body[0], want)
        if kind != want:
            raise E(f"lex: character {ch!r} yields {kind}, expected {want}")
        parens.append(ch)
    # --- else: regex
    rest = br.orelse
    if len(rest) != 2 or not isinstance(rest[0], ast.Assign) or not isinstance(rest[1], ast.If):
        raise E("lex: else branch is not `match = re.match(…); if match: … else: raise`")
    asg, ifm = rest
    call = asg.value
    if not (ast.unparse(asg.targets[0]) == "match" and isinstance(call, ast.Call) and isinstance(call.func, ast.Attribute)
            and isinstance(call.func.value, ast.Name)):
        raise E(f"lex: {ast.unparse(asg)!r} is not `match = re.match(…)` / `match = <compiled>.match(…)`")
    if call.func.attr != "match":
        raise E(f"lex: the identifier regex is applied with .{call.func.attr}, not .match (prefix match at pos)")
    if call.keywords:
        raise E("lex: regex match called with keyword arguments")
    if call.func.value.id == "re":
        # re.match(<literal>, input_[pos:])
        if len(call.args) != 2:
            raise E("lex: re.match called with flags / unexpected arguments")
        pat, subj = call.args[0], call.args[1:]
    else:
        # <NAME>.match(input_[pos:])  or  <NAME>.match(input_, pos)  with  NAME = re.compile(<literal>)  at module level
        pat = _compiled_pattern(E, src_mod, call.func.value.id)
        subj = call.args
    if not (isinstance(pat, ast.Constant) and isinstance(pat.value, str)):
        raise E("lex: identifier pattern is not a string literal")
    subj_src = [ast.unparse(a) for a in subj]
    if subj_src == ["input_[pos:]"]:
        pass
    elif subj_src == ["input_", "pos"] and call.func.value.id != "re":
        pass    # compiled.match(string, pos): same prefix match at pos (the pattern has no ^ / look-behind: checked by ident_class)
    else:
        raise E(f"lex: the regex is applied to {subj_src!r}, not to input_[pos:]")
    extra, word = ident_class(E, pat.value)
    if ast.unparse(ifm.test) != "match":
        raise E("lex: expected `if match:`")
    mb = ifm.body
    if len(mb) != 3 or ast.unparse(mb[0]) != "value = match.group(0)" or not _is_pos_inc(mb[2], "len(value)"):
        raise E("lex: match branch is not `value = match.group(0); <keyword chain>; pos += len(value)`")
    chain = mb[1]
    kws = []
    while True:
        if not isinstance(chain, ast.If):
            raise E("lex: keyword chain is not if/elif/else")
        t = chain.test
        if not (isinstance(t, ast.Compare) and len(t.ops) == 1 and isinstance(t.ops[0], ast.Eq) and ast.unparse(t.left) == "value"
                and isinstance(t.comparators[0], ast.Constant) and isinstance(t.comparators[0].value, str)):
            raise E(f"lex: keyword test {ast.unparse(t)!r} is not `value == \"<kw>\"`")
        if len(chain.body) != 1:
            raise E("lex: keyword branch has more than one statement")
        kind, val = _yield_kind(E, chain.body[0], "keyword")
        if val != "value":
            raise E(f"lex: keyword token carries {val!r}, not value")
        kws.append((t.comparators[0].value, kind))
        if len(chain.orelse) == 1 and isinstance(chain.orelse[0], ast.If):
            chain = chain.orelse[0]
            continue
        if len(chain.orelse) != 1:
            raise E("lex: keyword chain has no single else branch")
        kind, val = _yield_kind(E, chain.orelse[0], "identifier")
        if kind != "IDENT" or val != "value":
            raise E(f"lex: fallback token is {kind}({val}), not IDENT(value)")
        break
    for kw, kind in kws:
        if kind not in ("OR", "AND", "NOT"):
            raise E(f"lex: keyword {kw!r} yields TokenType.{kind}; only OR/AND/NOT are modelled")
        if not kw:
            raise E("lex: empty keyword")
    # --- else: raise ParseError(pos + 1, …)
    eb = ifm.orelse
    if len(eb) != 1 or not isinstance(eb[0], ast.Raise) or not isinstance(eb[0].exc, ast.Call) or ast.unparse(eb[0].exc.func) != "ParseError":
        raise E("lex: no-match branch is not `raise ParseError(…)`")
    if not eb[0].exc.args:
        raise E("lex: ParseError without column")
    off1 = _col_offset(E, eb[0].exc.args[0], "pos", "lex")
    # --- reject
    rj = _method(E, sc, "reject")
    raises = [n for n in ast.walk(rj) if isinstance(n, ast.Raise)]
    if len(raises) != 1 or not isinstance(raises[0].exc, ast.Call) or ast.unparse(raises[0].exc.func) != "ParseError" or not raises[0].exc.args:
        raise E("reject: expected exactly one `raise ParseError(column, …)`")
    off2 = _col_offset(E, raises[0].exc.args[0], "self.current.pos", "reject")
    if off1 != off2:
        raise E(f"column offsets differ: lex uses pos + {off1}, reject uses pos + {off2}")
    if off1 < 0:
        raise E("negative column offset")
    return {"ws": ws, "lparen": parens[0], "rparen": parens[1], "extra": extra, "word": word, "keywords": kws, "coloff": off1}


def expr_section() -> list[str]:
    X = _api()
    E = X.ExtractError
    p = X.SRC / "mark" / "expression.py"
    try:
        mod = ast.parse(p.read_text())
    except (OSError, SyntaxError) as e:
        raise E(f"cannot parse {p}: {e}") from None
    f = lex_facts(lambda m: E("expression.py: " + m), mod)
    L = []
    L.append("/-- `Scanner.lex` (mark/expression.py): characters skipped between tokens. -/")
    L.append(f"def exprWsChars : List Char := {lean_chars(f['ws'])}")
    L.append(f"def exprLParen : Char := {lean_char(f['lparen'])}")
    L.append(f"def exprRParen : Char := {lean_char(f['rparen'])}")
    L.append("/-- The identifier regex is `(class)+` applied with `re.match` at the current position; the class is `\\w` (if")
    L.append("`identHasWordClass`) plus these literal characters. -/")
    L.append(f"def identExtraChars : List Char := {lean_chars(f['extra'])}")
    L.append(f"def identHasWordClass : Bool := {X.lean_bool(f['word'])}")
    L.append("/-- Keyword texts in test order and the `TokenType` member each yields; anything else is `IDENT`. -/")
    L.append("def exprKeywords : List (List Char × String) := "
             + X.lean_list(f["keywords"], lambda r: f"({lean_chars(r[0])}, {X.lean_str(r[1])})"))
    L.append("/-- `ParseError(pos + k, …)`: the reported column is the 0-based position plus this. -/")
    L.append(f"def exprErrorColOffset : Nat := {f['coloff']}")
    L.append("")
    return L
