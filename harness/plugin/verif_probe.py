"""Observer plugin of the /verif harness, loaded through pytask's public plugin mechanism (entry-point group `pytask`,
found via `verif_probe-0.0.0.dist-info/entry_points.txt` when this directory is on PYTHONPATH).

Inert unless PYTASK_VERIF=1.  When active it numbers *observation points*

* entry and exit of the hooks `pytask_execute_task_protocol`, `…_setup`, `pytask_execute_task`, `…_teardown`,
  `…_process_report`, `…_log_end` and `pytask_unconfigure` (outermost wrappers, exit also on an exception), and
* SQLAlchemy `before_commit` / `after_commit` of every session made by `pytask.DatabaseSession`
  (labelled with the table of the row being written: `state` or `runtime`), and
* the opening of a database connection (`db.connect`: from then on the SQLite file exists, possibly with 0 bytes) and every
  `CREATE TABLE` / `CREATE INDEX` / `DROP` / `ALTER` statement (`ddl.before` / `ddl.after`, labelled with the table): the
  start-up of the database in `create_database`, before the first task — active from the import of this plugin, i.e. from
  the creation of the plugin manager, before the configuration is parsed;
* SQLAlchemy `before_cursor_execute` / `after_cursor_execute` of every INSERT / UPDATE / DELETE statement on those tables
  (`stmt.before` / `stmt.after`): a kill between two statements of one transaction — harmless when the transaction is rolled
  back at process death, not harmless when the engine runs in autocommit mode,

appends one line `<n> <kind> <task>` per point to the file named by PYTASK_VERIF_POINTS, and calls `os._exit(137)` at the
n-th point when PYTASK_VERIF_CRASH=<n> (the point's line is written first).  Nothing in /repo is touched.
"""
from __future__ import annotations

import os

from pluggy import HookimplMarker

hookimpl = HookimplMarker("pytask")
_n = 0
_last_table = "?"


def _active() -> bool:
    return os.environ.get("PYTASK_VERIF") == "1"


def point(kind: str, task: str = "-") -> None:
    global _n
    if not _active():
        return
    _n += 1
    path = os.environ.get("PYTASK_VERIF_POINTS")
    if path:
        fd = os.open(path, os.O_WRONLY | os.O_APPEND | os.O_CREAT, 0o644)
        try:
            os.write(fd, f"{_n} {kind} {task}\n".encode())
        finally:
            os.close(fd)
    crash = os.environ.get("PYTASK_VERIF_CRASH")
    if crash and crash.isdigit() and int(crash) == _n:
        os._exit(137)


def _tname(task) -> str:
    try:
        return str(getattr(task, "base_name", None) or task.name).replace(" ", "_")
    except Exception:  # noqa: BLE001
        return "?"


def _wrapper(hook: str, label: str, arg: str):
    def impl_task(task):
        point(label + ".in", _tname(task))
        try:
            return (yield)
        finally:
            point(label + ".out", _tname(task))

    def impl_report(report):
        point(label + ".in", _tname(report.task))
        try:
            return (yield)
        finally:
            point(label + ".out", _tname(report.task))

    def impl_session(session):
        point(label + ".in")
        try:
            return (yield)
        finally:
            point(label + ".out")

    f = {"task": impl_task, "report": impl_report, "session": impl_session}[arg]
    f.__name__ = hook
    return hookimpl(wrapper=True, tryfirst=True)(f)


pytask_execute_task_protocol = _wrapper("pytask_execute_task_protocol", "protocol", "task")
pytask_execute_task_setup = _wrapper("pytask_execute_task_setup", "setup", "task")
pytask_execute_task = _wrapper("pytask_execute_task", "execute", "task")
pytask_execute_task_teardown = _wrapper("pytask_execute_task_teardown", "teardown", "task")
pytask_execute_task_process_report = _wrapper("pytask_execute_task_process_report", "report", "report")
pytask_execute_task_log_end = _wrapper("pytask_execute_task_log_end", "logend", "report")
pytask_unconfigure = _wrapper("pytask_unconfigure", "unconfigure", "session")


def _table_of(session) -> str:
    try:
        objs = list(session.new) + list(session.dirty) + list(session.identity_map.values())
        names = {getattr(type(o), "__tablename__", "?") for o in objs}
        if len(names) == 1:
            return names.pop()
        return "+".join(sorted(names)) or "?"
    except Exception:  # noqa: BLE001
        return "?"


def _before_commit(session) -> None:
    global _last_table
    _last_table = _table_of(session)
    point("commit.before", _last_table)


def _after_commit(session) -> None:
    point("commit.after", _last_table)


def _stmt_table(statement) -> str | None:
    """table of a data-changing statement on pytask's tables, else None"""
    try:
        words = str(statement).replace('"', " ").replace("`", " ").split()
        head = words[0].upper() if words else ""
        if head == "INSERT" and len(words) > 2 and words[1].upper() == "INTO":
            table = words[2]
        elif head == "UPDATE" and len(words) > 1:
            table = words[1]
        elif head == "DELETE" and len(words) > 2 and words[1].upper() == "FROM":
            table = words[2]
        else:
            return None
        table = table.split("(")[0].split(".")[-1].lower()
        return table if table in ("state", "runtime") else None
    except Exception:  # noqa: BLE001
        return None


def _ddl_table(statement) -> str | None:
    """object of a schema-changing statement (CREATE / DROP / ALTER), else None"""
    try:
        words = str(statement).replace('"', " ").replace("`", " ").split()
        head = words[0].upper() if words else ""
        if head not in ("CREATE", "DROP", "ALTER"):
            return None
        rest = [w for w in words[1:] if w.upper() not in ("TABLE", "INDEX", "UNIQUE", "IF", "NOT", "EXISTS", "TEMPORARY", "TEMP")]
        name = rest[0].split("(")[0].split(".")[-1].lower() if rest else "?"
        return name or "?"
    except Exception:  # noqa: BLE001
        return None


def _before_cursor_execute(conn, cursor, statement, parameters, context, executemany) -> None:
    table = _stmt_table(statement)
    if table:
        point("stmt.before", table)
        return
    ddl = _ddl_table(statement)
    if ddl:
        point("ddl.before", ddl)


def _after_cursor_execute(conn, cursor, statement, parameters, context, executemany) -> None:
    table = _stmt_table(statement)
    if table:
        point("stmt.after", table)
        return
    ddl = _ddl_table(statement)
    if ddl:
        point("ddl.after", ddl)


def _on_connect(dbapi_connection, connection_record) -> None:
    point("db.connect")


def _install_events() -> None:
    try:
        from sqlalchemy import event
        from sqlalchemy.engine import Engine

        from _pytask.database_utils import DatabaseSession
    except Exception:  # noqa: BLE001
        return
    if not event.contains(DatabaseSession, "before_commit", _before_commit):
        event.listen(DatabaseSession, "before_commit", _before_commit)
        event.listen(DatabaseSession, "after_commit", _after_commit)
    if not event.contains(Engine, "before_cursor_execute", _before_cursor_execute):
        event.listen(Engine, "before_cursor_execute", _before_cursor_execute)
        event.listen(Engine, "after_cursor_execute", _after_cursor_execute)
        event.listen(Engine, "connect", _on_connect)


_install_events()
