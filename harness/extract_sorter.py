"""Translator section for the scheduler model M2 (`lean/PytaskModel/SorterGen.lean`): what the methods of
`dag_utils.TopologicalSorter` and `_extract_priorities_from_tasks` do, read with `ast` from the tree under check.

Emits data only (schema types + definitions in `Pytask.Generated.Srt`):

* `fromDag`            — `from_dag`: calls `check_dag` first, tasks = nodes with a "task" attribute, the edge relation
                         (`nx.ancestors` ∩ task signatures), `.reverse()`, fresh priorities from `_extract_priorities_from_tasks`;
* `checkDagRaisesOnCycle` — `check_dag`: `find_cycle(dag)` on the whole graph, `ValueError` iff one is found;
* `readyMinN`, `readyDegree`, `readyMinus`, `prioDefault`, `sortReversed`, `sliceLast`, `takeUpdates` — `get_ready`:
                         guard on `n`, `{v for v, d in self.dag.in_degree() if d == 0} - self._nodes_processing`, the sort key
                         `self.priorities.get(x, 0)`, the slice `[-n:]`, `_nodes_processing.update(batch)`;
* `isActiveByNodes`    — `is_active` is `bool(self.dag.nodes)`;
* `doneOps`            — `done`: processing minus the nodes, `remove_nodes_from`, `_nodes_done.update`;
* `recreateOps`        — `from_dag_and_sorter`: `from_dag(dag)`, `done(*old._nodes_done)`, processing copied;
* `prioMarks`, `prioIndex`, `prioTable` — `_extract_priorities_from_tasks`: which mark fills which key, the order of the
                         lookup key, `numeric_mapping`.

Fail-closed (ExtractError on every other shape: extra statements with an effect on `self` / the graph, other graphs than
`self.dag`, helper functions, cached lists, extra parameters …); tolerant to renamed locals, comments, docstrings, formatting,
reordered independent statements.

Hook into `extract.py` with:   from extract_sorter import sorter_section; EXTRA_SECTIONS.append(sorter_section)
"""
from __future__ import annotations

import ast

from extract_engine import _host, _body, _params, _u, _is_name, _callee, _str_const, _walk_no_nested, _lean, CONTROL


def _err(msg: str):
    return _host().ExtractError("sorter: " + msg)


MUTATORS = {"update", "add", "discard", "remove", "clear", "pop", "append", "extend", "insert", "remove_nodes_from",
            "remove_node", "add_node", "add_edge", "add_edges_from", "add_nodes_from", "remove_edge", "remove_edges_from",
            "difference_update", "intersection_update", "symmetric_difference_update", "setdefault", "popitem", "sort",
            "reverse", "done", "get_ready", "setattr", "__setattr__", "__setitem__", "__delitem__"}


def _pure(st) -> bool:
    """no control transfer, no store to an attribute / subscript, no call of a mutating method"""
    for n in _walk_no_nested(st):
        if isinstance(n, CONTROL) or isinstance(n, ast.Delete):
            return False
        if isinstance(n, (ast.Attribute, ast.Subscript)) and isinstance(n.ctx, (ast.Store, ast.Del)):
            return False
        if isinstance(n, ast.Call) and _callee(n) in MUTATORS and not (
                isinstance(n.func, ast.Attribute) and _u(n.func) in ("nx.DiGraph.reverse",)):
            # `.reverse()` of a freshly built graph is recognised explicitly by the caller
            return False
    return True


def _method(cls: ast.ClassDef, name: str) -> ast.FunctionDef:
    fns = [n for n in cls.body if isinstance(n, ast.FunctionDef) and n.name == name]
    if len(fns) != 1:
        raise _err(f"TopologicalSorter.{name}: found {len(fns)} definitions")
    return fns[0]


def _self_attr(e, attr: str, obj: str = "self") -> bool:
    return isinstance(e, ast.Attribute) and e.attr == attr and _is_name(e.value, obj)


SETS = {"_nodes_processing": "processing", "_nodes_done": "done"}


def _class_fields(cls: ast.ClassDef):
    fields = [s.target.id for s in cls.body if isinstance(s, ast.AnnAssign) and isinstance(s.target, ast.Name)]
    if fields != ["dag", "priorities", "_nodes_processing", "_nodes_done"]:
        raise _err(f"TopologicalSorter has fields {fields}, the model knows dag, priorities, _nodes_processing, _nodes_done")


def _from_dag(cls: ast.ClassDef):
    fn = _method(cls, "from_dag")
    if _params(fn) != ["cls", "dag"] or fn.args.vararg or fn.args.kwarg or fn.args.defaults:
        raise _err(f"from_dag has parameters {_params(fn)}, expected (cls, dag)")
    b = _body(fn)
    if not b or not (isinstance(b[0], ast.Expr) and _u(b[0].value) == "cls.check_dag(dag)"):
        raise _err("from_dag does not start with cls.check_dag(dag)")
    env: dict[str, tuple] = {}
    spec = None
    for st in b[1:]:
        if isinstance(st, ast.Assign) and len(st.targets) == 1 and isinstance(st.targets[0], ast.Name):
            nm, v = st.targets[0].id, st.value
            # tasks = [dag.nodes[node]["task"] for node in dag.nodes if "task" in dag.nodes[node]]
            if isinstance(v, ast.ListComp) and len(v.generators) == 1 and isinstance(v.generators[0].target, ast.Name):
                g = v.generators[0]
                x = g.target.id
                if _u(g.iter) in ("dag.nodes", "dag.nodes()", "dag") and len(g.ifs) == 1 and _u(g.ifs[0]) == f"'task' in dag.nodes[{x}]" \
                        and _u(v.elt) == f"dag.nodes[{x}]['task']":
                    env[nm] = ("tasks",); continue
                raise _err(f"from_dag: unrecognised task list {_u(v)!r}")
            if _callee(v) == "_extract_priorities_from_tasks" and len(v.args) == 1 and not v.keywords \
                    and isinstance(v.args[0], ast.Name) and env.get(v.args[0].id) == ("tasks",):
                env[nm] = ("prio",); continue
            # task_signatures = {task.signature for task in tasks}
            if isinstance(v, ast.SetComp) and len(v.generators) == 1 and not v.generators[0].ifs \
                    and isinstance(v.generators[0].target, ast.Name) and isinstance(v.generators[0].iter, ast.Name) \
                    and env.get(v.generators[0].iter.id) == ("tasks",) and _u(v.elt) == f"{v.generators[0].target.id}.signature":
                env[nm] = ("sigs",); continue
            # task_dict = {s: nx.ancestors(dag, s) & task_signatures for s in task_signatures}
            if isinstance(v, ast.DictComp) and len(v.generators) == 1 and not v.generators[0].ifs \
                    and isinstance(v.generators[0].target, ast.Name) and isinstance(v.generators[0].iter, ast.Name) \
                    and env.get(v.generators[0].iter.id) == ("sigs",) and _is_name(v.key, v.generators[0].target.id):
                s = v.generators[0].target.id
                val = v.value
                inter = False
                if isinstance(val, ast.BinOp) and isinstance(val.op, ast.BitAnd):
                    l, r = val.left, val.right
                    if isinstance(r, ast.Name) and env.get(r.id) == ("sigs",):
                        val, inter = l, True
                    elif isinstance(l, ast.Name) and env.get(l.id) == ("sigs",):
                        val, inter = r, True
                    else:
                        raise _err(f"from_dag: unrecognised intersection {_u(v.value)!r}")
                if _callee(val) in ("ancestors", "descendants") and _u(val.func).startswith("nx.") and not val.keywords \
                        and [_u(a) for a in val.args] == ["dag", s]:
                    env[nm] = ("dict", _callee(val), inter); continue
                raise _err(f"from_dag: the edge relation {_u(v.value)!r} is not nx.ancestors(dag, s) & task_signatures")
            # task_dag = nx.DiGraph(task_dict).reverse()
            rev = False
            w = v
            if isinstance(w, ast.Call) and isinstance(w.func, ast.Attribute) and w.func.attr == "reverse" and not w.args and not w.keywords:
                rev, w = True, w.func.value
            if _callee(w) == "DiGraph" and len(w.args) == 1 and not w.keywords and isinstance(w.args[0], ast.Name) \
                    and env.get(w.args[0].id, ("?",))[0] == "dict":
                env[nm] = ("graph", env[w.args[0].id][1], env[w.args[0].id][2], rev); continue
            if _pure(st) and nm not in env:
                continue
            raise _err(f"from_dag: unrecognised assignment {_u(st).splitlines()[0]!r}")
        if isinstance(st, ast.Return):
            c = st.value
            if not (isinstance(c, ast.Call) and _is_name(c.func, "cls")):
                raise _err("from_dag does not return cls(…)")
            args = {k.arg: k.value for k in c.keywords}
            for i, a in enumerate(c.args):
                args[["dag", "priorities"][i] if i < 2 else f"arg{i}"] = a
            if set(args) != {"dag", "priorities"} or not all(isinstance(a, ast.Name) for a in args.values()):
                raise _err(f"from_dag returns {_u(c)!r}")
            gr, pr = env.get(args["dag"].id), env.get(args["priorities"].id)
            if not gr or gr[0] != "graph" or pr != ("prio",):
                raise _err(f"from_dag returns {_u(c)!r}: graph / priorities not the ones built above")
            spec = (True, (gr[1],), gr[2], gr[3])
            break
        if _pure(st):
            continue
        raise _err(f"from_dag: unrecognised statement {_u(st).splitlines()[0]!r}")
    if spec is None:
        raise _err("from_dag has no return")
    return spec


def _check_dag(cls: ast.ClassDef) -> bool:
    fn = _method(cls, "check_dag")
    if _params(fn) != ["dag"]:
        raise _err("check_dag: expected the single parameter dag")
    found = False
    for st in _body(fn):
        if isinstance(st, ast.If) and _u(st.test) == "not dag.is_directed()" and not st.orelse and isinstance(st.body[-1], ast.Raise):
            continue
        if isinstance(st, ast.Try):
            ok = (len(st.body) == 1 and isinstance(st.body[0], (ast.Expr, ast.Assign)) and _callee(st.body[0].value) == "find_cycle"
                  and [_u(a) for a in st.body[0].value.args] == ["dag"] and not st.body[0].value.keywords
                  and len(st.handlers) == 1 and _u(st.handlers[0].type).endswith("NetworkXNoCycle")
                  and all(isinstance(s, ast.Pass) for s in st.handlers[0].body)
                  and st.orelse and isinstance(st.orelse[-1], ast.Raise) and all(_pure(s) for s in st.orelse[:-1])
                  and not st.finalbody)
            if not ok or found:
                raise _err("check_dag: the try around find_cycle(dag) is not `except NetworkXNoCycle: pass / else: raise`")
            found = True
            continue
        if _pure(st):
            continue
        raise _err(f"check_dag: unrecognised statement {_u(st).splitlines()[0]!r}")
    if not found:
        raise _err("check_dag does not call find_cycle(dag)")
    return True


def _get_ready(cls: ast.ClassDef):
    fn = _method(cls, "get_ready")
    if _params(fn) != ["self", "n"]:
        raise _err(f"get_ready has parameters {_params(fn)}")
    env: dict[str, tuple] = {}
    min_n = None
    out = {}
    batch = None
    for st in _body(fn):
        if isinstance(st, ast.If) and not st.orelse and isinstance(st.body[-1], ast.Raise) and all(_pure(s) for s in st.body[:-1]):
            tests = st.test.values if isinstance(st.test, ast.BoolOp) and isinstance(st.test.op, ast.Or) else [st.test]
            for t in tests:
                if _u(t) == "not isinstance(n, int)":
                    continue
                if isinstance(t, ast.Compare) and len(t.ops) == 1 and _is_name(t.left, "n") and isinstance(t.comparators[0], ast.Constant) \
                        and isinstance(t.comparators[0].value, int) and isinstance(t.ops[0], (ast.Lt, ast.LtE)) and min_n is None:
                    min_n = t.comparators[0].value + (1 if isinstance(t.ops[0], ast.LtE) else 0)
                    continue
                raise _err(f"get_ready: unrecognised guard {_u(t)!r}")
            if env:
                raise _err("get_ready: the guard on n does not come first")
            continue
        if isinstance(st, ast.Assign) and len(st.targets) == 1 and isinstance(st.targets[0], ast.Name):
            nm, v = st.targets[0].id, st.value
            # {v for v, d in self.dag.in_degree() if d == 0} - self._nodes_processing
            minus = []
            w = v
            while isinstance(w, ast.BinOp) and isinstance(w.op, ast.Sub):
                r = w.right
                if not (isinstance(r, ast.Attribute) and _is_name(r.value, "self") and r.attr in SETS):
                    raise _err(f"get_ready: unrecognised set difference {_u(v)!r}")
                minus.insert(0, (SETS[r.attr],))
                w = w.left
            if isinstance(w, ast.SetComp):
                g = w.generators
                ok = (len(g) == 1 and isinstance(g[0].target, ast.Tuple) and len(g[0].target.elts) == 2
                      and all(isinstance(e, ast.Name) for e in g[0].target.elts) and _u(g[0].iter) == "self.dag.in_degree()"
                      and len(g[0].ifs) == 1 and isinstance(g[0].ifs[0], ast.Compare) and len(g[0].ifs[0].ops) == 1
                      and isinstance(g[0].ifs[0].ops[0], ast.Eq) and _is_name(g[0].ifs[0].left, g[0].target.elts[1].id)
                      and isinstance(g[0].ifs[0].comparators[0], ast.Constant) and isinstance(g[0].ifs[0].comparators[0].value, int)
                      and _is_name(w.elt, g[0].target.elts[0].id))
                if not ok:
                    raise _err(f"get_ready: the ready set {_u(w)!r} is not {{v for v, d in self.dag.in_degree() if d == 0}}")
                env[nm] = ("ready",)
                out["degree"] = g[0].ifs[0].comparators[0].value
                out["minus"] = minus
                continue
            # sorted(ready, key=lambda x: self.priorities.get(x, 0))[-n:]
            if isinstance(v, ast.Subscript) and _callee(v.value) == "sorted" and isinstance(v.slice, ast.Slice):
                c = v.value
                kw = {k.arg: k.value for k in c.keywords}
                if len(c.args) != 1 or not isinstance(c.args[0], ast.Name) or env.get(c.args[0].id) != ("ready",) \
                        or not set(kw) <= {"key", "reverse"} or "key" not in kw:
                    raise _err(f"get_ready: unrecognised sort {_u(c)!r}")
                k = kw["key"]
                if not (isinstance(k, ast.Lambda) and len(k.args.args) == 1 and _callee(k.body) == "get"
                        and _u(k.body.func.value) == "self.priorities" and len(k.body.args) == 2
                        and _is_name(k.body.args[0], k.args.args[0].arg) and isinstance(k.body.args[1], ast.Constant)
                        and isinstance(k.body.args[1].value, int)):
                    raise _err(f"get_ready: the sort key {_u(k)!r} is not self.priorities.get(x, <int>)")
                out["default"] = k.body.args[1].value
                rv = kw.get("reverse")
                if rv is not None and not (isinstance(rv, ast.Constant) and isinstance(rv.value, bool)):
                    raise _err("get_ready: reverse= is not a Boolean literal")
                out["reversed"] = bool(rv.value) if rv is not None else False
                sl = v.slice
                if sl.step is not None:
                    raise _err("get_ready: slice with a step")
                if sl.upper is None and _u(sl.lower) == "-n":
                    out["last"] = True
                elif sl.lower is None and _u(sl.upper) == "n":
                    out["last"] = False
                else:
                    raise _err(f"get_ready: unrecognised slice {_u(v.slice)!r}")
                env[nm] = ("batch",)
                batch = nm
                continue
            if _pure(st) and nm not in env:
                continue
            raise _err(f"get_ready: unrecognised assignment {_u(st).splitlines()[0]!r}")
        if isinstance(st, ast.Expr) and _callee(st.value) == "update" and isinstance(st.value.func.value, ast.Attribute) \
                and _is_name(st.value.func.value.value, "self") and st.value.func.value.attr in SETS and len(st.value.args) == 1 \
                and _is_name(st.value.args[0], batch or ""):
            out.setdefault("take", []).append((SETS[st.value.func.value.attr],))
            continue
        if isinstance(st, ast.Return):
            if not _is_name(st.value, batch or ""):
                raise _err("get_ready does not return the sorted slice")
            break
        if _pure(st):
            continue
        raise _err(f"get_ready: unrecognised statement {_u(st).splitlines()[0]!r}")
    if min_n is None:
        raise _err("get_ready has no guard on n")
    need = {"degree", "minus", "default", "reversed", "last"}
    if not need <= set(out):
        raise _err(f"get_ready: missing {sorted(need - set(out))}")
    out["min_n"] = min_n
    out.setdefault("take", [])
    return out


def _is_active(cls: ast.ClassDef) -> bool:
    fn = _method(cls, "is_active")
    b = _body(fn)
    if len(b) == 1 and isinstance(b[0], ast.Return) and _u(b[0].value) in (
            "bool(self.dag.nodes)", "len(self.dag.nodes) > 0", "len(self.dag) > 0", "bool(self.dag)", "len(self.dag.nodes) != 0"):
        return True
    raise _err("is_active is not bool(self.dag.nodes)")


def _done(cls: ast.ClassDef):
    fn = _method(cls, "done")
    if _params(fn) != ["self"] or fn.args.vararg is None:
        raise _err("done: expected (self, *nodes)")
    xs = fn.args.vararg.arg
    ops = []
    for st in _body(fn):
        if isinstance(st, ast.Assign) and len(st.targets) == 1 and _self_attr(st.targets[0], "_nodes_processing"):
            v = st.value
            if isinstance(v, ast.BinOp) and isinstance(v.op, ast.Sub) and _self_attr(v.left, "_nodes_processing") \
                    and _u(v.right) in (f"set({xs})", xs, f"{{*{xs}}}"):
                ops.append(("processingMinus",)); continue
            raise _err(f"done: unrecognised update of _nodes_processing: {_u(st)!r}")
        if isinstance(st, ast.AugAssign) and _self_attr(st.target, "_nodes_processing") and isinstance(st.op, ast.Sub) \
                and _u(st.value) in (f"set({xs})", f"{{*{xs}}}"):
            ops.append(("processingMinus",)); continue
        if isinstance(st, ast.Expr) and isinstance(st.value, ast.Call) and isinstance(st.value.func, ast.Attribute):
            c = st.value
            tgt, m = _u(c.func.value), c.func.attr
            arg_ok = len(c.args) == 1 and not c.keywords and _is_name(c.args[0], xs)
            if tgt == "self._nodes_processing" and m == "difference_update" and arg_ok:
                ops.append(("processingMinus",)); continue
            if tgt == "self.dag" and m == "remove_nodes_from" and arg_ok:
                ops.append(("removeNodes",)); continue
            if tgt == "self._nodes_done" and m == "update" and arg_ok:
                ops.append(("doneAdd",)); continue
        if _pure(st):
            continue
        raise _err(f"done: unrecognised statement {_u(st).splitlines()[0]!r}")
    return ops


def _recreate(cls: ast.ClassDef):
    fn = _method(cls, "from_dag_and_sorter")
    if _params(fn) != ["cls", "dag", "sorter"]:
        raise _err(f"from_dag_and_sorter has parameters {_params(fn)}")
    new = None
    ops = []
    for st in _body(fn):
        if isinstance(st, ast.Assign) and len(st.targets) == 1 and isinstance(st.targets[0], ast.Name) and new is None:
            if _u(st.value) == "cls.from_dag(dag)":
                new = st.targets[0].id
                ops.append(("fromDag",)); continue
            if "from_dag" in _u(st.value):
                raise _err(f"from_dag_and_sorter: unrecognised call {_u(st.value)!r}")
        if new and isinstance(st, ast.Expr) and _u(st.value) == f"{new}.done(*sorter._nodes_done)":
            ops.append(("doneOld",)); continue
        if new and isinstance(st, ast.Assign) and len(st.targets) == 1 and _u(st.targets[0]) == f"{new}._nodes_processing" \
                and _u(st.value) in ("sorter._nodes_processing", "set(sorter._nodes_processing)", "sorter._nodes_processing.copy()"):
            ops.append(("copyProcessing",)); continue
        if new and isinstance(st, ast.Expr) and _u(st.value) == f"{new}.dag.remove_nodes_from(sorter._nodes_processing)":
            ops.append(("removeProcessingNodes",)); continue
        if isinstance(st, ast.Return):
            if not _is_name(st.value, new or ""):
                raise _err("from_dag_and_sorter does not return the new sorter")
            break
        if _pure(st):
            continue
        raise _err(f"from_dag_and_sorter: unrecognised statement {_u(st).splitlines()[0]!r}")
    if not ops or ops[0] != ("fromDag",):
        raise _err("from_dag_and_sorter does not start from cls.from_dag(dag)")
    return ops


def _priorities(mod: ast.Module):
    fns = [n for n in mod.body if isinstance(n, ast.FunctionDef) and n.name == "_extract_priorities_from_tasks"]
    if len(fns) != 1:
        raise _err("_extract_priorities_from_tasks not found")
    fn = fns[0]
    if _params(fn) != ["tasks"]:
        raise _err("_extract_priorities_from_tasks: expected the parameter tasks")
    marks = table = index = None
    pvar = tvar = None
    for st in _body(fn):
        if isinstance(st, ast.Assign) and len(st.targets) == 1 and isinstance(st.targets[0], ast.Name):
            nm, v = st.targets[0].id, st.value
            if isinstance(v, ast.DictComp) and len(v.generators) == 1 and _is_name(v.generators[0].iter, "tasks") \
                    and isinstance(v.generators[0].target, ast.Name) and not v.generators[0].ifs:
                t = v.generators[0].target.id
                if _u(v.key) != f"{t}.signature" or not isinstance(v.value, ast.Dict):
                    raise _err(f"_extract_priorities_from_tasks: unrecognised {_u(v)!r}")
                marks = []
                for k, val in zip(v.value.keys, v.value.values):
                    ks = _str_const(k)
                    if ks is None or _callee(val) != "has_mark" or len(val.args) != 2 or not _is_name(val.args[0], t) \
                            or _str_const(val.args[1]) is None or val.keywords:
                        raise _err(f"_extract_priorities_from_tasks: entry {_u(k)}: {_u(val)} is not \"k\": has_mark(task, \"m\")")
                    marks.append((ks, _str_const(val.args[1])))
                pvar = nm
                continue
            if isinstance(v, ast.Dict) and v.keys and all(isinstance(k, ast.Tuple) for k in v.keys):
                try:
                    d = ast.literal_eval(v)
                except Exception as e:  # noqa: BLE001
                    raise _err(f"numeric_mapping is not a literal: {e}") from None
                table = []
                for k, val in d.items():
                    if not (isinstance(k, tuple) and len(k) == 2 and all(isinstance(x, bool) for x in k) and isinstance(val, int)
                            and not isinstance(val, bool)):
                        raise _err(f"numeric_mapping entry {k!r}: {val!r}")
                    table.append((k, val))
                tvar = nm
                continue
            if _pure(st) and nm not in (pvar, tvar):
                continue
        if isinstance(st, ast.Return):
            v = st.value
            ok = (isinstance(v, ast.DictComp) and len(v.generators) == 1 and not v.generators[0].ifs and pvar and tvar
                  and _u(v.generators[0].iter) == f"{pvar}.items()" and isinstance(v.generators[0].target, ast.Tuple)
                  and len(v.generators[0].target.elts) == 2 and all(isinstance(e, ast.Name) for e in v.generators[0].target.elts))
            if ok:
                name, p = (e.id for e in v.generators[0].target.elts)
                ok = _is_name(v.key, name) and isinstance(v.value, ast.Subscript) and _is_name(v.value.value, tvar)
                sl = v.value.slice if ok else None
                if ok and isinstance(sl, ast.Tuple) and len(sl.elts) == 2:
                    index = []
                    for e in sl.elts:
                        if isinstance(e, ast.Subscript) and _is_name(e.value, p) and _str_const(e.slice) is not None:
                            index.append(_str_const(e.slice))
                        else:
                            ok = False
                else:
                    ok = False
            if not ok:
                raise _err(f"_extract_priorities_from_tasks: unrecognised return {_u(st)!r}")
            break
        if _pure(st):
            continue
        raise _err(f"_extract_priorities_from_tasks: unrecognised statement {_u(st).splitlines()[0]!r}")
    if marks is None or table is None or index is None:
        raise _err("_extract_priorities_from_tasks: marks / numeric_mapping / lookup not found")
    if sorted(index) != sorted(k for k, _ in marks):
        raise _err("_extract_priorities_from_tasks: the lookup key uses other entries than the ones filled from the marks")
    return marks, index, table


SCHEMA = """\
/-! Scheduler facts (harness/extract_sorter.py): what `dag_utils.TopologicalSorter` and `_extract_priorities_from_tasks` do. -/
namespace Srt
inductive Rel | ancestors | descendants
deriving Repr, DecidableEq
inductive SetName | processing | done
deriving Repr, DecidableEq
structure FromDag where
  checksDag : Bool
  rel : Rel
  intersectTasks : Bool
  reversed : Bool
deriving Repr, DecidableEq
inductive DoneOp | processingMinus | removeNodes | doneAdd
deriving Repr, DecidableEq
inductive RecOp | fromDag | doneOld | copyProcessing | removeProcessingNodes
deriving Repr, DecidableEq
"""


def sorter_section() -> list[str]:
    X = _host()
    try:
        mod = X._parse("dag_utils.py")
        classes = [n for n in mod.body if isinstance(n, ast.ClassDef) and n.name == "TopologicalSorter"]
        if len(classes) != 1:
            raise _err("class TopologicalSorter not found")
        cls = classes[0]
        _class_fields(cls)
        known = {"from_dag", "from_dag_and_sorter", "check_dag", "get_ready", "is_active", "done"}
        extra = [n.name for n in cls.body if isinstance(n, ast.FunctionDef) and n.name not in known]
        if extra:
            raise _err(f"TopologicalSorter has methods the model does not know: {extra}")
        fd = _from_dag(cls)
        cd = _check_dag(cls)
        gr = _get_ready(cls)
        ia = _is_active(cls)
        dn = _done(cls)
        rc = _recreate(cls)
        marks, index, table = _priorities(mod)
    except X.ExtractError:
        raise
    except Exception as e:  # noqa: BLE001
        raise _err(f"extractor crashed: {type(e).__name__}: {e}") from None
    b = X.lean_bool
    L = SCHEMA.rstrip("\n").split("\n")
    L.append("/-- `from_dag`: check_dag first; edge relation; `& task_signatures`; `.reverse()`. -/")
    L.append(f"def fromDag : FromDag := ⟨{b(fd[0])}, {_lean(fd[1])}, {b(fd[2])}, {b(fd[3])}⟩")
    L.append("/-- `check_dag`: `find_cycle(dag)` over the whole graph, ValueError iff a cycle is found. -/")
    L.append(f"def checkDagRaisesOnCycle : Bool := {b(cd)}")
    L.append("/-- `get_ready(n)`: raises for `n < readyMinN`; ready = in-degree `readyDegree` in `self.dag` minus the named sets;")
    L.append("sorted by `self.priorities.get(x, prioDefault)`; the slice; the sets the batch is added to. -/")
    L.append(f"def readyMinN : Int := ({gr['min_n']} : Int)")
    L.append(f"def readyDegree : Nat := {gr['degree']}")
    L.append(f"def readyMinus : List SetName := {_lean(gr['minus'])}")
    L.append(f"def prioDefault : Int := ({gr['default']} : Int)")
    L.append(f"def sortReversed : Bool := {b(gr['reversed'])}")
    L.append(f"def sliceLast : Bool := {b(gr['last'])}")
    L.append(f"def takeUpdates : List SetName := {_lean(gr['take'])}")
    L.append(f"def isActiveByNodes : Bool := {b(ia)}")
    L.append("/-- `done(*nodes)` / `from_dag_and_sorter`: their statements in source order. -/")
    L.append(f"def doneOps : List DoneOp := {_lean(dn)}")
    L.append(f"def recreateOps : List RecOp := {_lean(rc)}")
    L.append("/-- `_extract_priorities_from_tasks`: (dict key, mark tested), order of the lookup key, `numeric_mapping`. -/")
    L.append("def prioMarks : List (String × String) := [" + ", ".join(f"({X.lean_str(k)}, {X.lean_str(m)})" for k, m in marks) + "]")
    L.append(f"def prioIndex : List String := {X.lean_list(index, X.lean_str)}")
    L.append("def prioTable : List (List Bool × Int) := [" + ", ".join(
        f"([{b(k[0])}, {b(k[1])}], ({v} : Int))" for k, v in table) + "]")
    L.append("end Srt")
    L.append("")
    return L


if __name__ == "__main__":
    print("\n".join(sorter_section()))
