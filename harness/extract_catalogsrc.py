"""Translator section `extract_catalogsrc` — the CODE of M9b as structure (tie of `lean/PytaskModel/Catalog.lean` to the source).

Reads with `ast`, from the tree under check, what these functions do INSIDE and emits it as data in `Pytask.Generated.Cat`:

* `DataCatalog._check`            -> `validator`   : regex items (`^`, `[class]+`, `$`), the `re` function, type check first
* `DataCatalog.__attrs_post_init__` -> `init`      : root resolution, default directory (path parts), mkdir, the loop re-loading
                                                     persisted nodes (glob suffix, dictionary key)
* `DataCatalog.__getitem__`       -> `getItem`     : add-on-miss, return the entry
* `DataCatalog.add`               -> `add`         : name type check, the three branches (node is None / a node / anything else);
                                                     for the default branch: what is hashed, algorithm, `.encode()`, `.hexdigest()`,
                                                     dictionary key, node name, value-file and node-file names, what is pickled
* class attribute `default_node`  -> `defaultNode`
* `PickleNode.load / save`        -> `pickleLoad`, `pickleSave` : open modes, no other statement (no caching, no skipped write)
* `PickleNode.state / signature / from_path` -> `pickleStateOf`, `pickleSignatureOf`, `fromPath*`

`lean/PytaskModel/CatalogGen.lean` interprets these terms; `lean/PytaskProofs/Properties/CatalogTie.lean` proves the interpreters
equal to the hand-written `Catalog.*` definitions for all inputs. A source change that alters a fact changes the terms and breaks
those theorems; a shape outside the recognised fragment raises ExtractError (fail-closed) — either way only the tie of C20 breaks.

Tolerant to: renamed parameters and locals, helper variables (simple local assignments are substituted symbolically), comments,
docstrings, formatting, `a / b` vs `a.joinpath(b)`, a pattern compiled into a module-level constant, reworded messages,
statements that only touch `attributes` / `_session_config` / warnings.

Hook into extract.py:  from extract_catalogsrc import catalogsrc_section; EXTRA_SECTIONS.append(catalogsrc_section)
"""
from __future__ import annotations

import ast
import copy
import sys

try:  # Python >= 3.11
    import re._constants as _sc
    import re._parser as _sp
except ImportError:  # pragma: no cover
    import sre_constants as _sc
    import sre_parse as _sp


def _host():
    m = sys.modules.get("__main__")
    if m is not None and hasattr(m, "ExtractError") and hasattr(m, "_parse") and hasattr(m, "EXTRA_SECTIONS"):
        return m
    import extract
    return extract


def _err(msg: str):
    return _host().ExtractError("catalogsrc: " + msg)


# ------------------------------------------------------------------------------------------------
# symbolic helpers
# ------------------------------------------------------------------------------------------------

EFFECT_CALLS = {"write_bytes", "write_text", "mkdir", "unlink", "save", "add", "dump", "open", "rename", "replace", "touch"}


class _Subst(ast.NodeTransformer):
    def __init__(self, env):
        self.env = env

    def visit_Name(self, n):
        if isinstance(n.ctx, ast.Load) and n.id in self.env:
            return copy.deepcopy(self.env[n.id])
        return n


def norm(e, env):
    return ast.fix_missing_locations(_Subst(env).visit(copy.deepcopy(e)))


def U(e, env=None) -> str:
    return ast.unparse(norm(e, env or {}))


def sym(name: str) -> ast.Name:
    return ast.Name(id=name, ctx=ast.Load())


def body_of(fn) -> list:
    b = list(fn.body)
    if b and isinstance(b[0], ast.Expr) and isinstance(b[0].value, ast.Constant) and isinstance(b[0].value.value, str):
        b = b[1:]
    return b


def is_docstring_or_pass(st) -> bool:
    return isinstance(st, ast.Pass) or (isinstance(st, ast.Expr) and isinstance(st.value, ast.Constant))


def params(fn) -> list[str]:
    a = fn.args
    if a.vararg or a.kwarg or a.kwonlyargs or a.posonlyargs:
        raise _err(f"{fn.name}: unexpected parameter kinds")
    return [x.arg for x in a.args]


def helper_assign(st, env) -> bool:
    """`x = expr` / `x: T = expr` with a plain local name: record the substituted expression; True if consumed."""
    if isinstance(st, ast.AnnAssign) and isinstance(st.target, ast.Name) and st.value is not None:
        tgt, val = st.target.id, st.value
    elif isinstance(st, ast.Assign) and len(st.targets) == 1 and isinstance(st.targets[0], ast.Name):
        tgt, val = st.targets[0].id, st.value
    else:
        return False
    v = norm(val, env)
    for n in ast.walk(v):
        if isinstance(n, ast.Call) and isinstance(n.func, ast.Attribute) and n.func.attr in EFFECT_CALLS:
            raise _err(f"assignment to {tgt} hides an effect: {ast.unparse(v)[:80]}")
        if isinstance(n, (ast.NamedExpr, ast.Await, ast.Yield, ast.YieldFrom)):
            raise _err(f"assignment to {tgt}: unsupported expression")
    env[tgt] = v
    return True


def only_raises(stmts, exc: str, env) -> bool:
    """the block does nothing but build a message and raise `exc`"""
    saw = False
    local = dict(env)
    for st in stmts:
        if is_docstring_or_pass(st):
            continue
        if helper_assign(st, local):
            continue
        if isinstance(st, ast.Raise) and st.exc is not None:
            e = st.exc
            name = e.func.id if isinstance(e, ast.Call) and isinstance(e.func, ast.Name) else (e.id if isinstance(e, ast.Name) else None)
            if name != exc:
                return False
            saw = True
            continue
        return False
    return saw


def lean_chars(s: str) -> str:
    def one(ch: str) -> str:
        if ch == "'":
            return "'\\''"
        if ch == "\\":
            return "'\\\\'"
        if 32 <= ord(ch) < 127:
            return f"'{ch}'"
        return f"(Char.ofNat {ord(ch)})"
    return "[" + ", ".join(one(c) for c in s) + "]"


def lean_list(xs) -> str:
    return "[" + ", ".join(xs) + "]"


def lb(b: bool) -> str:
    return "true" if b else "false"


# ------------------------------------------------------------------------------------------------
# path / file-name / digest expressions
# ------------------------------------------------------------------------------------------------

def digest_expr(e):
    """hashlib.<algo>(<X>.encode()).hexdigest()  ->  dict(algo, encoded, hex, src, text)"""
    if not (isinstance(e, ast.Call) and isinstance(e.func, ast.Attribute) and not e.args and not e.keywords):
        raise _err(f"file name is not a digest call: {ast.unparse(e)[:80]}")
    fin = e.func.attr
    inner = e.func.value
    if not (isinstance(inner, ast.Call) and isinstance(inner.func, ast.Attribute) and isinstance(inner.func.value, ast.Name)
            and inner.func.value.id == "hashlib" and len(inner.args) == 1 and not inner.keywords):
        raise _err(f"file name is not hashlib.<algo>(…).<digest>(): {ast.unparse(e)[:80]}")
    algo = inner.func.attr
    arg = inner.args[0]
    encoded = False
    x = arg
    if isinstance(arg, ast.Call) and isinstance(arg.func, ast.Attribute) and arg.func.attr == "encode":
        if arg.args or arg.keywords:
            raise _err(f"encode() with arguments: {ast.unparse(arg)[:60]}")
        encoded = True
        x = arg.func.value
    if isinstance(x, ast.Name) and x.id == "NAME":
        src = "entryName"
    elif ast.unparse(x) == "self.name":
        src = "catalogName"
    elif any(isinstance(n, ast.Name) and n.id == "NAME" for n in ast.walk(x)):
        src = "transformed"
    else:
        raise _err(f"digest of something that does not depend on the entry name: {ast.unparse(x)[:60]}")
    return {"algo": algo, "encoded": encoded, "hex": fin == "hexdigest", "fin": fin, "src": src, "text": ast.unparse(e)}


def file_parts(e):
    """a file-name expression: str constant or f-string of digest + literals -> ([parts], digest-dict | None)"""
    if isinstance(e, ast.Constant) and isinstance(e.value, str):
        return [("lit", e.value)], None
    if isinstance(e, ast.JoinedStr):
        parts, dg = [], None
        for v in e.values:
            if isinstance(v, ast.Constant) and isinstance(v.value, str):
                parts.append(("lit", v.value))
            elif isinstance(v, ast.FormattedValue) and v.conversion == -1 and v.format_spec is None:
                d = digest_expr(v.value)
                if dg is not None and dg["text"] != d["text"]:
                    raise _err("two different digests in one file name")
                dg = d
                parts.append(("digest", None))
            else:
                raise _err(f"unsupported f-string item in {ast.unparse(e)[:60]}")
        return parts, dg
    if isinstance(e, ast.BinOp) and isinstance(e.op, ast.Add):
        l, dl = file_parts(e.left)
        r, dr = file_parts(e.right)
        if dl and dr and dl["text"] != dr["text"]:
            raise _err("two different digests in one file name")
        return l + r, dl or dr
    try:
        d = digest_expr(e)
    except Exception:
        raise _err(f"unsupported file-name expression {ast.unparse(e)[:60]}") from None
    return [("digest", None)], d


def path_expr(e):
    """(base, [component expr …]) for `base / a / b`, `base.joinpath(a, b)`; base in {'ROOT', 'self.path'}"""
    if isinstance(e, ast.BinOp) and isinstance(e.op, ast.Div):
        b, comps = path_expr(e.left)
        return b, comps + [e.right]
    if isinstance(e, ast.Call) and isinstance(e.func, ast.Attribute) and e.func.attr == "joinpath" and not e.keywords:
        b, comps = path_expr(e.func.value)
        return b, comps + list(e.args)
    t = ast.unparse(e)
    if t in ("ROOT", "self.path"):
        return t, []
    raise _err(f"unsupported path expression {t[:80]}")


# ------------------------------------------------------------------------------------------------
# DataCatalog
# ------------------------------------------------------------------------------------------------

def _catalog_class():
    mod = _host()._parse("data_catalog.py")
    cls = [n for n in mod.body if isinstance(n, ast.ClassDef) and n.name == "DataCatalog"]
    if len(cls) != 1:
        raise _err("class DataCatalog not found exactly once")
    return mod, cls[0]


def _method(cls, name):
    ms = [b for b in cls.body if isinstance(b, ast.FunctionDef) and b.name == name]
    if len(ms) != 1:
        raise _err(f"{cls.name}.{name} not found exactly once")
    return ms[0]


def _module_consts(mod) -> dict:
    """module-level `NAME = <expr>` (e.g. a compiled pattern)"""
    out = {}
    for st in mod.body:
        if isinstance(st, ast.Assign) and len(st.targets) == 1 and isinstance(st.targets[0], ast.Name):
            out[st.targets[0].id] = st.value
        elif isinstance(st, ast.AnnAssign) and isinstance(st.target, ast.Name) and st.value is not None:
            out[st.target.id] = st.value
    return out


def validator_facts(mod, cls):
    val = [b for b in cls.body if isinstance(b, ast.FunctionDef) and any(ast.unparse(d) == "name.validator" for d in b.decorator_list)]
    if len(val) != 1:
        raise _err("exactly one @name.validator method expected")
    fn = val[0]
    ps = params(fn)
    if len(ps) != 3:
        raise _err("validator: expected (self, attribute, value)")
    env = {ps[0]: sym("self"), ps[2]: sym("VALUE")}
    consts = _module_consts(mod)
    steps = []
    for st in body_of(fn):
        if is_docstring_or_pass(st) or helper_assign(st, env):
            continue
        if not (isinstance(st, ast.If) and not st.orelse):
            raise _err(f"validator: unsupported statement {ast.unparse(st)[:60]}")
        t = norm(st.test, env)
        if ast.unparse(t) == "not isinstance(VALUE, str)" and only_raises(st.body, "TypeError", env):
            steps.append(("type", None))
            continue
        if not (isinstance(t, ast.UnaryOp) and isinstance(t.op, ast.Not) and isinstance(t.operand, ast.Call)):
            raise _err(f"validator: unsupported test {ast.unparse(t)[:80]}")
        if not only_raises(st.body, "ValueError", env):
            raise _err("validator: the regex test does not raise ValueError")
        call = t.operand
        f = call.func
        if not isinstance(f, ast.Attribute) or f.attr not in ("match", "fullmatch", "search") or call.keywords:
            raise _err(f"validator: unsupported regex call {ast.unparse(call)[:80]}")
        recv = f.value
        if isinstance(recv, ast.Name) and recv.id == "re":          # re.fn(pattern, value)
            if len(call.args) != 2:
                raise _err("validator: re.<fn>(pattern, value) expected")
            pat, subj = call.args
        else:                                                         # COMPILED.fn(value)
            if isinstance(recv, ast.Name) and recv.id in consts:
                recv = consts[recv.id]
            if not (isinstance(recv, ast.Call) and ast.unparse(recv.func) == "re.compile" and len(recv.args) == 1 and not recv.keywords):
                raise _err(f"validator: receiver of .{f.attr} is not a compiled pattern without flags")
            if len(call.args) != 1:
                raise _err("validator: <compiled>.<fn>(value) expected")
            pat, subj = recv.args[0], call.args[0]
        if isinstance(pat, ast.Name) and pat.id in consts:
            pat = consts[pat.id]
        if not (isinstance(pat, ast.Constant) and isinstance(pat.value, str)):
            raise _err("validator: pattern is not a string literal")
        if ast.unparse(subj) != "VALUE":
            raise _err(f"validator: the regex is applied to {ast.unparse(subj)[:40]}, not to the raw value")
        steps.append(("regex", (f.attr, pat.value)))
    if [k for k, _ in steps] != ["type", "regex"]:
        raise _err(f"validator: expected a type check followed by one regex test, found {[k for k, _ in steps]}")
    fnname, pattern = steps[1][1]
    try:
        parsed = _sp.parse(pattern)
    except Exception as e:  # noqa: BLE001
        raise _err(f"validator: pattern does not parse: {e}") from None
    if parsed.state.flags & ~_sc.SRE_FLAG_UNICODE:
        raise _err("validator: inline flags not supported")
    items = []
    for op, arg in parsed:
        if op is _sc.AT and arg is _sc.AT_BEGINNING:
            items.append(".bol")
        elif op is _sc.AT and arg is _sc.AT_END:
            items.append(".eol")
        elif op is _sc.AT and arg is _sc.AT_BEGINNING_STRING:
            items.append(".bos")
        elif op is _sc.AT and arg is _sc.AT_END_STRING:
            items.append(".eos")
        elif op is _sc.MAX_REPEAT:
            lo, hi, sub = arg
            sub = list(sub)
            if not (hi is _sc.MAXREPEAT and lo in (0, 1) and len(sub) == 1 and sub[0][0] is _sc.IN):
                raise _err(f"validator: unsupported repetition in {pattern!r}")
            ranges = []
            for o, a in sub[0][1]:
                if o is _sc.RANGE:
                    ranges.append((int(a[0]), int(a[1])))
                elif o is _sc.LITERAL:
                    ranges.append((int(a), int(a)))
                else:
                    raise _err(f"validator: class item {o} not supported")
            rs = lean_list(f"({a}, {b})" for a, b in ranges)
            items.append(f".{'plus' if lo == 1 else 'star'} {rs}")
            RAW.setdefault("classes", []).append(("plus" if lo == 1 else "star", ranges))
        else:
            raise _err(f"validator: unsupported regex item {op} in {pattern!r}")
    RAW["validator_fn"] = fnname
    RAW["validator_items"] = [i.split()[0] for i in items]
    return fnname, items


def init_facts(cls):
    fn = _method(cls, "__attrs_post_init__")
    ps = params(fn)
    if len(ps) != 1:
        raise _err("__attrs_post_init__: expected (self)")
    env = {ps[0]: sym("self")}
    steps = []
    for st in body_of(fn):
        if is_docstring_or_pass(st):
            continue
        # root_path, _ = find_project_root_and_config((self._instance_path,))
        if isinstance(st, ast.Assign) and len(st.targets) == 1 and isinstance(st.targets[0], ast.Tuple):
            v = U(st.value, env)
            if v != "find_project_root_and_config((self._instance_path,))":
                raise _err(f"__attrs_post_init__: unsupported tuple assignment from {v[:80]}")
            els = st.targets[0].elts
            if len(els) != 2 or not all(isinstance(x, ast.Name) for x in els):
                raise _err("__attrs_post_init__: root resolution must unpack (root, config)")
            env[els[0].id] = sym("ROOT")
            steps.append(".resolveRoot")
            continue
        if helper_assign(st, env):
            continue
        # self._session_config[...] = ...
        if isinstance(st, ast.Assign) and all(isinstance(t, ast.Subscript) and U(t.value, env) == "self._session_config" for t in st.targets):
            continue
        # if not self.path: self.path = …
        if isinstance(st, ast.If):
            t = U(st.test, env)
            if t not in ("not self.path", "self.path is None") or st.orelse:
                raise _err(f"__attrs_post_init__: unsupported if {t[:60]}")
            lenv = dict(env)
            assigned = None
            for s2 in st.body:
                if is_docstring_or_pass(s2) or helper_assign(s2, lenv):
                    continue
                if isinstance(s2, ast.Assign) and len(s2.targets) == 1 and U(s2.targets[0], lenv) == "self.path" and assigned is None:
                    assigned = norm(s2.value, lenv)
                    continue
                raise _err(f"__attrs_post_init__: unsupported statement under `if not self.path`: {ast.unparse(s2)[:60]}")
            if assigned is None:
                raise _err("__attrs_post_init__: default path not assigned")
            base, comps = path_expr(assigned)
            if base != "ROOT":
                raise _err(f"__attrs_post_init__: the default directory does not start at the project root ({base})")
            parts = []
            for c in comps:
                if isinstance(c, ast.Constant) and isinstance(c.value, str):
                    parts.append(f".lit {lean_chars(c.value)}")
                elif ast.unparse(c) == "self.name":
                    parts.append(".selfName")
                else:
                    raise _err(f"__attrs_post_init__: unsupported path component {ast.unparse(c)[:60]}")
            steps.append(f".defaultPath {lean_list(parts)}")
            RAW["dir_parts"] = [c.value if isinstance(c, ast.Constant) else None for c in comps]
            continue
        if isinstance(st, ast.Expr) and isinstance(st.value, ast.Call):
            t = U(st.value, env)
            c = norm(st.value, env)
            if isinstance(c.func, ast.Attribute) and c.func.attr == "mkdir" and ast.unparse(c.func.value) == "self.path":
                kw = {k.arg: ast.unparse(k.value) for k in c.keywords}
                if c.args or kw != {"parents": "True", "exist_ok": "True"}:
                    raise _err(f"__attrs_post_init__: mkdir arguments {t[:80]}")
                steps.append(".mkdir")
                continue
            raise _err(f"__attrs_post_init__: unsupported call {t[:80]}")
        if isinstance(st, ast.For):
            steps.append(_reload_loop(st, env))
            continue
        raise _err(f"__attrs_post_init__: unsupported statement {ast.unparse(st)[:80]}")
    return steps


def _reload_loop(st: ast.For, env) -> str:
    if st.orelse or not isinstance(st.target, ast.Name):
        raise _err("reload loop: unsupported shape")
    it = norm(st.iter, env)
    if not (isinstance(it, ast.Call) and isinstance(it.func, ast.Attribute) and it.func.attr in ("glob", "rglob")
            and ast.unparse(it.func.value) == "self.path" and len(it.args) == 1 and not it.keywords
            and isinstance(it.args[0], ast.Constant) and isinstance(it.args[0].value, str)):
        raise _err(f"reload loop: iterates over {ast.unparse(it)[:80]}")
    if it.func.attr != "glob":
        raise _err("reload loop: recursive glob")
    pat = it.args[0].value
    if not pat.startswith("*") or any(ch in pat[1:] for ch in "*?[]/"):
        raise _err(f"reload loop: unsupported glob {pat!r}")
    lenv = dict(env)
    lenv[st.target.id] = sym("FILE")
    node_var = None
    key = None
    for s2 in st.body:
        if is_docstring_or_pass(s2):
            continue
        # node = pickle.loads(path.read_bytes())
        if isinstance(s2, ast.Assign) and len(s2.targets) == 1 and isinstance(s2.targets[0], ast.Name) \
                and U(s2.value, lenv) == "pickle.loads(FILE.read_bytes())":
            if node_var is not None:
                raise _err("reload loop: node un-pickled twice")
            node_var = s2.targets[0].id
            lenv[node_var] = sym("NODE")
            continue
        if helper_assign(s2, lenv):
            continue
        # if not hasattr(node, "attributes"): warn() else: node.attributes = {...}
        if isinstance(s2, ast.If) and "hasattr(NODE, 'attributes')" in U(s2.test, lenv):
            for s3 in s2.body + s2.orelse:
                ok = (isinstance(s3, ast.Expr) and isinstance(s3.value, ast.Call) and U(s3.value.func, lenv).startswith("warn_")) or \
                     (isinstance(s3, ast.Assign) and len(s3.targets) == 1 and U(s3.targets[0], lenv).startswith("NODE.attributes")) or \
                     is_docstring_or_pass(s3)
                if not ok:
                    raise _err(f"reload loop: unsupported statement {ast.unparse(s3)[:60]}")
            continue
        # self._entries[KEY] = node
        if isinstance(s2, ast.Assign) and len(s2.targets) == 1 and isinstance(s2.targets[0], ast.Subscript) \
                and U(s2.targets[0].value, lenv) == "self._entries":
            if U(s2.value, lenv) != "NODE" or key is not None:
                raise _err("reload loop: unexpected store into self._entries")
            k = U(s2.targets[0].slice, lenv)
            key = {"NODE.name": ".nodeName", "FILE.stem": ".fileStem", "FILE.name": ".fileName"}.get(k)
            if key is None:
                raise _err(f"reload loop: entries keyed by {k[:60]}")
            continue
        raise _err(f"reload loop: unsupported statement {ast.unparse(s2)[:80]}")
    if node_var is None or key is None:
        raise _err("reload loop: node not un-pickled or not stored")
    return f".loadNodes {lean_chars(pat[1:])} {key}"


def getitem_facts(cls):
    fn = _method(cls, "__getitem__")
    ps = params(fn)
    if len(ps) != 2:
        raise _err("__getitem__: expected (self, name)")
    env = {ps[0]: sym("self"), ps[1]: sym("NAME")}
    steps = []
    for st in body_of(fn):
        if is_docstring_or_pass(st) or helper_assign(st, env):
            continue
        if isinstance(st, ast.If) and not st.orelse and U(st.test, env) == "NAME not in self._entries" \
                and len(st.body) == 1 and isinstance(st.body[0], ast.Expr) and U(st.body[0].value, env) == "self.add(NAME)":
            steps.append(".addIfMissing")
            continue
        if isinstance(st, ast.Expr) and U(st.value, env) == "self.add(NAME)":
            steps.append(".addAlways")
            continue
        if isinstance(st, ast.Return) and st.value is not None and U(st.value, env) == "self._entries[NAME]":
            steps.append(".returnEntry")
            continue
        raise _err(f"__getitem__: unsupported statement {ast.unparse(st)[:80]}")
    return steps


def _name_src(e) -> str:
    t = ast.unparse(e)
    if t == "NAME":
        return ".entryName"
    if t == "self.name":
        return ".catalogName"
    if any(isinstance(n, ast.Name) and n.id == "NAME" for n in ast.walk(e)):
        return ".transformed"
    raise _err(f"add(): {t[:60]} does not depend on the entry name")


def _default_branch(stmts, env) -> str:
    """node is None: compute file name, create the default node, pickle it next to the value file"""
    env = dict(env)
    created = None      # (key, nodeName, valueParts, digest, hasElseWithoutPath, test)
    persisted = None
    for st in stmts:
        if is_docstring_or_pass(st) or helper_assign(st, env):
            continue
        if isinstance(st, ast.If) and created is None:
            test = U(st.test, env)
            if test != "isinstance(self.default_node, PPathNode)":
                raise _err(f"add(): unsupported test in the default branch: {test[:80]}")

            def store(block):
                real = [s for s in block if not is_docstring_or_pass(s)]
                lenv = dict(env)
                real = [s for s in real if not helper_assign(s, lenv)]
                if len(real) != 1 or not (isinstance(real[0], ast.Assign) and len(real[0].targets) == 1
                                          and isinstance(real[0].targets[0], ast.Subscript)
                                          and U(real[0].targets[0].value, lenv) == "self._entries"):
                    raise _err("add(): the default branch must store exactly one node into self._entries")
                key = _name_src(norm(real[0].targets[0].slice, lenv))
                call = norm(real[0].value, lenv)
                if not (isinstance(call, ast.Call) and ast.unparse(call.func) == "self.default_node" and not call.args):
                    raise _err(f"add(): the entry is not created by self.default_node(…): {ast.unparse(call)[:60]}")
                return key, {k.arg: k.value for k in call.keywords}
            k1, kw1 = store(st.body)
            k2, kw2 = store(st.orelse)
            if set(kw1) != {"name", "path"} or set(kw2) != {"name"} or k1 != k2:
                raise _err("add(): default_node(name=…, path=…) / default_node(name=…) expected")
            if _name_src(kw1["name"]) != _name_src(kw2["name"]):
                raise _err("add(): the two default-node constructions use different names")
            base, comps = path_expr(kw1["path"])
            if base != "self.path" or len(comps) != 1:
                raise _err("add(): the value file is not directly inside self.path")
            vparts, dg = file_parts(comps[0])
            created = (k1, _name_src(kw1["name"]), vparts, dg)
            continue
        if isinstance(st, ast.Expr) and isinstance(st.value, ast.Call) and persisted is None:
            c = norm(st.value, env)
            if isinstance(c.func, ast.Attribute) and c.func.attr == "write_bytes" and len(c.args) == 1 and not c.keywords:
                base, comps = path_expr(c.func.value)
                if base != "self.path" or len(comps) != 1:
                    raise _err("add(): the node file is not directly inside self.path")
                nparts, dg2 = file_parts(comps[0])
                arg = ast.unparse(c.args[0])
                persisted = (nparts, dg2, arg)
                continue
        raise _err(f"add(): unsupported statement in the default branch: {ast.unparse(st)[:80]}")
    if created is None or persisted is None:
        raise _err("add(): default branch does not create and persist a node")
    key, nname, vparts, dg = created
    nparts, dg2, parg = persisted
    if dg is None or dg2 is None or dg["text"] != dg2["text"]:
        raise _err("add(): value file and node file are not named after the same digest")
    persists_entry = parg in ("pickle.dumps(self._entries[NAME])",) and key == ".entryName"

    def fp(parts):
        return lean_list(".digest" if k == "digest" else f".lit {lean_chars(v)}" for k, v in parts)
    algo = dg["algo"].replace('"', "")
    RAW["value_file"], RAW["node_file"] = vparts, nparts
    return ("{ hashed := ." + dg["src"] + f', algo := "{algo}", encoded := {lb(dg["encoded"])}, hex := {lb(dg["hex"])}, '
            f"entryKey := {key}, nodeName := {nname}, valueFile := {fp(vparts)}, persistFile := {fp(nparts)}, "
            f"persistsEntry := {lb(persists_entry)} }}")


def add_facts(cls):
    fn = _method(cls, "add")
    ps = params(fn)
    if len(ps) != 3 or len(fn.args.defaults) != 1 or ast.unparse(fn.args.defaults[0]) != "None":
        raise _err("add(): expected (self, name, node=None)")
    env = {ps[0]: sym("self"), ps[1]: sym("NAME"), ps[2]: sym("NODEARG")}
    steps = []
    dispatched = False
    for st in body_of(fn):
        if is_docstring_or_pass(st):
            continue
        if not dispatched and helper_assign(st, env):
            continue
        if isinstance(st, ast.If) and U(st.test, env) == "not isinstance(NAME, str)" and not st.orelse and not dispatched:
            if not only_raises(st.body, "TypeError", env):
                raise _err("add(): the name type check does not raise TypeError")
            steps.append(".checkNameStr")
            continue
        if isinstance(st, ast.If) and not dispatched and U(st.test, env) in ("NODEARG is None", "NODEARG == None"):
            d = _default_branch(st.body, env)
            rest = st.orelse
            if not (len(rest) == 1 and isinstance(rest[0], ast.If)):
                raise _err("add(): expected if node is None / elif isinstance(node, …) / else")
            e2 = rest[0]
            if U(e2.test, env) != "isinstance(NODEARG, (PNode, PProvisionalNode))":
                raise _err(f"add(): unsupported second test {U(e2.test, env)[:80]}")
            b2 = [s for s in e2.body if not is_docstring_or_pass(s)]
            if not (len(b2) == 1 and isinstance(b2[0], ast.Assign) and U(b2[0].targets[0], env) == "self._entries[NAME]"
                    and U(b2[0].value, env) == "NODEARG"):
                raise _err("add(): a given node is not stored as is under the entry name")
            stores = [s for s in ast.walk(ast.Module(body=e2.orelse, type_ignores=[])) if isinstance(s, ast.Assign)
                      and any(isinstance(t, ast.Subscript) and U(t.value, env) == "self._entries" for t in s.targets)]
            if len(stores) != 1 or U(stores[0].targets[0], env) != "self._entries[NAME]" or "pytask_collect_node" not in ast.unparse(ast.Module(body=e2.orelse, type_ignores=[])):
                raise _err("add(): the last branch does not collect the value into a node stored under the entry name")
            steps.append(f".dispatch (.default {d}) .givenNode .collected")
            dispatched = True
            continue
        if dispatched:
            # tail: only the data-catalog attribute of the stored node may be touched
            for n in ast.walk(st):
                if isinstance(n, (ast.Return, ast.Raise, ast.Delete, ast.For, ast.While, ast.With, ast.Try)):
                    raise _err(f"add(): unsupported statement after the branches: {ast.unparse(st)[:60]}")
                if isinstance(n, ast.Call) and isinstance(n.func, ast.Attribute) and n.func.attr in EFFECT_CALLS:
                    raise _err(f"add(): effect after the branches: {ast.unparse(n)[:60]}")
                if isinstance(n, (ast.Assign, ast.AugAssign, ast.AnnAssign)):
                    tg = n.targets if isinstance(n, ast.Assign) else [n.target]
                    for t in tg:
                        tt = ast.unparse(t)
                        if not (isinstance(t, ast.Name) or ".attributes" in tt):
                            raise _err(f"add(): store to {tt[:60]} after the branches")
            continue
        raise _err(f"add(): unsupported statement {ast.unparse(st)[:80]}")
    if not dispatched:
        raise _err("add(): branches on `node` not found")
    return steps


def default_node_fact(cls) -> str:
    for b in cls.body:
        if isinstance(b, ast.AnnAssign) and isinstance(b.target, ast.Name) and b.target.id == "default_node":
            if isinstance(b.value, ast.Name):
                return b.value.id
            raise _err("default_node: default is not a class name")
    raise _err("default_node attribute not found")


# ------------------------------------------------------------------------------------------------
# PickleNode
# ------------------------------------------------------------------------------------------------

def _with_open(st, env, inner: str):
    """`with self.path.open(MODE) as f: <inner using F>` -> MODE"""
    if not (isinstance(st, ast.With) and len(st.items) == 1 and isinstance(st.items[0].optional_vars, ast.Name)):
        return None
    c = norm(st.items[0].context_expr, env)
    if not (isinstance(c, ast.Call) and isinstance(c.func, ast.Attribute) and c.func.attr == "open"
            and ast.unparse(c.func.value) == "self.path"):
        return None
    mode = None
    if len(c.args) == 1 and not c.keywords and isinstance(c.args[0], ast.Constant):
        mode = c.args[0].value
    elif not c.args and len(c.keywords) == 1 and c.keywords[0].arg == "mode" and isinstance(c.keywords[0].value, ast.Constant):
        mode = c.keywords[0].value.value
    if not isinstance(mode, str):
        raise _err(f"PickleNode: unsupported open() arguments {ast.unparse(c)[:60]}")
    lenv = dict(env)
    lenv[st.items[0].optional_vars.id] = sym("F")
    real = [s for s in st.body if not is_docstring_or_pass(s)]
    if len(real) != 1:
        raise _err("PickleNode: more than one statement under `with open`")
    got = U(real[0].value, lenv) if isinstance(real[0], (ast.Return, ast.Expr)) and real[0].value is not None else None
    kind = "return " if isinstance(real[0], ast.Return) else ""
    if got is None or kind + got != inner:
        raise _err(f"PickleNode: under `with open`: {ast.unparse(real[0])[:60]}")
    return mode


def pickle_facts():
    mod = _host()._parse("nodes.py")
    cls = [n for n in mod.body if isinstance(n, ast.ClassDef) and n.name == "PickleNode"]
    if len(cls) != 1:
        raise _err("class PickleNode not found exactly once")
    cls = cls[0]
    fields = [b.target.id for b in cls.body if isinstance(b, ast.AnnAssign) and isinstance(b.target, ast.Name)]
    if sorted(fields) != ["attributes", "name", "path"]:
        raise _err(f"PickleNode: fields {fields} (a new field may hold cached state)")
    # load
    fn = _method(cls, "load")
    ps = params(fn)
    if len(ps) != 2:
        raise _err("PickleNode.load: expected (self, is_product=False)")
    env = {ps[0]: sym("self"), ps[1]: sym("ISPRODUCT")}
    load = []
    for st in body_of(fn):
        if is_docstring_or_pass(st) or helper_assign(st, env):
            continue
        if isinstance(st, ast.If) and U(st.test, env) == "ISPRODUCT" and not st.orelse and len(st.body) == 1 \
                and isinstance(st.body[0], ast.Return) and st.body[0].value is not None and U(st.body[0].value, env) == "self":
            load.append(".productReturnsSelf")
            continue
        mode = _with_open(st, env, "return pickle.load(F)")
        if mode is not None:
            load.append(f'.unpickle "{mode}"')
            continue
        raise _err(f"PickleNode.load: unsupported statement {ast.unparse(st)[:80]}")
    # save
    fn = _method(cls, "save")
    ps = params(fn)
    if len(ps) != 2:
        raise _err("PickleNode.save: expected (self, value)")
    env = {ps[0]: sym("self"), ps[1]: sym("VALUE")}
    save = []
    for st in body_of(fn):
        if is_docstring_or_pass(st) or helper_assign(st, env):
            continue
        mode = _with_open(st, env, "pickle.dump(VALUE, F)")
        if mode is not None:
            save.append(f'.dump "{mode}"')
            continue
        raise _err(f"PickleNode.save: unsupported statement {ast.unparse(st)[:80]}")
    # state
    fn = _method(cls, "state")
    env = {params(fn)[0]: sym("self")}
    real = [s for s in body_of(fn) if not is_docstring_or_pass(s) and not helper_assign(s, env)]
    if not (len(real) == 1 and isinstance(real[0], ast.Return) and real[0].value is not None):
        raise _err("PickleNode.state: unsupported shape")
    state = {"_get_state(self.path)": ".path"}.get(U(real[0].value, env))
    if state is None:
        raise _err(f"PickleNode.state: returns {U(real[0].value, env)[:60]}")
    # signature
    fn = _method(cls, "signature")
    env = {params(fn)[0]: sym("self")}
    real = [s for s in body_of(fn) if not is_docstring_or_pass(s) and not helper_assign(s, env)]
    if not (len(real) == 1 and isinstance(real[0], ast.Return) and real[0].value is not None):
        raise _err("PickleNode.signature: unsupported shape")
    sig = {"hashlib.sha256(str(hash_value(self.path)).encode()).hexdigest()": ".path"}.get(U(real[0].value, env))
    if sig is None:
        raise _err(f"PickleNode.signature: returns {U(real[0].value, env)[:80]}")
    # from_path
    fn = _method(cls, "from_path")
    ps = params(fn)
    if len(ps) != 2:
        raise _err("PickleNode.from_path: expected (cls, path)")
    env = {ps[0]: sym("CLS"), ps[1]: sym("PATH")}
    checks_abs = False
    ret = None
    for st in body_of(fn):
        if is_docstring_or_pass(st) or helper_assign(st, env):
            continue
        if isinstance(st, ast.If) and U(st.test, env) == "not PATH.is_absolute()" and not st.orelse and only_raises(st.body, "ValueError", env):
            checks_abs = True
            continue
        if isinstance(st, ast.Return) and st.value is not None and ret is None:
            c = norm(st.value, env)
            if not (isinstance(c, ast.Call) and ast.unparse(c.func) == "CLS" and not c.args):
                raise _err("PickleNode.from_path: does not return cls(…)")
            ret = {k.arg: ast.unparse(k.value) for k in c.keywords}
            continue
        raise _err(f"PickleNode.from_path: unsupported statement {ast.unparse(st)[:80]}")
    if ret is None or set(ret) != {"name", "path"}:
        raise _err("PickleNode.from_path: cls(name=…, path=…) expected")
    return load, save, state, sig, checks_abs, ret["path"] == "PATH", ret["name"] == "PATH.as_posix()"


RAW: dict = {}   # plain-Python copy of some facts of the last extraction (used by extract_catalog.py for its older, flat facts)


SCHEMA = """\
namespace Cat
/-- items of the validator's pattern -/
inductive ReItem where
  | bol | eol | bos | eos
  | plus (cls : List (Nat × Nat))
  | star (cls : List (Nat × Nat))
deriving DecidableEq, Repr
inductive ReFn where
  | atStart | fullmatch | search
deriving DecidableEq, Repr
inductive PathPart where
  | lit (s : List Char)
  | selfName
deriving DecidableEq, Repr
inductive EntryKey where
  | nodeName | fileStem | fileName
deriving DecidableEq, Repr
inductive InitStep where
  | resolveRoot
  | defaultPath (parts : List PathPart)
  | mkdir
  | loadNodes (globSuffix : List Char) (key : EntryKey)
deriving DecidableEq, Repr
inductive GetStep where
  | addIfMissing | addAlways | returnEntry
deriving DecidableEq, Repr
inductive NameSrc where
  | entryName | catalogName | transformed
deriving DecidableEq, Repr
inductive FilePart where
  | digest
  | lit (s : List Char)
deriving DecidableEq, Repr
structure AddDefault where
  hashed : NameSrc
  algo : String
  encoded : Bool
  hex : Bool
  entryKey : NameSrc
  nodeName : NameSrc
  valueFile : List FilePart
  persistFile : List FilePart
  persistsEntry : Bool
deriving DecidableEq, Repr
inductive AddBranch where
  | default (d : AddDefault)
  | givenNode
  | collected
deriving DecidableEq, Repr
inductive AddStep where
  | checkNameStr
  | dispatch (ifNone ifNode otherwise : AddBranch)
deriving DecidableEq, Repr
inductive IoStep where
  | productReturnsSelf
  | unpickle (mode : String)
  | dump (mode : String)
deriving DecidableEq, Repr
inductive Src where
  | path | other
deriving DecidableEq, Repr
"""


def catalogsrc_section() -> list[str]:
    RAW.clear()
    mod, cls = _catalog_class()
    fnname, items = validator_facts(mod, cls)
    init = init_facts(cls)
    get = getitem_facts(cls)
    add = add_facts(cls)
    dn = default_node_fact(cls)
    load, save, state, sig, checks_abs, keeps_path, name_posix = pickle_facts()
    L = SCHEMA.splitlines()
    L.append("/-- `DataCatalog._check`: `isinstance(value, str)` first, then `re.<fn>(pattern, value)` on the raw value. -/")
    L.append(f"def validatorFn : ReFn := .{ {'match': 'atStart'}.get(fnname, fnname) }")
    L.append(f"def validatorPattern : List ReItem := {lean_list(items)}")
    L.append("/-- `DataCatalog.__attrs_post_init__`, statement by statement. -/")
    L.append(f"def init : List InitStep := {lean_list(init)}")
    L.append("/-- `DataCatalog.__getitem__`. -/")
    L.append(f"def getItem : List GetStep := {lean_list(get)}")
    L.append("/-- `DataCatalog.add`. -/")
    L.append(f"def add : List AddStep := {lean_list(add)}")
    L.append(f'def defaultNode : String := "{dn}"')
    L.append("/-- `PickleNode.load` / `save`: nothing but these steps (no cache, no skipped write). -/")
    L.append(f"def pickleLoad : List IoStep := {lean_list(load)}")
    L.append(f"def pickleSave : List IoStep := {lean_list(save)}")
    L.append(f"def pickleStateOf : Src := {state}")
    L.append(f"def pickleSignatureOf : Src := {sig}")
    L.append(f"def fromPathChecksAbsolute : Bool := {lb(checks_abs)}")
    L.append(f"def fromPathKeepsPath : Bool := {lb(keeps_path)}")
    L.append(f"def fromPathNameIsPosix : Bool := {lb(name_posix)}")
    L.append("end Cat")
    L.append("")
    return L
