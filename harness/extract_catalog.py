"""Translator section for M9b (`Catalog.lean`, property C20): facts read from data_catalog.py.

section() -> list[str] of Lean lines for `Generated.lean`; fail-closed (ExtractError).

Emitted
  catalogNameClass      : List (Nat × Nat)   code-point ranges of the validator's character class
  catalogNameAnchorKind : Nat                0 = re.match (prefix), 1 = re.fullmatch, 2 = re.search
  catalogNameAnchor     : String             the same, readable
  catalogDirParts       : List (List Char)   [".pytask", "data_catalogs"]
  catalogEntrySuffix    : List Char          ".pkl"
  catalogNodeSuffix     : List Char          "-node.pkl"

These flat facts are what `Catalog.lean` consumes directly. They are read with the recognisers of `extract_catalogsrc.py` (the tie
section, tolerant to renamed locals / helper variables / compiled pattern constants); the CODE around them (statements of
`__attrs_post_init__`, `__getitem__`, `add`, `PickleNode.load/save`) is extracted there as data and proved equal to the model in
`lean/PytaskProofs/Properties/CatalogTie.lean`. The helpers `_validator_facts`, `_path_facts`, `_pickle_node_facts` below are the
former text-comparison recognisers; `section()` no longer calls them.
"""
from __future__ import annotations

import ast
import sys

try:  # Python ≥ 3.11
    import re._constants as _sc
    import re._parser as _sp
except ImportError:  # pragma: no cover
    import sre_constants as _sc
    import sre_parse as _sp


def _api():
    """The running translator module (it is executed as __main__ by the pipeline)."""
    m = sys.modules.get("__main__")
    if m is not None and hasattr(m, "ExtractError") and hasattr(m, "EXTRA_SECTIONS"):
        return m
    import extract
    return extract


def lean_chars(s: str) -> str:
    def one(ch: str) -> str:
        if ch == "'":
            return "'\\''"
        if ch == "\\":
            return "'\\\\'"
        if 32 <= ord(ch) < 127:
            return f"'{ch}'"
        return f"(Char.ofNat {ord(ch)})"
    return "[" + ", ".join(one(c) for c in s) + "]"


def _validator_facts(E, cls: ast.ClassDef):
    """(ranges, anchor) from the `@name.validator` method."""
    val = None
    for b in cls.body:
        if isinstance(b, ast.FunctionDef) and any(ast.unparse(d) == "name.validator" for d in b.decorator_list):
            if val is not None:
                raise E("DataCatalog: more than one name validator")
            val = b
    if val is None:
        raise E("DataCatalog: no @name.validator method")
    calls = [n for n in ast.walk(val) if isinstance(n, ast.Call) and isinstance(n.func, ast.Attribute)
             and isinstance(n.func.value, ast.Name) and n.func.value.id == "re"]
    if len(calls) != 1:
        raise E(f"name validator: expected exactly one re.<fn>(…) call, found {len(calls)}")
    call = calls[0]
    kinds = {"match": 0, "fullmatch": 1, "search": 2}
    if call.func.attr not in kinds:
        raise E(f"name validator: unrecognised re function {call.func.attr!r}")
    if call.keywords or len(call.args) != 2:
        raise E("name validator: re call with flags / unexpected arguments")
    pat, subj = call.args
    if not (isinstance(pat, ast.Constant) and isinstance(pat.value, str)):
        raise E("name validator: pattern is not a string literal")
    valname = val.args.args[2].arg if len(val.args.args) >= 3 else None
    if not (isinstance(subj, ast.Name) and subj.id == valname):
        raise E(f"name validator: the regex is not applied to the raw value ({ast.unparse(subj)!r})")
    # the call must be the (negated) condition of an `if` that raises ValueError
    ok_shape = False
    for n in ast.walk(val):
        if isinstance(n, ast.If) and isinstance(n.test, ast.UnaryOp) and isinstance(n.test.op, ast.Not) and n.test.operand is call:
            if any(isinstance(s, ast.Raise) for s in n.body) and not n.orelse:
                src = ast.unparse(n)
                if "ValueError" in src:
                    ok_shape = True
    if not ok_shape:
        raise E("name validator: expected `if not re.<fn>(pattern, value): … raise ValueError`")
    try:
        parsed = _sp.parse(pat.value)
    except Exception as e:  # noqa: BLE001
        raise E(f"name validator: pattern does not parse: {e}") from None
    flags = parsed.state.flags & ~_sc.SRE_FLAG_UNICODE
    if flags:
        raise E(f"name validator: inline flags {flags} not supported")
    items = list(parsed)
    if len(items) != 1 or items[0][0] is not _sc.MAX_REPEAT:
        raise E(f"name validator: pattern {pat.value!r} is not of the form [class]+")
    lo, hi, sub = items[0][1]
    if lo != 1 or hi is not _sc.MAXREPEAT:
        raise E(f"name validator: repetition {{{lo},{hi}}} is not '+'")
    sub = list(sub)
    if len(sub) != 1 or sub[0][0] is not _sc.IN:
        raise E(f"name validator: pattern {pat.value!r} is not of the form [class]+")
    ranges = []
    for op, arg in sub[0][1]:
        if op is _sc.RANGE:
            ranges.append((int(arg[0]), int(arg[1])))
        elif op is _sc.LITERAL:
            ranges.append((int(arg), int(arg)))
        else:
            raise E(f"name validator: class item {op} not supported (negation / category)")
    return ranges, call.func.attr, kinds[call.func.attr]


def _path_facts(E, cls: ast.ClassDef):
    post = add = None
    for b in cls.body:
        if isinstance(b, ast.FunctionDef) and b.name == "__attrs_post_init__":
            post = b
        if isinstance(b, ast.FunctionDef) and b.name == "add":
            add = b
    if post is None or add is None:
        raise E("DataCatalog: __attrs_post_init__ / add not found")
    # self.path = root_path / ".pytask" / "data_catalogs" / self.name
    dir_parts = None
    for n in ast.walk(post):
        if isinstance(n, ast.Assign) and ast.unparse(n.targets[0]) == "self.path":
            parts = []
            e = n.value
            while isinstance(e, ast.BinOp) and isinstance(e.op, ast.Div):
                parts.append(e.right)
                e = e.left
            parts.reverse()
            if not (isinstance(e, ast.Name) and e.id == "root_path"):
                raise E(f"catalog directory does not start at root_path: {ast.unparse(n.value)}")
            if not parts or ast.unparse(parts[-1]) != "self.name":
                raise E(f"catalog directory does not end with self.name: {ast.unparse(n.value)}")
            mid = parts[:-1]
            if not all(isinstance(p, ast.Constant) and isinstance(p.value, str) and "/" not in p.value
                       and p.value not in ("", ".", "..") for p in mid):
                raise E(f"catalog directory: unrecognised components: {ast.unparse(n.value)}")
            dir_parts = [p.value for p in mid]
    if dir_parts is None:
        raise E("__attrs_post_init__: assignment to self.path not found")
    src_post = ast.unparse(post)
    node_glob = None
    for n in ast.walk(post):
        if isinstance(n, ast.Call) and ast.unparse(n.func) == "self.path.glob" and len(n.args) == 1 \
                and isinstance(n.args[0], ast.Constant):
            node_glob = n.args[0].value
    if not (isinstance(node_glob, str) and node_glob.startswith("*") and "*" not in node_glob[1:]
            and "/" not in node_glob and "?" not in node_glob and "[" not in node_glob):
        raise E(f"__attrs_post_init__: unrecognised glob for persisted nodes: {node_glob!r}")
    if "self._entries[node.name] = node" not in src_post:
        raise E("__attrs_post_init__: persisted nodes are not keyed by node.name")
    # add(): filename = hashlib.sha256(name.encode()).hexdigest(); path=self.path / f"{filename}.pkl";
    #        self.path.joinpath(f"{filename}-node.pkl")
    src_add = ast.unparse(add)
    fn_assign = [n for n in ast.walk(add) if isinstance(n, ast.Assign) and ast.unparse(n.targets[0]) == "filename"]
    if len(fn_assign) != 1 or ast.unparse(fn_assign[0].value) != "hashlib.sha256(name.encode()).hexdigest()":
        raise E("add(): filename is not hashlib.sha256(name.encode()).hexdigest()")
    entry_suffix = node_suffix = None
    for n in ast.walk(add):
        if isinstance(n, ast.JoinedStr):
            vals = n.values
            if not any(isinstance(v, ast.FormattedValue) and "filename" in ast.unparse(v.value) for v in vals):
                continue
            if (len(vals) == 2 and isinstance(vals[0], ast.FormattedValue) and ast.unparse(vals[0].value) == "filename"
                    and vals[0].conversion == -1 and vals[0].format_spec is None
                    and isinstance(vals[1], ast.Constant) and isinstance(vals[1].value, str)):
                suf = vals[1].value
                if suf == node_glob[1:]:
                    node_suffix = suf
                else:
                    if entry_suffix is not None and entry_suffix != suf:
                        raise E("add(): more than one value-file suffix")
                    entry_suffix = suf
            else:
                raise E(f"add(): unrecognised f-string {ast.unparse(n)}")
    if entry_suffix is None or node_suffix is None:
        raise E("add(): value-file / node-file names not recognised")
    for suf in (entry_suffix, node_suffix):
        if "/" in suf or len(suf) < 3:
            raise E(f"add(): suspicious suffix {suf!r}")
    if f"path=self.path / f'{{filename}}{entry_suffix}'" not in src_add:
        raise E("add(): the default node's path is not self.path / f'{filename}<suffix>'")
    if f"self.path.joinpath(f'{{filename}}{node_suffix}').write_bytes(pickle.dumps(self._entries[name]))" not in src_add:
        raise E("add(): the node is not pickled to self.path/<filename><node suffix>")
    if "if name not in self._entries:\n        self.add(name)\n    return self._entries[name]" not in ast.unparse(
            next(b for b in cls.body if isinstance(b, ast.FunctionDef) and b.name == "__getitem__")):
        raise E("__getitem__: unrecognised shape")
    return dir_parts, entry_suffix, node_suffix


def _pickle_node_facts(E):
    A = _api()
    mod = A._parse("nodes.py")
    cls = next((n for n in mod.body if isinstance(n, ast.ClassDef) and n.name == "PickleNode"), None)
    if cls is None:
        raise E("PickleNode not found")
    meths = {b.name: ast.unparse(b) for b in cls.body if isinstance(b, ast.FunctionDef)}
    load, save = meths.get("load", ""), meths.get("save", "")
    if "with self.path.open('rb') as f:\n        return pickle.load(f)" not in load or "if is_product:\n        return self" not in load:
        raise E("PickleNode.load: unrecognised shape (must read self.path on every call)")
    if "with self.path.open('wb') as f:\n        pickle.dump(value, f)" not in save:
        raise E("PickleNode.save: unrecognised shape")
    extra = [ln for ln in load.splitlines()[1:] if ln.strip() and not ln.strip().startswith(('"""', "'''"))]
    if len(extra) != 4:
        raise E(f"PickleNode.load: unexpected extra statements ({len(extra)} lines)")


def section() -> list[str]:
    """The flat facts consumed by `Catalog.lean` itself. Since the tie module exists (extract_catalogsrc.py / CatalogGen.lean /
    Properties/CatalogTie.lean) they are read with ITS tolerant recognisers (renamed locals, helper variables, compiled pattern
    constant, `/` vs joinpath …); everything structural that this section used to pin by text comparison is now extracted as
    data there and proved equal to the model, so it is not checked twice here. Fail-closed: facts that do not fit the flat
    format (`[class]+` with one of the three re functions, literal directories then the name, digest + literal suffix) raise."""
    A = _api()
    E = A.ExtractError
    import extract_catalogsrc as S
    try:        # only the three functions whose facts the flat format needs; the rest is the tie section's business
        S.RAW.clear()
        mod, cls = S._catalog_class()
        S.validator_facts(mod, cls)
        S.init_facts(cls)
        S.add_facts(cls)
    except Exception as e:  # noqa: BLE001
        raise E(f"{e}") from None
    R = dict(S.RAW)
    kinds = {"match": 0, "fullmatch": 1, "search": 2}
    fn = R.get("validator_fn")
    if fn not in kinds:
        raise E(f"name validator: unrecognised re function {fn!r}")
    if R.get("validator_items") != [".plus"] or len(R.get("classes", [])) != 1:
        raise E(f"name validator: pattern items {R.get('validator_items')} are not a single [class]+")
    ranges = R["classes"][0][1]
    kind = kinds[fn]
    parts = R.get("dir_parts") or []
    if not parts or parts[-1] is not None or any(p is None or "/" in p or p in ("", ".", "..") for p in parts[:-1]):
        raise E(f"catalog directory is not <literal components> / self.name: {parts}")
    dir_parts = parts[:-1]

    def suffix(fp, what):
        if not (len(fp) == 2 and fp[0][0] == "digest" and fp[1][0] == "lit" and "/" not in fp[1][1] and len(fp[1][1]) >= 3):
            raise E(f"add(): {what} is not <digest><literal suffix>: {fp}")
        return fp[1][1]
    entry_suffix = suffix(R.get("value_file") or [], "value file")
    node_suffix = suffix(R.get("node_file") or [], "node file")
    if entry_suffix == node_suffix:
        raise E("add(): value file and node file have the same name")
    L = []
    L.append("/-- `DataCatalog` name validator (`data_catalog.py`): class of `[…]+` as code-point ranges. -/")
    L.append("def catalogNameClass : List (Nat × Nat) := " + A.lean_list(ranges, lambda r: f"({r[0]}, {r[1]})"))
    L.append(f"/-- the validator calls `re.{fn}`: 0 = match (prefix), 1 = fullmatch, 2 = search. -/")
    L.append(f"def catalogNameAnchorKind : Nat := {kind}")
    L.append(f"def catalogNameAnchor : String := {A.lean_str({0: 'prefix', 1: 'full', 2: 'search'}[kind])}")
    L.append("/-- `root_path / … / self.name`; value file `sha256(entry).hexdigest() ++ suffix`; pickled node next to it. -/")
    L.append("def catalogDirParts : List (List Char) := " + A.lean_list(dir_parts, lean_chars))
    L.append(f"def catalogEntrySuffix : List Char := {lean_chars(entry_suffix)}")
    L.append(f"def catalogNodeSuffix : List Char := {lean_chars(node_suffix)}")
    L.append("")
    return L
