"""Normalised-AST fingerprints of each property's anchor files (properties.jsonl → anchors.files).

A fingerprint that differs from the committed table (harness/anchor_fingerprints.json, written by
`tools/fingerprint.py --update` after every fix: commit) means "the anchored code was edited since the
model was last validated". That is NOT an alarm and not a broken tie; it only raises the search budget of the
check (deeper correspondence + failing-input search), because an edit inside the anchors is where a property-
breaking change would be. Comments, docstrings and formatting do not change a fingerprint.
"""
from __future__ import annotations

import ast
import hashlib
import json
from pathlib import Path

VERIF = Path(__file__).resolve().parent.parent
TABLE = VERIF / "harness" / "anchor_fingerprints.json"


def _strip_docstrings(tree: ast.AST) -> None:
    for node in ast.walk(tree):
        if isinstance(node, (ast.Module, ast.FunctionDef, ast.AsyncFunctionDef, ast.ClassDef)):
            b = node.body
            if b and isinstance(b[0], ast.Expr) and isinstance(b[0].value, ast.Constant) and isinstance(b[0].value.value, str):
                node.body = b[1:] or [ast.Pass()]


def file_fingerprint(path: Path) -> str:
    try:
        tree = ast.parse(path.read_text())
    except (OSError, SyntaxError) as e:
        return f"unparsable:{type(e).__name__}"
    _strip_docstrings(tree)
    return hashlib.sha256(ast.dump(tree, annotate_fields=False, include_attributes=False).encode()).hexdigest()[:20]


def anchors() -> dict[str, list[str]]:
    out = {}
    for line in (VERIF / "properties.jsonl").read_text().splitlines():
        if line.strip():
            p = json.loads(line)
            out[p["id"]] = list(p["anchors"]["files"])
    return out


def current(repo: Path) -> dict[str, str]:
    files = sorted({f for fs in anchors().values() for f in fs})
    return {f: file_fingerprint(repo / f) for f in files}


def changed_anchors(prop: str, repo: Path) -> list[str]:
    if not TABLE.exists():
        return []
    table = json.loads(TABLE.read_text())
    return [f for f in anchors().get(prop, []) if table.get(f) != file_fingerprint(repo / f)]
