"""Source facts for M5 (`PyTree.lean` / `TaskArgs.lean`, C07), read with `ast` from the tree under check.

Emits data only (DESIGN §2.4); fail-closed: anything unrecognised raises ExtractError.

* `treeNoneIsLeaf`        — every optree wrapper in `tree_util.py` is `functools.partial(<optree fn>, none_is_leaf=<const>, namespace="pytask")`
                            with the same constant;
* `returnPrefixStrict`    — the `strict=` constant of the single `.is_prefix(...)` call in `execute.pytask_execute_task`;
* `productsNeedParameter` — the loop over `task.produces.items()` in `pytask_execute_task` guards the load with `if name in parameters`;
* `dependsBeforeProduces` — the loop over `task.depends_on` precedes the loop over `task.produces` (later assignment wins on a name clash);
* `taskProducesReplaces`  — in `collect_utils.parse_products_from_task_function`, under `if task_produces:`, the products dict is
                            re-bound (`out = {"return": …}`, true) or extended (`out["return"] = …`, false).

Hook into `extract.py` with:   from extract_pytree import pytree_facts; EXTRA_SECTIONS.append(pytree_facts)
"""
from __future__ import annotations

import ast

WRAPPERS = ["tree_leaves", "tree_map", "tree_map_with_path", "tree_structure", "tree_flatten_with_path"]


def _err(msg: str):
    import extract
    return extract.ExtractError("pytree facts: " + msg)


def _const(node, what):
    if isinstance(node, ast.Constant) and isinstance(node.value, bool):
        return node.value
    raise _err(f"{what} is not a boolean literal")


def _none_is_leaf(mod: ast.Module) -> bool:
    found = {}
    for st in mod.body:
        if isinstance(st, ast.Assign) and len(st.targets) == 1 and isinstance(st.targets[0], ast.Name) and st.targets[0].id in WRAPPERS:
            call = st.value
            if not (isinstance(call, ast.Call) and isinstance(call.func, ast.Attribute) and call.func.attr == "partial"):
                raise _err(f"{st.targets[0].id} is not a functools.partial")
            kws = {k.arg: k.value for k in call.keywords}
            if "none_is_leaf" not in kws:
                raise _err(f"{st.targets[0].id}: no none_is_leaf keyword")
            found[st.targets[0].id] = _const(kws["none_is_leaf"], "none_is_leaf")
    missing = [w for w in WRAPPERS if w not in found]
    if missing:
        raise _err(f"wrappers not found in tree_util.py: {missing}")
    if len(set(found.values())) != 1:
        raise _err(f"optree wrappers disagree on none_is_leaf: {found}")
    return next(iter(found.values()))


def _mentions(node, attr: str) -> bool:
    return any(isinstance(n, ast.Attribute) and n.attr == attr for n in ast.walk(node))


def _execute_facts(fn: ast.FunctionDef):
    strict = None
    for n in ast.walk(fn):
        if isinstance(n, ast.Call) and isinstance(n.func, ast.Attribute) and n.func.attr == "is_prefix":
            if strict is not None:
                raise _err("more than one is_prefix call in pytask_execute_task")
            kws = {k.arg: k.value for k in n.keywords}
            strict = _const(kws["strict"], "strict") if "strict" in kws else False
    if strict is None:
        raise _err("no is_prefix call in pytask_execute_task")
    loops = [st for st in fn.body if isinstance(st, ast.For) and (_mentions(st.iter, "depends_on") or _mentions(st.iter, "produces"))]
    if len(loops) != 2 or _mentions(loops[0].iter, "depends_on") == _mentions(loops[1].iter, "depends_on"):
        raise _err("expected exactly one kwargs loop over task.depends_on and one over task.produces")
    deps_first = _mentions(loops[0].iter, "depends_on")
    prod_loop = loops[1] if deps_first else loops[0]
    guarded = False
    if len(prod_loop.body) == 1 and isinstance(prod_loop.body[0], ast.If):
        t = prod_loop.body[0].test
        if (isinstance(t, ast.Compare) and len(t.ops) == 1 and isinstance(t.ops[0], ast.In)
                and isinstance(t.comparators[0], ast.Name) and t.comparators[0].id == "parameters"):
            guarded = True
        else:
            raise _err("unrecognised guard in the produces loop of pytask_execute_task")
    elif any(isinstance(s, ast.If) for s in prod_loop.body):
        raise _err("unrecognised shape of the produces loop of pytask_execute_task")
    return strict, guarded, deps_first


def _task_produces_replaces(fn: ast.FunctionDef) -> bool:
    for st in fn.body:
        if isinstance(st, ast.If) and isinstance(st.test, ast.Name) and st.test.id == "task_produces":
            for s in st.body:
                if isinstance(s, ast.Assign) and len(s.targets) == 1:
                    t = s.targets[0]
                    if isinstance(t, ast.Name) and t.id == "out" and isinstance(s.value, ast.Dict):
                        return True
                    if (isinstance(t, ast.Subscript) and isinstance(t.value, ast.Name) and t.value.id == "out"
                            and isinstance(t.slice, ast.Constant) and t.slice.value == "return"):
                        return False
            raise _err("no assignment to the products dict under `if task_produces:`")
    raise _err("`if task_produces:` not found in parse_products_from_task_function")


def pytree_facts() -> list[str]:
    import extract
    nil = _none_is_leaf(extract._parse("tree_util.py"))
    strict, guarded, deps_first = _execute_facts(extract._func(extract._parse("execute.py"), "pytask_execute_task"))
    repl = _task_produces_replaces(extract._func(extract._parse("collect_utils.py"), "parse_products_from_task_function"))
    b = extract.lean_bool
    return [
        "/-- `none_is_leaf` passed by every optree wrapper of `tree_util.py`. -/",
        f"def treeNoneIsLeaf : Bool := {b(nil)}",
        "/-- `strict=` of `structure_return.is_prefix(structure_out, …)` in `pytask_execute_task`. -/",
        f"def returnPrefixStrict : Bool := {b(strict)}",
        "/-- products are loaded into kwargs only `if name in parameters`. -/",
        f"def productsNeedParameter : Bool := {b(guarded)}",
        "/-- kwargs are filled from `depends_on` first, then from `produces`. -/",
        f"def dependsBeforeProduces : Bool := {b(deps_first)}",
        "/-- `@task(produces=…)` re-binds the whole products dict (`out = {\"return\": …}`) instead of adding a key. -/",
        f"def taskProducesReplaces : Bool := {b(repl)}",
        "",
    ]
