"""Source facts for M5 (`PyTree.lean` / `TaskArgs.lean`, C07), read from the *live* `_pytask` of the tree under check.

Emits data only (DESIGN §2.4). Every fact is established by behavioural probes of the real functions, so a refactoring that keeps
their input/output behaviour keeps the facts, while changing `none_is_leaf`, the strictness of the prefix test, the `name in
parameters` guard or the way `@task(produces=…)` enters the products dict changes the generated Lean terms. Fail-closed: a probe
that cannot run or answers something the model has no term for raises ExtractError.

* `treeNoneIsLeaf`        — every optree wrapper of `tree_util.py` treats `None` as a leaf (all five must agree);
* `returnPrefixStrict`    — `pytask_execute_task` rejects a returned value whose structure *equals* the declared one;
* `productsNeedParameter` — `pytask_execute_task` passes a product as keyword argument only if the function has that parameter;
* `taskProducesReplaces`  — with `@task(produces=…)`, `parse_products_from_task_function` drops the products parsed from parameters;
* `collapseKeepsUserNodes` — `parse_dependencies_from_task_function` does not fold a container holding a user-written node into one PythonNode;
* `productFalsyFallsBack` — a falsy declared product value (`produces=[]`) is replaced by the annotation / None;
* `generatorDepsAsProducts`, `generatorProductsAsProducts`, `generatorProductsNeedParameter` — the `is_product` flags and the
  `name in parameters` guard of the separate kwargs loop for task generators in `provisional.pytask_execute_task`.

Hook into `extract.py` with:   from extract_pytree import pytree_facts; EXTRA_SECTIONS.append(pytree_facts)
"""
from __future__ import annotations

import sys
from pathlib import Path


def _err(msg: str):
    import extract
    return extract.ExtractError("pytree facts: " + msg)


def _none_is_leaf(tu) -> bool:
    probes = {}
    try:
        probes["tree_leaves"] = tu.tree_leaves([None, 1]) == [None, 1]
        probes["tree_map"] = tu.tree_map(lambda _x: 0, [None, 1]) == [0, 0]
        probes["tree_map_with_path"] = tu.tree_map_with_path(lambda _p, _x: 0, [None, 1]) == [0, 0]
        probes["tree_structure"] = tu.tree_structure([None, 1]).num_leaves == 2
        probes["tree_flatten_with_path"] = list(tu.tree_flatten_with_path([None, 1])[1]) == [None, 1]
    except Exception as e:  # noqa: BLE001
        raise _err(f"optree wrapper probe failed: {type(e).__name__}: {e}") from None
    if len(set(probes.values())) != 1:
        raise _err(f"the optree wrappers disagree on whether None is a leaf: {probes}")
    return next(iter(probes.values()))


def _execute_probes():
    from _pytask.execute import pytask_execute_task
    from _pytask.nodes import PythonNode, TaskWithoutPath
    from _pytask.session import Session

    session = Session(config={"dry_run": False}, hook=None)

    # (1) a returned value with exactly the declared structure
    node = PythonNode(name="verif_r")
    task = TaskWithoutPath(name="verif_t", function=lambda **_kw: 5, produces={"return": node})
    try:
        pytask_execute_task(session=session, task=task)
        strict = False
        if node.value != 5:
            raise _err("return value was not saved in the declared node")
    except ValueError:
        strict = True
    except Exception as e:  # noqa: BLE001
        raise _err(f"probe of the return handling failed: {type(e).__name__}: {e}") from None

    # (2) a product the function has no parameter for
    seen = {}

    def body():
        seen["called"] = True

    task = TaskWithoutPath(name="verif_t2", function=body, produces={"extra": PythonNode(name="verif_x", value=1)})
    try:
        pytask_execute_task(session=session, task=task)
        guarded = True
    except TypeError:
        guarded = False
    except Exception as e:  # noqa: BLE001
        raise _err(f"probe of the products loop failed: {type(e).__name__}: {e}") from None
    if guarded and not seen.get("called"):
        raise _err("probe of the products loop: body not called")
    return strict, guarded


def _generator_probes():
    from _pytask.nodes import PythonNode, TaskWithoutPath
    from _pytask.provisional import pytask_execute_task as gen_execute
    from _pytask.session import Session

    def run(function, produces):
        task = TaskWithoutPath(name="verif_g", function=function, depends_on={"x": PythonNode(name="verif_gx", value=5)},
                               produces=produces, attributes={"is_generator": True})
        try:
            gen_execute(session=Session(config={}, hook=None), task=task)
        except RuntimeError:
            pass        # "did not create any tasks": raised after the body ran

    seen = {}

    def body(x, y):
        seen["x"], seen["y"] = x, y

    try:
        run(body, {"y": PythonNode(name="verif_gy", value=6)})
    except Exception as e:  # noqa: BLE001
        raise _err(f"probe of the generator kwargs loop failed: {type(e).__name__}: {e}") from None
    if "x" not in seen:
        raise _err("probe of the generator kwargs loop: body not called")
    if seen["x"] == 5:
        dep_flag = False
    elif isinstance(seen["x"], PythonNode):
        dep_flag = True
    else:
        raise _err(f"generator dependency arrived as {seen['x']!r}")
    if isinstance(seen["y"], PythonNode):
        prod_flag = True
    elif seen["y"] == 6:
        prod_flag = False
    else:
        raise _err(f"generator product arrived as {seen['y']!r}")
    called = {}

    def body2(x):  # noqa: ARG001
        called["yes"] = True

    try:
        run(body2, {"extra": PythonNode(name="verif_ge", value=7)})
        guarded = True
    except TypeError:
        guarded = False
    except Exception as e:  # noqa: BLE001
        raise _err(f"probe of the generator products loop failed: {type(e).__name__}: {e}") from None
    if guarded and not called.get("yes"):
        raise _err("probe of the generator products loop: body not called")
    return dep_flag, prod_flag, guarded


def _session():
    from _pytask import collect as _collect
    from _pytask.pluginmanager import get_plugin_manager
    from _pytask.session import Session

    pm = get_plugin_manager()
    if not pm.is_registered(_collect):
        pm.register(_collect)
    return Session(config={"paths": (), "root": Path.cwd(), "check_casing_of_paths": False}, hook=pm.hook)


def _collapse_keeps_user_nodes() -> bool:
    from _pytask.collect_utils import parse_dependencies_from_task_function
    from _pytask.nodes import PythonNode

    try:
        def f(x={"a": PythonNode(value=1), "b": 2}):  # noqa: ARG001, B006
            return None

        deps = parse_dependencies_from_task_function(_session(), None, "verif_t", Path.cwd(), f)
        got = deps["x"]
    except Exception as e:  # noqa: BLE001
        raise _err(f"probe of parse_dependencies_from_task_function failed: {type(e).__name__}: {e}") from None
    if isinstance(got, PythonNode):
        return False
    if isinstance(got, dict) and set(got) == {"a", "b"} and all(isinstance(v, PythonNode) for v in got.values()):
        return True
    raise _err(f"unexpected collection of a container with a user-written PythonNode: {type(got).__name__}")


def _product_falsy_falls_back() -> bool:
    from _pytask.collect_utils import parse_products_from_task_function
    from _pytask.nodes import PythonNode

    try:
        def f(produces=[]):  # noqa: ARG001, B006
            return None

        out = parse_products_from_task_function(_session(), None, "verif_t", Path.cwd(), f)
        got = out["produces"]
    except Exception as e:  # noqa: BLE001
        raise _err(f"probe of parse_products_from_task_function (empty container) failed: {type(e).__name__}: {e}") from None
    if got == []:
        return False
    if isinstance(got, PythonNode) and got.value is None:
        return True
    raise _err(f"unexpected collection of produces=[]: {got!r}")


def _task_produces_replaces() -> bool:
    from typing import Annotated

    from _pytask.collect_utils import parse_products_from_task_function
    from _pytask.nodes import PythonNode
    from _pytask.pluginmanager import get_plugin_manager
    from _pytask.session import Session
    from _pytask.task_utils import task as task_deco
    from _pytask.typing import Product

    try:
        pm = get_plugin_manager()
        from _pytask import collect as _collect
        if not pm.is_registered(_collect):
            pm.register(_collect)
        session = Session(config={"paths": (), "root": Path.cwd(), "check_casing_of_paths": False}, hook=pm.hook)

        def f(p):  # noqa: ARG001
            return 1

        f.__annotations__ = {"p": Annotated[object, PythonNode(name="verif_p"), Product]}

        g = task_deco(produces=PythonNode(name="verif_ret"))(f)
        out = parse_products_from_task_function(session, None, "verif_t", Path.cwd(), g)
    except Exception as e:  # noqa: BLE001
        raise _err(f"probe of parse_products_from_task_function failed: {type(e).__name__}: {e}") from None
    if set(out) == {"return"}:
        return True
    if set(out) == {"return", "p"}:
        return False
    raise _err(f"unexpected products for @task(produces=…) plus a Product parameter: {sorted(out)}")


def pytree_facts() -> list[str]:
    import extract
    sys.path.insert(0, str(extract.REPO / "src"))
    try:
        import _pytask
        from _pytask import tree_util as tu
    except Exception as e:  # pragma: no cover
        raise _err(f"cannot import _pytask: {type(e).__name__}: {e}") from None
    if not str(Path(_pytask.__file__).resolve()).startswith(str((extract.REPO / "src").resolve())):
        raise _err(f"_pytask imported from {_pytask.__file__}, not from the tree under check")
    nil = _none_is_leaf(tu)
    strict, guarded = _execute_probes()
    repl = _task_produces_replaces()
    keeps = _collapse_keeps_user_nodes()
    falls = _product_falsy_falls_back()
    gdep, gprod, gguard = _generator_probes()
    b = extract.lean_bool
    return [
        "/-- every optree wrapper of `tree_util.py` treats `None` as a leaf (`none_is_leaf=True`). -/",
        f"def treeNoneIsLeaf : Bool := {b(nil)}",
        "/-- `pytask_execute_task` rejects a returned value whose structure equals the declared one (`is_prefix(…, strict=True)`). -/",
        f"def returnPrefixStrict : Bool := {b(strict)}",
        "/-- products are passed as keyword arguments only `if name in parameters`. -/",
        f"def productsNeedParameter : Bool := {b(guarded)}",
        "/-- `@task(produces=…)` re-binds the whole products dict (`out = {\"return\": …}`) instead of adding a key. -/",
        f"def taskProducesReplaces : Bool := {b(repl)}",
        "/-- a container argument holding a user-written node is not folded into one `PythonNode` (fix 594c921). -/",
        f"def collapseKeepsUserNodes : Bool := {b(keeps)}",
        "/-- a falsy declared product value falls through to the annotation / `None` (`kwargs.get(name) or …`; removed by fix 123c420). -/",
        f"def productFalsyFallsBack : Bool := {b(falls)}",
        "/-- task generators (`provisional.pytask_execute_task`): `is_product` used for dependencies / products, and the parameter guard. -/",
        f"def generatorDepsAsProducts : Bool := {b(gdep)}",
        f"def generatorProductsAsProducts : Bool := {b(gprod)}",
        f"def generatorProductsNeedParameter : Bool := {b(gguard)}",
        "",
    ]
