"""C01 — tasks run after everything they depend on, at most once per build."""
from impl import engine, sorter_api

ASSUMPTIONS = [
    "networkx trusted (cross-checked by the model on every case)",
    "the observed pick order of each real build is replayed in the model and must be a legal schedule; theorems quantify over all legal schedules",
    "PYTHONHASHSEED sampled (8 quick / 16 thorough) to vary set-iteration order",
    "pytask-parallel is outside the repo: batch sizes n>1 and completion orders are covered at the TopologicalSorter API level",
]
KINDS_API = {"order", "once", "live", "cycle"}


def oracle(hist, records):
    bad = []
    for rec in records:
        if rec["step"][0] != "build":
            continue
        spec, obs = rec["spec"], rec["obs"]
        if obs.get("raised") or obs.get("exit") not in (0, 1):
            continue
        edges = engine.spec_task_edges(spec)
        f1 = engine.f1_edges(spec)
        log = obs["log"]
        rep_order = [engine.name_to_id(r[0]) for r in obs["reports"]]
        starts = {}
        for idx, e in enumerate(log):
            if e[0] == "S":
                t = int(e[1])
                if t in starts:
                    bad.append(("once", f"body of task {t} invoked more than once in one build (log {log})", None))
                starts.setdefault(t, idx)
        ends = {int(e[1]): idx for idx, e in enumerate(log) if e[0] in ("E", "X")}
        for t, sidx in starts.items():
            for u in engine.closure(edges, t, forward=False):
                ok = (u in ends and ends[u] < sidx and (u not in starts or starts[u] < sidx))
                if u not in starts:
                    # ancestor not executed: its report must precede t's report
                    ok = u in rep_order and t in rep_order and rep_order.index(u) < rep_order.index(t)
                if not ok:
                    # known finding F1: does u still precede t without the product-less after-edges?
                    finding = None if u in engine.closure(edges - f1, t, forward=False) else "F1"
                    bad.append(("order", f"task {t} started before its ancestor {u} had finished (log {log}, reports {rep_order})", finding))
    return bad


def histories(ctx):
    rng = ctx.rng
    hs = []
    # corpus first: the F1 witness
    f1 = {"tag": "corpus-F1", "spec": {"tasks": [
        {"id": 0, "module": 0, "deps": [], "prods": [], "after": [], "marks": [], "beh": "ok", "style": "default", "force_decorator": True}] + [
        {"id": i, "module": 0, "deps": [], "prods": [], "after": [0], "after_style": "func", "marks": [], "beh": "ok", "style": "default"} for i in (1, 2, 3)],
        "versions": {"0": 0}, "inputs": {}}, "steps": [["build", {}]]}
    hs += [f1] * 8   # one per build server / PYTHONHASHSEED: the order flips only for some seeds
    for i in range(ctx.scale(90, 900)):
        spec = engine.gen_spec(rng, nt=(2, 7), after_p=0.45, prodless_p=0.3,
                               marks=(("try_first", 0.2), ("try_last", 0.2)), marks_below_p=0.5, user_markers=True)
        steps = [["build", {}]]
        if rng.random() < 0.3:
            steps.append(["build", {"force": True}])
        if rng.random() < 0.25:
            # spelling: every node path goes through a symlinked directory (absolute, unresolved); plain Path defaults,
            # kwargs and PathNode objects of different tasks must still denote ONE node per file, else the edge is lost
            spec["data_via_link"] = True
        hs.append({"tag": "rand", "spec": spec, "steps": steps})
    # after-expressions are matched case-insensitively: spell some of them in upper / mixed case (the edge must not depend on it)
    from impl import project as _pj
    for h in hs:
        for t in h["spec"]["tasks"]:
            if t.get("after") and t.get("after_style") == "expr" and rng.random() < 0.5 and all(
                    u["prods"] for u in h["spec"]["tasks"] if u["id"] in t["after"]):
                names = [_pj.tname(a) for a in t["after"]]
                t["after_expr"] = " or ".join(n.upper() if rng.random() < 0.6 else n.title() for n in names)
    hs.append({"tag": "corpus-after-case", "spec": {"tasks": [
        {"id": 0, "module": 0, "deps": [], "prods": [20], "after": [], "marks": ["try_last"], "beh": "ok", "style": "default"},
        {"id": 1, "module": 0, "deps": [], "prods": [21], "after": [0], "after_style": "expr", "after_expr": "TASK_T00X", "marks": ["try_first"],
         "beh": "ok", "style": "default"}], "versions": {"0": 0}, "inputs": {}}, "steps": [["build", {}]]})
    # corpus: producer declares the file as a plain Path default, the try_first consumer as a PathNode object, both through the link
    hs.append({"tag": "corpus-spelling", "spec": {"data_via_link": True, "tasks": [
        {"id": 0, "module": 0, "deps": [], "prods": [20], "after": [], "marks": [], "beh": "ok", "style": "default"},
        {"id": 1, "module": 0, "deps": [20], "prods": [21], "after": [], "marks": ["try_first"], "beh": "ok", "style": "annotated"},
        {"id": 2, "module": 0, "deps": [21], "prods": [22], "after": [], "marks": ["try_first"], "beh": "ok", "style": "kwargs"}],
        "versions": {"0": 0}, "inputs": {}}, "steps": [["build", {}]]})
    return hs


def run(ctx):
    ctx.rule = ("(a) op sequences on the real TopologicalSorter (exhaustive ≤3-4 tasks + random, with mid-build re-creation) and "
                "(b) generated projects (all declaration styles, after as function/list/expression, upstream with and without products) built "
                "through pytask.build under several PYTHONHASHSEEDs, body start/end log replayed in the Lean engine; non-trivial = ≥2 bodies ran and "
                "the spec has ≥1 dependency edge; (c) projects whose graph grows during the build (task generators, directory-pattern nodes, "
                "after-expressions matching generated tasks; generator/oracle of the C18 check restricted to the order / once rules); "
                "distinct by canonical (spec, steps)")
    sorter_api.campaign(ctx, KINDS_API, quick_random=200, thorough_random=4000)
    hs = histories(ctx)

    def nontrivial(h, recs):
        b = [r for r in recs if r["step"][0] == "build"]
        return bool(b) and sum(1 for e in b[0]["obs"]["log"] if e[0] == "S") >= 2 and len(engine.spec_task_edges(h["spec"])) >= 1

    engine.run_campaign(ctx, hs, oracle, nontrivial=nontrivial)
    engine.run_campaign(ctx, memlink_histories(ctx), oracle, nontrivial=nontrivial, compare_model=False)
    provisional_stream(ctx)
    # the F1 witness must still be detected (self-test of the oracle) unless it has been repaired
    ctx.extra["f1_witness_detected"] = "F1" in {v["finding"] for v in ctx.violations}


def memlink_histories(ctx):
    """Values handed from task to task through shared in-memory PythonNode objects (`mem_out` / `mem_in`), with and without an
    initial value on the node, consumer defined / prioritised before the producer; one or two builds. Implementation-only oracle
    (order / once): M6 has no in-memory nodes."""
    rng = ctx.rng
    hs = []
    for preset in (False, True):
        for marks in ([], ["try_first"]):
            hs.append({"tag": "memlink", "spec": {"mem_preset": preset, "tasks": [
                {"id": 0, "module": 0, "deps": [], "prods": [20], "after": [], "marks": list(marks), "beh": "ok", "style": "default", "mem_in": [1]},
                {"id": 1, "module": 0, "deps": [], "prods": [21], "after": [], "marks": [], "beh": "ok", "style": "default", "mem_out": True},
                {"id": 2, "module": 0, "deps": [], "prods": [22], "after": [], "marks": list(marks), "beh": "ok", "style": "default", "mem_in": [0]}],
                "versions": {"0": 0}, "inputs": {}}, "steps": [["build", {}], ["build", {"force": True}]]})
    hs[0]["spec"]["tasks"][0]["mem_out"] = hs[1]["spec"]["tasks"][0]["mem_out"] = True
    hs[2]["spec"]["tasks"][0]["mem_out"] = hs[3]["spec"]["tasks"][0]["mem_out"] = True
    for _ in range(ctx.scale(16, 200)):
        spec = engine.gen_spec(rng, nt=(3, 6), after_p=0.2, after_needs_prods=True, prodless_p=0.0, dens=0.3,
                               styles=("default", "annotated", "kwargs"), marks=(("try_first", 0.3), ("try_last", 0.2)))
        spec["mem_preset"] = rng.random() < 0.6
        ids = [t["id"] for t in spec["tasks"]]
        for t in spec["tasks"]:
            cands = [i for i in ids if i != t["id"] and t["id"] not in engine.closure(engine.spec_task_edges(spec), i, forward=False) and i != t["id"]]
            if cands and rng.random() < 0.5:
                u = rng.choice(cands)
                if t["id"] in engine.closure(engine.spec_task_edges(spec), u, forward=False) or u in engine.closure(engine.spec_task_edges(spec), t["id"], forward=True):
                    continue
                # t consumes the in-memory product of u (keep the graph acyclic: u must not depend on t)
                if t["id"] in engine.closure(engine.spec_task_edges(spec), u, forward=False):
                    continue
                next(x for x in spec["tasks"] if x["id"] == u)["mem_out"] = True
                t.setdefault("mem_in", []).append(u)
        steps = [["build", {}]] + ([["build", {"force": True}]] if rng.random() < 0.5 else [])
        hs.append({"tag": "memlink", "spec": spec, "steps": steps})
    return hs


PROV_KINDS = {"order", "after", "once", "generated", "build"}


def provisional_stream(ctx, hs=None):
    """(c) graphs that grow during the build: task generators, directory-pattern nodes, after-expressions matching generated
    tasks — the scheduler is re-created mid-build (from_dag_and_sorter). Project generator, runner and oracle are those of the
    C18 check (harness/props/c18.py, impl/prov_api.py); only the order / at-most-once rules are judged here, and every build is
    replayed in the Lean model M7 whose scheduler is M2 (C01_sorter_safe / C01_sorter_once cover re-creation)."""
    from props import c18
    from impl import prov_api as pa
    if hs is None:
        hs = c18.corpus()
        for _ in range(ctx.scale(24, 250)):
            spec = pa.gen_spec(ctx.rng)
            hs.append({"tag": "rand", "spec": spec, "steps": pa.gen_steps(ctx.rng, spec)[:3]})
    recs = c18.run_histories(ctx, hs, nseeds=8)
    drv = ctx.driver() if ctx.use_model else None
    for h, r in zip(hs, recs):
        builds = [x for x in r if x["step"][0] == "build"]
        nt = any(sum(1 for e in b["obs"].get("log", []) if e[0] == "S") >= 2 for b in builds)
        ctx.case(["prov", h["spec"], h["steps"]], nt, None)
        ctx.dist["prov_histories"] += 1
        for kind, msg, finding in c18.oracle(h, r):
            if kind in PROV_KINDS and not finding:
                ctx.violation(f"{kind}: {msg}", {"history": h, "layer": "prov-e2e"}, finding=None)
        if drv is not None and not h.get("nomodel"):
            dis = pa.replay_in_model(drv, h, r)
            ctx.traces_validated += 1
            for (i, what, iv, mv) in dis[:1]:
                ctx.disagreement(f"provisional model, step {i}: {what}: implementation {iv!r}, model {mv!r}",
                                 {"history": h, "step": i, "what": what, "impl": iv, "model": mv, "layer": "prov-e2e"})


def replay(ctx, obj):
    inp = obj["input"]
    if inp.get("layer") == "prov-e2e":
        provisional_stream(ctx, [inp["history"]] * 4)
        if ctx.violations:
            return False, ctx.violations[0]["what"]
        if ctx.disagreements:
            return False, ctx.disagreements[0]["what"]
        return True, "order and at-most-once hold on the stored case"
    if inp.get("layer") == "sorter-api":
        traces = sorter_api.run_workers([inp["case"]], [obj.get("seed", 0) + 1])
        sorter_api.check_traces(ctx, [inp["case"]], traces, KINDS_API)
    else:
        engine.run_campaign(ctx, [inp["history"]] * 8, oracle)
    if ctx.violations:
        return False, ctx.violations[0]["what"]
    if ctx.disagreements:
        return False, ctx.disagreements[0]["what"]
    return True, "order and at-most-once hold on the stored case"
