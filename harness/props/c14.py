"""C14 — captured output is attributed to the task that wrote it, completely and only."""
from impl import capture_api

ASSUMPTIONS = [
    "the operating system is modelled (descriptor table + append-only files with a shared offset); kernel pipe semantics, output a child or thread emits after the task returned, buffers a task leaves unflushed in its own file objects, invalid UTF-8 on the descriptors (errors='replace') and rich's rendering are outside the model",
    "the interpreter's original sys.stdout / sys.stderr are write-through in the model; real runs with PYTHONUNBUFFERED=1 are compared byte-exactly, block-buffered runs only per channel class (Python-level vs descriptor-level order) and as multisets",
    "original streams encode UTF-8 (PYTHONUTF8=1); show_capture='no' when a task fails so that the end-of-build report does not re-print captured text on the terminal",
    "task order is taken from the observed execution reports (hash-seed dependent); theorems quantify over every order",
    "tasks write in the call phase only (setup / teardown windows are exercised with no output)",
]


def run(ctx):
    ctx.rule = ("real pytask.build() in a fresh subprocess with pipes on 1/2, 1-6 tasks x 0-5 writes (print/sys.std*.write/os.write/child processes, "
                "stdout or stderr, unicode bodies incl. \\r, \\r\\n, NUL, astral, no trailing newline, empty writes), tasks failing after writing, 4 capture "
                "methods, random PYTHONHASHSEED; report.sections and pipe bytes vs token accounting and vs the Lean model; non-trivial = >= 2 tasks "
                "write a payload or one task writes >= 2; distinct by canonical (method, writes, fail flags)")
    capture_api.campaign_c14(ctx, ctx.scale(64, 400), workers=8)


def replay(ctx, obj):
    case = obj["input"]["case"]
    obs = capture_api.run_case(case)
    capture_api.check_c14(ctx, ctx.driver() if ctx.use_model else None, case, obs)
    if ctx.violations:
        return False, ctx.violations[0]["what"]
    if ctx.disagreements:
        return False, ctx.disagreements[0]["what"]
    return True, "every payload is in its own task's section / on the prescribed stream, in order, unmodified"
