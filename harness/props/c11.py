"""C11 — 'pytask clean' only ever removes files pytask does not know."""
from impl import clean_api

ASSUMPTIONS = [
    "git (ls-files / rev-parse --show-cdup), pathlib.PurePosixPath.match, shutil.rmtree, Path.iterdir are trusted; git's answers "
    "are inputs of the model (the harness asks git itself with --full-name from the repository top)",
    "regular files and directories only (no symlinks, devices); POSIX paths; names from ASCII plus Latin-1 letters, space, "
    "double quote, backslash (what git C-quotes in line-oriented output) - no control characters (the listing is read from lines)",
    "declared nodes are generated as plain Path, PickleNode, a user-defined class implementing the PPathNode protocol, and "
    "DataCatalog entries registered with an explicit path / PickleNode; all of them are 'declared dependencies or products'",
    "file names are abstract strings in the Lean model (`Name = List Char`, equality only): how git's byte output is decoded and "
    "compared with the names Path.iterdir() returns is NOT modelled; it is covered by the differential `bytes` stream only "
    "(files created through os.fsencode with names that are not valid UTF-8, tracked / staged / untracked, real subprocess, "
    "names compared as bytes with `git ls-files -z`); an abort with non-zero exit that removes nothing tracked is accepted there",
    "tie: Properties/CleanTie.lean proves the hand-written model equal to interpreters of the control structure extracted "
    "from clean.py (extract_cleangen.py) - semantic check per function, so equivalent rewritings keep it, changes of meaning break it",
    "task modules are collected from the given paths only; 'declared' means declared by a collected task",
    "click 8.5 lets a config-file `exclude` key override -e (environment incompatibility shared with the broken `build` CLI): "
    "-e and a config exclude key are never generated together",
    "interactive mode is driven through piped answers (click.confirm); prompts are read from the captured output",
    "the exhaustive node-level stream calls the private helper _find_all_unknown_paths and is skipped if it disappears",
    "'anything matching an exclude pattern' includes the contents of a matching directory that is reached from a given path "
    "(category below-excluded-dir; Lean: C11_below_excluded); a path given explicitly inside an excluded directory is cleaned",
    "F16 decision: the files a DirectoryNode declared by a collected task resolves to ARE 'declared dependencies or products' "
    "(pytask turns them into path nodes before execution); the `dirnode` stream is labelled and its only-dirnode hits are the "
    "known finding F16, everything else in that stream is judged like the cli stream",
    "a run whose dry-run succeeds and whose second run fails is still judged on the dry-run listing; removals of a failing run "
    "are only bounded from above (nothing outside the listing)",
]


def run(ctx):
    ctx.rule = ("real `pytask clean` (CliRunner, fresh scratch projects, dry-run then force/interactive) on generated trees "
                "(depth ≤ 4, ≤ 25 entries) × declared path nodes × git state (none / at root / above root; tracked, staged, "
                "untracked, ignored) × exclude patterns (-e or pyproject) × --directories × path arguments; set-based oracle + "
                "Lean model M8 on the same inputs; exhaustive trees ≤ 3-4 entries × all known/excluded assignments on the node "
                "class; PurePosixPath.match vs model on all patterns ≤ 3-4 atoms. non-trivial = something is listed AND a "
                "protected path exists below the given paths (cli), listing non-empty with a non-empty known/excluded set (node), "
                "pattern matches (pmatch); distinct by canonical project description")
    clean_api.campaign(ctx)


def replay(ctx, obj):
    inp = obj["input"]
    kind = inp.get("kind", "cli")
    if kind == "cli":
        case = inp["case"]
        obs = clean_api.run_workers([case])
        pending = []
        if case.get("stream") == "bytes":
            clean_api.judge_bytes(ctx, case, obs[case["id"]])
        else:
            clean_api.judge(ctx, case, obs[case["id"]], pending)
        clean_api.compare_model(ctx, pending)
    elif kind == "exh":
        job = {"tree": inp["tree"], "assign": [[inp["known"], inp["excluded"], inp["dirs"]]]}
        res = clean_api.run_exh([job])
        if res and res[0].get("unavailable"):
            return True, "node-level helper unavailable: " + res[0]["unavailable"]
        clean_api.exh_judge(ctx, [job], res)
    elif kind == "pmatch":
        want = clean_api.py_match(inp["path"], inp["pat"])
        if ctx.use_model and want is not None:
            ans = ctx.driver().ask(f"clean.pmatch path={clean_api.enc_path(inp['path'])} pat={clean_api.enc(inp['pat'])}")
            if ans != ("1" if want else "0"):
                return False, f"pmatch-differs: python={want} model={ans}"
        return True, "pmatch agrees"
    fresh = [v for v in ctx.violations if not v["finding"]]
    if fresh:
        return False, fresh[0]["what"]
    if ctx.violations:
        return False, f"known finding {ctx.violations[0]['finding']}: {ctx.violations[0]['what']}"
    if ctx.disagreements:
        return False, ctx.disagreements[0]["what"]
    return True, "clean removed/offered only unknown paths on the stored input; model agrees"
