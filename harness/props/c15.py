"""C15 — a finished build leaves the calling process as it found it."""
from impl import capture_api

ASSUMPTIONS = [
    "the operating system and CPython's garbage collector are modelled: the model predicts growth of the number of open descriptors per build (after dropping the session and gc.collect()), not absolute numbers; the first build of a process may open the sqlite database once",
    "descriptor budgets of imported libraries (rich, sqlalchemy pools beyond one connection) and pdb interaction are outside the model",
    "builds are compared with fresh-process builds over a copy of the same project, build by build (same PYTHONHASHSEED)",
    "a task that closes sys.stdout while captured (sub-project closer) is generated only as the last build of a process and never with capture=no; closed stream objects are outside the Lean model (no correspondence for that build, oracle only)",
    "configuration failures are generated in pytask_parse_config (invalid capture method) and in database.pytask_post_parse (corrupt database file); after the latter the ExecutionReport/Traceback class variables set by logging.pytask_post_parse stay until the next configured build (not named by the property, not claimed)",
    "outcome vectors (skip / would-be-executed / selections through -k and -m, marks on task functions) are compared with fresh-process builds by the oracle only; the Lean model of repeated builds (collectedAt, C15_samebuilds_*) speaks about which functions are collected and assumes nothing about marks",
]


def run(ctx):
    ctx.rule = ("one real process (stdin/stdout/stderr pipes) runs 2-8 pytask.build() calls over fixed sources: sub-projects ok / @task-decorated / failing task / "
                "failing import / cyclic DAG, capture fd|sys|tee-sys|no, verbose 0-2, force, dry-run, invalid configuration; before/after each build: fstat(0..2), "
                "/proc/self/fd, identity of sys.std*, cwd, warnings.filters, pdb.set_trace, registries; outcomes vs the same build in a fresh process; "
                "the same sequence replayed in the Lean model; non-trivial = >= 2 builds and some build executed a task; distinct by canonical sequence")
    capture_api.campaign_c15(ctx, ctx.scale(5, 60), workers=10)
    ctx.extra["oracle_only"] = [
        "per-task outcomes of consecutive builds (skip / would-be-executed / -k and -m selections / marks on task functions, F30) = outcomes of "
        "fresh-process builds: compared by oracle_c15 on every sequence; the Lean model takes outcomes as inputs (TaskIO) and proves only that the "
        "collected task set and the collection verdict are independent of earlier builds (C15_samebuilds_seq, C15_samebuilds_partial)",
        "a task that closes sys.stdout while captured (sub-project closer): closed stream objects are outside the model",
    ]
    found = {v["finding"] for v in ctx.violations}
    ctx.extra["f6b_witness_detected"] = "F6b" in found
    ctx.extra["f6c_witness_detected"] = "F6c" in found
    ctx.extra["f7_witness_detected"] = "F7" in found


def replay(ctx, obj):
    seq = obj["input"]["seq"]
    obs = capture_api.run_seq(seq)
    capture_api.check_c15(ctx, ctx.driver() if ctx.use_model else None, seq, obs)
    fresh = [v for v in ctx.violations if not v["finding"]]
    if fresh:
        return False, fresh[0]["what"]
    if ctx.disagreements:
        return False, ctx.disagreements[0]["what"]
    if ctx.violations:
        return False, "known finding: " + ctx.violations[0]["what"]
    return True, "process state restored and outcomes equal to fresh-process builds on the stored sequence"
