"""C04 — failures are contained: dependants skipped, others run, nothing recorded."""
from impl import engine

ASSUMPTIONS = [
    "fault kinds injected: exception before / after writing products, sys.exit() / sys.exit('msg') / sys.exit(n) before or after writing, "
    "omitted product, deleted input (missing dependency); "
    "failing load/save of custom nodes is exercised by the C08 campaign",
    "after-targets always have products in this campaign (finding F1 is scoped to C01)",
    "tasks carry skipif(False), try_first / try_last and user markers at random: marks that must be irrelevant to containment "
    "(skipif(False) is no flag in the model, try_first / try_last are the model's priorities)",
    "observed schedule replayed in the Lean engine; theorems hold for every legal schedule",
    "stream 'latelink' (a DirectoryNode dependency whose pattern matches the ordinary product file of another, failing task: the edge "
    "appears only when the DAG is re-created): implementation-only oracle without model replay",
    "stream 'dirlink' (a DirectoryNode product next to file products, consumers of the DirectoryNode, the producer failing in its body or "
    "in teardown): no provisional nodes in M6 (they are M7's, property C18), implementation-only oracle without model replay",
    "stream 'memlink' (product -> dependency links through an in-memory PythonNode whose producer fails): no in-memory nodes in M6, "
    "implementation-only oracle (contain, limit, exit) without model replay",
    "stream 'generator' (task generators with products / dependants / after-links, failing, under failure limits): the static engine "
    "model M6 has no generators, so this stream is checked by the implementation-only oracle (contain, limit, exit) without model replay",
]


# failure kinds: an exception before / after the products are written, an omitted product, and script-style bodies that call
# sys.exit() / sys.exit("msg") / sys.exit(n) before or after writing (SystemExit is a failure of that task like any other)
SYS = ("sysexit", "sysexit_none", "sysexit_msg", "sysexit_late")
BEHS = ("ok",) * 7 + ("early", "late", "omit") + SYS
BEHS_NO_OMIT = ("ok",) * 6 + ("early", "late") + SYS
FAILING = ("early", "late", "late") + SYS


def lim(rng, n):
    """a build configuration with failure limit n (None = no limit) and a random SOURCE of the limit: keyword argument max_failures,
    keyword argument stop_after_first_failure, the project's config file (max_failures / stop_after_first_failure), or both (same value)"""
    cfg = {"maxfail": n}
    if n is not None:
        cfg["maxfail_src"] = rng.choice(["kwarg", "kwarg", "config", "both"] + (["kwarg_stop", "config_stop"] if n == 1 else []))
    return cfg


def ext_spec(spec):
    """the spec including the tasks that its task generators create (child 50+id of generator id; optional `gen_child_deps`)"""
    gens = [t for t in spec["tasks"] if t.get("gen")]
    if not gens:
        return spec
    s = dict(spec)
    s["tasks"] = list(spec["tasks"]) + [
        {"id": 50 + t["id"], "module": t["module"], "deps": list(t.get("gen_child_deps", [])), "prods": [7000 + t["id"]], "after": [],
         "marks": list(t.get("gen_marks", [])), "beh": "ok"} for t in gens]
    return s


def oracle(hist, records):
    bad = []
    prev = None
    for rec in records:
        if rec["step"][0] != "build":
            if rec["step"][0] != "touch":
                prev = None if rec["step"][0] in ("respec",) else prev
            if rec["step"][0] in ("write", "delete", "bump", "setver", "setbeh", "respec"):
                prev = None
            continue
        spec, obs, cfg = rec["spec"], rec["obs"], rec["cfg"]
        if obs.get("raised") or obs.get("exit") not in (0, 1):
            bad.append(("exit", f"build raised or returned exit {obs.get('exit')} / {obs.get('raised')} for a project whose only faults are task failures", None))
            prev = None
            continue
        edges = engine.spec_task_edges(ext_spec(spec))     # incl. generated tasks that consume products of other tasks
        out = engine.outcomes(obs)
        ex = engine.executed(obs)
        order = [engine.name_to_id(r[0]) for r in obs["reports"]]
        failed = [t for t in order if out[t] == "FAIL"]
        # `late_deps`: a DirectoryNode dependency whose pattern matches the ordinary product file n of another task u. The link only
        # appears when the consumer's setup resolves the pattern: if the file existed then (before the build, or written by u's body
        # in this build) and u was processed before the consumer, the consumer depends on u
        if any(t.get("late_deps") for t in spec["tasks"]):
            prod_of = {p: u["id"] for u in spec["tasks"] for p in u["prods"]}
            edges = set(edges)
            for t in spec["tasks"]:
                for n in t.get("late_deps", []):
                    u = prod_of.get(n)
                    if u is None or u == t["id"] or u not in order or t["id"] not in order or order.index(u) > order.index(t["id"]):
                        continue
                    if rec["pre"].get(n) is not None or (u in ex and rec["post"].get(n) is not None):
                        edges.add((u, t["id"]))
        for f in failed:
            for d in engine.closure(edges, f, forward=True):
                if d in ex:
                    bad.append(("contain", f"task {d} depends on failed task {f} but its body ran (log {obs['log']})", None))
                if out.get(d) in ("SUCCESS", "PERSISTENCE"):
                    bad.append(("contain", f"task {d} depends on failed task {f} but is reported {out[d]} (its states are recorded from the "
                                           f"failed run's output); reports {obs['reports']}", None))
        mf = cfg.get("maxfail")
        stopped = mf is not None and len(failed) >= mf
        if mf is not None:
            if len(failed) > mf:
                bad.append(("limit", f"{len(failed)} failures reported with max_failures={mf}", None))
            if stopped:
                nth = order.index(failed[int(mf) - 1])
                if len(order) > nth + 1:
                    bad.append(("limit", f"tasks {order[nth+1:]} were processed after failure #{mf}", None))
        if not stopped:
            ids = {t["id"] for t in spec["tasks"]}
            if set(order) != ids or len(order) != len(ids):
                bad.append(("others", f"not every task has exactly one report: {order} vs {sorted(ids)}", None))
            blocked = set()
            for f in failed:
                blocked |= engine.closure(edges, f, forward=True)
            for t in ids - blocked:
                if out.get(t) == "SKIP_PREVIOUS_FAILED":
                    bad.append(("others", f"task {t} does not depend on any failed task but was skipped as 'previous failed'", None))
        if (obs["exit"] == 1) != bool(failed):
            bad.append(("exit", f"exit code {obs['exit']} with failed tasks {failed}", None))
        # nothing recorded: a task that failed last time must not be 'unchanged' now (no edits in between)
        if prev is not None and not cfg.get("dry"):
            for t, o in prev.items():
                if o == "FAIL" and out.get(t) == "SKIP_UNCHANGED":
                    bad.append(("norecord", f"task {t} failed in the previous build and is reported unchanged now", None))
        prev = out if not cfg.get("dry") else prev
    return bad


def histories(ctx):
    rng = ctx.rng
    hs = []
    for i in range(ctx.scale(90, 1200)):
        # markers that must be irrelevant to containment: skipif(False), try_first / try_last, user markers
        spec = engine.gen_spec(rng, nt=(2, 7), after_p=0.25, after_needs_prods=True, behs=BEHS,
                               marks=(("skipif_false", 0.3), ("try_first", 0.12), ("try_last", 0.12)), user_markers=True)
        cfg = lim(rng, rng.choice([None, None, 1, 2, 3]))
        if rng.random() < 0.25:
            cfg["force"] = True
        steps = [["build", cfg]]
        if rng.random() < 0.3:   # missing input
            ins = [int(k) for k in spec["inputs"]]
            steps.insert(0, ["delete", rng.choice(ins)])
        steps.append(["build", lim(rng, rng.choice([None, 1, 2]))])
        fails = [t for t in spec["tasks"] if t["beh"] != "ok"]
        if fails and rng.random() < 0.7:
            f = rng.choice(fails)
            steps.append(["setbeh", f["id"], "ok"])
            steps.append(["build", {}])
            if rng.random() < 0.4:
                steps.append(["setbeh", f["id"], f["beh"]])
                steps.append(["build", {}])
        hs.append({"tag": "rand", "spec": spec, "steps": steps})
    # persist-marked dependants of a task that starts to fail after a good build and an edited input:
    # build -> edit input -> failing build -> build
    for i in range(ctx.scale(14, 200)):
        spec = engine.gen_spec(rng, nt=(3, 7), after_p=0.2, after_needs_prods=True, behs=("ok",), prodless_p=0.05, dens=0.8,
                               marks=(("skipif_false", 0.15),), user_markers=True)
        edges = engine.spec_task_edges(spec)
        cands = [t for t in spec["tasks"] if engine.closure(edges, t["id"], forward=True) and t["prods"]]
        if not cands:
            continue
        f = rng.choice(cands)
        desc = sorted(engine.closure(edges, f["id"], forward=True))
        byid = {t["id"]: t for t in spec["tasks"]}
        for d in rng.sample(desc, rng.randint(1, min(2, len(desc)))):
            if byid[d]["prods"]:
                byid[d]["marks"] = sorted(set(byid[d]["marks"]) | {"persist"})
        ups = engine.closure(edges, f["id"], forward=False) | {f["id"]}
        ins = sorted({d for u in ups for d in byid[u]["deps"]} & {int(k) for k in spec["inputs"]}) or [int(k) for k in spec["inputs"]]
        beh = rng.choice(["late", "late", "sysexit_late", "early", "sysexit_msg", "omit:0"])
        steps = [["build", {}], ["write", rng.choice(ins), rng.randint(100, 999)], ["setbeh", f["id"], beh],
                 ["build", lim(rng, rng.choice([None, None, 2]))], ["build", {}]]
        hs.append({"tag": "persist-dependant", "spec": spec, "steps": steps})
    return hs


def memlink_histories(ctx):
    """Labelled stream "memlink": some product -> dependency links go through an in-memory PythonNode (the producer's `mem_out`
    product is the consumer's `mem_in` dependency; in the DAG: producer -> node -> consumer), the producer fails. The static engine
    model has no in-memory nodes: implementation-only oracle (contain / limit / exit)."""
    rng = ctx.rng
    hs = []
    for i in range(ctx.scale(20, 300)):
        spec = engine.gen_spec(rng, nt=(3, 7), after_p=0.15, after_needs_prods=True, prodless_p=0.05, dens=0.9,
                               behs=BEHS_NO_OMIT, styles=("default", "annotated", "kwargs"),
                               marks=(("skipif_false", 0.15),), user_markers=True)
        prod_of = {p: t["id"] for t in spec["tasks"] for p in t["prods"]}
        byid = {x["id"]: x for x in spec["tasks"]}
        linked = []
        for t in spec["tasks"]:
            for d in list(t["deps"]):
                u = prod_of.get(d)
                if u is not None and u != t["id"] and rng.random() < 0.6:
                    byid[u]["mem_out"] = True
                    if u not in t.setdefault("mem_in", []):
                        t["mem_in"].append(u)
                    if rng.random() < 0.7:
                        t["deps"].remove(d)        # the in-memory node is the only link
                    linked.append(u)
        if not linked:
            continue
        if rng.random() < 0.8:                      # the producer of a link fails
            u = byid[rng.choice(linked)]
            if u["beh"] == "ok":
                u["beh"] = rng.choice(FAILING)
        steps = [["build", lim(rng, rng.choice([None, None, 1, 2]))], ["build", {}]]
        hs.append({"tag": "memlink", "spec": spec, "steps": steps})
    return hs


def dirlink_histories(ctx):
    """Labelled stream "dirlink": a task with a directory-pattern (provisional `DirectoryNode`) product next to its file products,
    consumers that depend on that DirectoryNode (alone or next to file links) and tasks below them; the producer fails in its body
    or by not creating one of its file products (so it fails only in teardown, after its body wrote the directory). The static
    engine model has no provisional nodes: implementation-only oracle (contain / limit / exit)."""
    rng = ctx.rng
    hs = []

    def t(i, deps, prods, **kw):
        return dict({"id": i, "module": 0, "deps": deps, "prods": prods, "after": [], "marks": [], "beh": "ok", "style": "default"}, **kw)
    # corpus: F32 (fixed in 9523bbe) — the producer writes its directory but not its file product 111 (fails in teardown); task 1 consumes
    # the directory only, task 2 a product of task 1, task 3 is independent
    f32 = {"tasks": [t(0, [100], [110, 111], dirprod="a", beh="omit:1"), t(1, [], [120], dirdep=[0]), t(2, [120], [130]), t(3, [100], [140])],
           "versions": {"0": 0}, "inputs": {"100": 5}}
    hs.append({"tag": "dirlink", "spec": f32, "steps": [["build", {}], ["build", {}]]})
    for i in range(ctx.scale(16, 300)):
        spec = engine.gen_spec(rng, nt=(3, 7), after_p=0.1, after_needs_prods=True, prodless_p=0.05, dens=0.8,
                               behs=("ok",) * 8 + ("late", "sysexit_late"), styles=("default", "annotated", "kwargs"),
                               marks=(("skipif_false", 0.1),), user_markers=True)
        tasks = spec["tasks"]
        aftered = {a for t in tasks for a in t["after"]}
        prods_of = [t for t in tasks[:-1] if t["prods"] and t["id"] not in aftered]
        if not prods_of:
            continue
        for u in rng.sample(prods_of, rng.randint(1, min(2, len(prods_of)))):
            u["dirprod"] = rng.choice(["a", "z"])
            if u.get("style") == "return":
                u["style"] = "default"
            later = [t for t in tasks if t["id"] > u["id"]]
            for v in rng.sample(later, rng.randint(1, min(2, len(later)))):
                v.setdefault("dirdep", []).append(u["id"])
                if rng.random() < 0.5:
                    v["deps"] = [d for d in v["deps"] if d not in u["prods"]]     # the directory is the only link
            r = rng.random()
            if r < 0.5:
                u["beh"] = f"omit:{rng.randrange(len(u['prods']))}"              # fails in teardown: a file product is never created
            elif r < 0.8:
                u["beh"] = rng.choice(["late", "early", "sysexit_late", "sysexit"])
        steps = [["build", lim(rng, rng.choice([None, None, 1, 2]))], ["build", {}]]
        hs.append({"tag": "dirlink", "spec": spec, "steps": steps})
    return hs


def latelink_histories(ctx):
    """Labelled stream "latelink": a consumer depends on `DirectoryNode(pattern matching the ORDINARY product file of another task)`
    (`late_deps`): both tasks exist from the start, the edge between them only appears when the consumer's setup resolves the pattern
    and the DAG is re-created. The producer fails after writing the file, or fails with the file left over from an earlier build;
    priorities and hash seeds vary who is handed out first. Implementation-only oracle (contain / limit / exit)."""
    rng = ctx.rng
    hs = []

    def t(i, mod, deps, prods, **kw):
        return dict({"id": i, "module": mod, "deps": deps, "prods": prods, "after": [], "marks": [], "beh": "ok", "style": "default"}, **kw)
    for beh in ("late", "sysexit_late"):
        for pmarks, cmarks in (([], []), (["try_first"], []), ([], ["try_last"])):
            spec = {"tasks": [t(0, 0, [100], [110], beh=beh, marks=list(pmarks)),
                              t(1, 1, [], [111], late_deps=[110], style="annotated", marks=list(cmarks)), t(2, 2, [111], [112])],
                    "versions": {"0": 0, "1": 0, "2": 0}, "inputs": {"100": 5}}
            hs.append({"tag": "latelink", "spec": spec, "steps": [["build", {}], ["build", {}]]})
    # left-over file: a good build, then the producer starts to fail before writing anything
    for beh in ("early", "sysexit_none"):
        spec = {"tasks": [t(0, 0, [100], [110], marks=["try_first"]), t(1, 1, [], [111], late_deps=[110], style="annotated"), t(2, 2, [111], [112])],
                "versions": {"0": 0, "1": 0, "2": 0}, "inputs": {"100": 5}}
        hs.append({"tag": "latelink", "spec": spec, "steps": [["build", {}], ["setbeh", 0, beh], ["bump", 1], ["build", {}]]})
    for i in range(ctx.scale(8, 200)):
        spec = engine.gen_spec(rng, nt=(3, 6), after_p=0.1, after_needs_prods=True, dens=0.8, prodless_p=0.05, nomods=(2, 3),
                               styles=("default", "annotated"), behs=("ok",),
                               marks=(("try_first", 0.15), ("try_last", 0.15), ("skipif_false", 0.1)))
        prod_of = {p: u for u in spec["tasks"] for p in u["prods"]}
        prods = []
        for c in spec["tasks"]:
            for d in list(c["deps"]):
                if d in prod_of and prod_of[d]["id"] != c["id"] and rng.random() < 0.6:
                    c["deps"].remove(d)
                    c.setdefault("late_deps", []).append(d)
                    prods.append(prod_of[d])
        if not prods:
            continue
        u = rng.choice(prods)
        cfg = lim(rng, rng.choice([None, None, 1, 2]))
        if rng.random() < 0.5:
            u["beh"] = rng.choice(["late", "late", "sysexit_late"])
            steps = [["build", cfg], ["build", {}]]
        else:
            beh = rng.choice(["early", "late", "sysexit_none", "sysexit_late"])
            steps = [["build", {}], ["setbeh", u["id"], beh]] + [["bump", m] for m in sorted({x["module"] for x in spec["tasks"]})] + [["build", cfg]]
        hs.append({"tag": "latelink", "spec": spec, "steps": steps})
    return hs


def generator_histories(ctx):
    """Labelled stream "generator": some tasks are task generators (@task(is_generator=True)) with products, dependants and
    after-links, failing before or after writing their products, under failure limits. The static Lean engine has no generators:
    implementation-only oracle (contain / limit / exit)."""
    rng = ctx.rng
    hs = []

    def t(i, deps, prods, **kw):
        return dict({"id": i, "module": 0, "deps": deps, "prods": prods, "after": [], "marks": [], "beh": "ok", "style": "default"}, **kw)
    # corpus: F37 — task 0 writes its product and raises; the try_last generator 1 then creates task 51, which consumes that product
    f37 = {"tasks": [t(0, [100], [110], beh="late"), t(1, [100], [111], gen=True, gen_child_deps=[110], marks=["try_last"])],
           "versions": {"0": 0}, "inputs": {"100": 5}}
    hs.append({"tag": "generator", "spec": f37, "steps": [["build", {}], ["build", {}]]})
    for i in range(ctx.scale(24, 400)):
        spec = engine.gen_spec(rng, nt=(3, 7), after_p=0.3, after_needs_prods=True, prodless_p=0.05, dens=0.8,
                               behs=BEHS_NO_OMIT, styles=("default", "annotated", "kwargs"),
                               marks=(("skipif_false", 0.25), ("try_first", 0.1), ("try_last", 0.1)), user_markers=True)
        consumed = {d for t in spec["tasks"] for d in t["deps"]} | {p for t in spec["tasks"] for a in t.get("after", [])
                                                                    for u in spec["tasks"] if u["id"] == a for p in u["prods"]}
        with_dependants = [t for t in spec["tasks"] if set(t["prods"]) & consumed]
        pool = with_dependants if (with_dependants and rng.random() < 0.8) else spec["tasks"]
        for t in rng.sample(pool, min(len(pool), rng.randint(1, 2))):
            t["gen"] = True
            if rng.random() < 0.6:
                t["beh"] = rng.choice(FAILING)
        # the task a generator creates may consume products of other tasks (which may fail before or after the generator runs,
        # having written the product or not, or with the product left over from an earlier build)
        for t in spec["tasks"]:
            if t.get("gen") and rng.random() < 0.7:
                pool = [p for u in spec["tasks"] if u["id"] != t["id"] for p in u["prods"]]
                if pool:
                    t["gen_child_deps"] = sorted(rng.sample(pool, rng.randint(1, min(2, len(pool)))))
                    if rng.random() < 0.5 and "try_first" not in t["marks"]:
                        t["marks"] = sorted(set(t["marks"]) | {"try_last"})
                    if rng.random() < 0.7:
                        prod_of = {p: u for u in spec["tasks"] for p in u["prods"]}
                        u = prod_of[rng.choice(t["gen_child_deps"])]
                        if u["beh"] == "ok" and not u.get("gen"):
                            u["beh"] = rng.choice(["late", "late", "sysexit_late", "early", "sysexit_none"])
        cfg = lim(rng, rng.choice([None, 1, 1, 2]))
        steps = [["build", cfg]]
        gens = [t for t in spec["tasks"] if t.get("gen")]
        if rng.random() < 0.5:
            # products left over from a build in which the generator worked, then it starts to fail
            g = rng.choice(gens)
            beh = g["beh"] if g["beh"] != "ok" else "early"
            g["beh"] = "ok"
            steps = [["build", {}], ["setbeh", g["id"], beh], ["build", cfg]]
        elif rng.random() < 0.4:
            # left-over product: the producer of a child's dependency fails (before writing) only after a good build
            fl = [u for u in spec["tasks"] if u["beh"] in FAILING and not u.get("gen")
                  and any(set(u["prods"]) & set(g_.get("gen_child_deps", [])) for g_ in gens)]
            if fl:
                u = rng.choice(fl)
                beh = u["beh"]
                u["beh"] = "ok"
                steps = [["build", {}], ["setbeh", u["id"], beh], ["build", cfg]]
        steps.append(["build", lim(rng, rng.choice([None, 1, 2]))])
        hs.append({"tag": "generator", "spec": spec, "steps": steps})
    return hs


def nontrivial_gen(h, recs):
    gens = {t["id"] for t in h["spec"]["tasks"] if t.get("gen")}
    for x in recs:
        if x["step"][0] == "build":
            for r in x["obs"].get("reports", []):
                if r[1] == "FAIL" and engine.name_to_id(r[0]) in gens:
                    return True
    return False


def nontrivial(h, recs):
    b = [r for r in recs if r["step"][0] == "build"]
    return any(any(r[1] == "FAIL" for r in x["obs"].get("reports", [])) for x in b)


def run(ctx):
    ctx.rule = ("generated projects with injected task failures (raise early/late, omitted product, deleted input), max_failures ∈ {inf,1,2,3}, ±force, "
                "followed by repeat builds and builds with the failure switched off/on; non-trivial = some build reports ≥1 FAIL; distinct by (spec, steps)")
    engine.run_campaign(ctx, histories(ctx), oracle, nontrivial=nontrivial, sel_eval=engine.sel_eval)
    # labelled stream "generator" (no model replay: the static engine model has no task generators)
    before = len(ctx.nontrivial)
    engine.run_campaign(ctx, generator_histories(ctx), oracle, kinds={"contain", "limit", "exit"}, nontrivial=nontrivial_gen,
                        sel_eval=engine.sel_eval, compare_model=False)
    ctx.extra["generator_stream_nontrivial"] = len(ctx.nontrivial) - before
    before = len(ctx.nontrivial)
    engine.run_campaign(ctx, memlink_histories(ctx), oracle, kinds={"contain", "limit", "exit"}, nontrivial=nontrivial,
                        sel_eval=engine.sel_eval, compare_model=False)
    ctx.extra["memlink_stream_nontrivial"] = len(ctx.nontrivial) - before
    before = len(ctx.nontrivial)
    engine.run_campaign(ctx, dirlink_histories(ctx), oracle, kinds={"contain", "limit", "exit"}, nontrivial=nontrivial,
                        sel_eval=engine.sel_eval, compare_model=False)
    ctx.extra["dirlink_stream_nontrivial"] = len(ctx.nontrivial) - before
    before = len(ctx.nontrivial)
    engine.run_campaign(ctx, latelink_histories(ctx), oracle, kinds={"contain", "limit", "exit"}, nontrivial=nontrivial,
                        sel_eval=engine.sel_eval, compare_model=False)
    ctx.extra["latelink_stream_nontrivial"] = len(ctx.nontrivial) - before


def replay(ctx, obj):
    h = obj["input"]["history"]
    if h.get("tag") in ("generator", "memlink", "dirlink", "latelink"):
        engine.run_campaign(ctx, [h] * 4, oracle, kinds={"contain", "limit", "exit"}, sel_eval=engine.sel_eval, compare_model=False)
    else:
        engine.run_campaign(ctx, [h] * 4, oracle, sel_eval=engine.sel_eval)
    if ctx.violations:
        return False, ctx.violations[0]["what"]
    if ctx.disagreements:
        return False, ctx.disagreements[0]["what"]
    return True, "failure containment holds on the stored history"
