"""C12 — change detection sees content and identity only and separates different content."""
from impl import hash_api

ASSUMPTIONS = [
    "sha256 / md5 collision-free on the byte strings actually hashed (hypotheses InjOn … of the theorems); hexdigest() is 64 chars and injective",
    "CPython semantics trusted: hash() of floats/bools (ints are modelled exactly and diffed), str.encode, pathlib str(), os.path.normpath (diffed on all short strings), os.stat/os.utime",
    "same-shape = same kind at every shared position (numeric kinds are one kind, tuple ≠ list); 'told apart' = differing str/bytes/Path/None leaves, numeric leaves with different hash()",
    "the driver instantiates sha256 by a structural stand-in (digest = pre-image); the harness applies the real hashlib.sha256 to the pre-images and compares digests and the induced partition",
    "a path denotes the file stat() resolves it to: the model's world maps a spelling (symlinks included) to the target's (hash(st_mtime), bytes); the harness reads both with os.stat / open, which follow links",
    "float('nan') is kept out of the pool and checked in a labelled side stream (id-based hash in CPython >= 3.10)",
    "file systems with case-insensitive names, Windows paths, remote UPath nodes (ETag state) out of scope",
]


def run(ctx):
    ctx.rule = ("(1) hash_value on a pool of ≈420 values (fixed corner cases + seeded random, depth ≤ 3) in 4 interpreter sessions with different PYTHONHASHSEED: "
                "stable; equal for what Python cannot tell apart; different for every same-shape pair Python tells apart — all ordered pairs decided through the "
                "equivalence classes; non-trivial = ordered same-shape pair of distinct pool values. (2) hash(int) vs pyHashInt on 10^4 ints. (3) os.path.normpath vs the "
                "model on every string over {a . /} ≤ 8 chars and over {a . .. /} ≤ 5 symbols. (4) signatures of PathNode/PickleNode/Task/TaskWithoutPath/DirectoryNode/"
                "PythonNode pools: equality ⇔ identity. (5) state() of PathNode/PickleNode/Task on real files through random write/utime/remove histories in fresh processes, the files named by relative / absolute / dotted spellings "
                "and through symbolic links (target edited with the link untouched, link re-pointed to a file with equal / different bytes): "
                "same bytes ⇔ same state. (6) pytask_collect_node on relative/absolute/dotted spellings: same normalised file/pattern ⇔ same node. (7) pytask.build on tiny (hashed value / file dependency / file dependency declared through a symlink) "
                "projects in fresh processes: changed value / bytes ⇒ re-executed, touch / equal value ⇒ skipped. Distinct by canonical input.")
    hash_api.campaign(ctx)


def replay(ctx, obj):
    return hash_api.replay(ctx, obj)
