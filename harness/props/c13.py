"""C13 — every declared task is collected exactly once under a unique id."""
from impl import collect_api

ASSUMPTIONS = [
    "CPython import machinery (importlib spec/loader, FileFinder order package > module > namespace), pathlib.PurePath.match "
    "(cross-checked against the model on all small patterns), inspect.signature/getmembers, str() of floats are trusted; the "
    "interpreter's initial sys.modules is an input of the model (probed in the build process)",
    "regular files and directories only (no symlinks), ASCII names, POSIX; directories above the project carry no __init__.py; "
    "the project root is fixed by a pyproject.toml; the project is not on sys.path",
    "the iteration order of the set `all_names` (parse_collected_tasks_with_task_marker) is arbitrary: the model is run with "
    "several enumeration orders and must agree for one; theorems quantify over every order",
    "task modules import without errors; a name bound at module level refers to at most one function; functions imported from "
    "another module under a task_ name are separate namespace entries (not generated)",
    "exit code 3 is accepted whenever collection fails: the property does not say when collection must succeed",
]


def run(ctx):
    ctx.rule = ("real pytask.build (fork server, fresh interpreter state per build) on generated layouts (same stem in several "
                "directories, packages with/without __init__.py, dotted directory names, shadowing siblings, stdlib names; "
                "overlapping / repeated / file paths; ignore and task_files patterns) × declaration programs (prefixed functions, "
                "@task with/without name, loops with automatic ids from bool/int/float/str/other, explicit ids, lambdas, partials, "
                "re-wrapped functions, colliding names and ids, helper modules); bodies carry unique tags; oracle: exit code 3, or "
                "tags(session.tasks) = tags(declared qualifying functions of non-ignored matching modules) as multisets with "
                "pairwise distinct names and signatures; Lean model M9a replays every case (exit code, (name, tag) multiset, "
                "executed bodies); PurePosixPath.match vs the model matcher on all small patterns. non-trivial = ≥ 2 qualifying "
                "functions declared in collected modules (pmatch stream: the pattern matches); distinct by canonical case")
    collect_api.campaign(ctx)


def replay(ctx, obj):
    inp = obj["input"]
    if inp.get("kind") == "pmatch":
        from pathlib import PurePosixPath
        want = PurePosixPath("/" + inp["path"]).match(inp["pat"])
        if ctx.use_model:
            ans = ctx.driver().ask(f"collect.pmatch path={inp['path']} pat={collect_api.enc(inp['pat'])}")
            if ans != ("1" if want else "0"):
                return False, f"pmatch-differs: python={want} model={ans}"
        return True, "pmatch agrees"
    case = inp["case"]
    ob = collect_api.run_cases([case], 1)[case["id"]]
    ok = collect_api.judge(ctx, case, ob)
    collect_api.compare_model(ctx, case, ob)
    fresh = [v for v in ctx.violations if not v["finding"]]
    if fresh:
        return False, fresh[0]["what"]
    if ctx.violations:
        return False, f"known finding {ctx.violations[0]['finding']}: {ctx.violations[0]['what']}"
    if ctx.disagreements:
        return False, ctx.disagreements[0]["what"]
    return True, f"exactly-once and unique ids hold on the stored case (exit {ob['exit']}, {len(ob['tasks'])} tasks); model agrees"
