"""C05 — abrupt termination never leaves state that hides outstanding work."""
from __future__ import annotations

import copy
import random
from concurrent.futures import ThreadPoolExecutor

import common
from impl import crash, engine

ASSUMPTIONS = [
    "os._exit(137) at an observation point stands for SIGKILL at that instant; SQLite commits are atomic and durable (no power loss, "
    "no reordering of file writes)",
    "observation points are hook boundaries (entry/exit of protocol, setup, execute, teardown, process_report, log_end, unconfigure), "
    "before/after every SQLAlchemy commit of pytask.DatabaseSession, before/after every INSERT/UPDATE/DELETE statement on the state and "
    "runtime tables, and one point inside a task body after its first product write",
    "random scenarios make no edits between the kill and the recovery builds; the corpus witness F50 (kill around every row commit, then one "
    "input put back) covers edits after the kill; task bodies are deterministic functions of their declared inputs and module text",
    "persist / skip markers are not generated (a persisted or skipped task is outside 'what a from-scratch build would give', cf. C02)",
    "database start-up: kills at the opening of the connection and before/after every CREATE TABLE on a fresh project and after .pytask was "
    "deleted; file-level states: no .pytask, 0-byte pytask.sqlite3, database lacking the runtime or the state table",
    "memo file classes: empty, cut inside a key, cut inside a value, missing closing brace, non-UTF-8 bytes, JSON of the wrong shape",
    "the schedule of the killed build is the one observed at protocol entries; theorems quantify over all legal schedules and all k",
]
PRE_EDITS = ["write", "write", "bump", "tamper", "delete_product", "touch", "delete_then_restore"]
REC_CFGS = [{}, {}, {}, {}, {"force": True}, {"dry": True}, {"maxfail": 1}]
KILL_CFGS = [{}, {}, {}, {"force": True}]


# ------------------------------------------------------------------------------------------------
# cases
# ------------------------------------------------------------------------------------------------

def _pre_history(rng, spec, n_edits):
    """build, then edits that leave work for the build that gets killed."""
    ins = [int(x) for x in spec["inputs"]]
    prods = [p for t in spec["tasks"] for p in t["prods"]]
    mods = sorted({t["module"] for t in spec["tasks"]})
    steps = [["build", {}]]
    for _ in range(n_edits):
        k = rng.choice(PRE_EDITS)
        if k == "write" and ins:
            steps.append(["write", rng.choice(ins), rng.randint(100, 999)])
        elif k == "bump":
            steps.append(["bump", rng.choice(mods)])
        elif k == "tamper" and prods:
            steps.append(["write", rng.choice(prods), rng.randint(1000, 9999)])
        elif k == "delete_product" and prods:
            steps.append(["delete", rng.choice(prods)])
        elif k == "touch" and ins + prods:
            steps.append(["touch", rng.choice(ins + prods)])
        elif k == "delete_then_restore" and ins:
            n = rng.choice(ins)
            steps.append(["write", n, rng.randint(100, 999)])
    if rng.random() < 0.25:
        steps.append(["build", {"maxfail": 1} if rng.random() < 0.3 else {}])
        steps.append(["write", rng.choice(ins), rng.randint(100, 999)] if ins else ["bump", rng.choice(mods)])
    return steps


def corpus_cases():
    """hand-made small projects: every observation point is a kill point."""
    chain = {"tasks": [
        {"id": 0, "module": 0, "deps": [100], "prods": [110, 111], "after": [], "marks": [], "beh": "ok", "style": "default"},
        {"id": 1, "module": 0, "deps": [110, 101], "prods": [112], "after": [], "marks": [], "beh": "ok", "style": "annotated"},
        {"id": 2, "module": 1, "deps": [112, 111], "prods": [113], "after": [], "marks": [], "beh": "ok", "style": "return"}],
        "versions": {"0": 0, "1": 0}, "inputs": {"100": 5, "101": 9}}
    diamond = {"tasks": [
        {"id": 0, "module": 0, "deps": [100], "prods": [110], "after": [], "marks": [], "beh": "ok", "style": "kwargs"},
        {"id": 1, "module": 0, "deps": [110], "prods": [111, 112], "after": [], "marks": [], "beh": "ok", "style": "default"},
        {"id": 2, "module": 0, "deps": [110, 101], "prods": [113], "after": [], "marks": [], "beh": "ok", "style": "default"},
        {"id": 3, "module": 1, "deps": [111, 113], "prods": [114], "after": [1], "after_style": "expr", "marks": [], "beh": "ok", "style": "annotated"}],
        "versions": {"0": 0, "1": 0}, "inputs": {"100": 3, "101": 4}}
    return [
        {"tag": "corpus-first-build", "spec": chain, "pre": [], "cfg": {}},
        {"tag": "corpus-edit-input", "spec": chain, "pre": [["build", {}], ["write", 100, 77], ["write", 101, 78]], "cfg": {}},
        {"tag": "corpus-product-recreated", "spec": chain, "pre": [["build", {}], ["delete", 110], ["write", 112, 4242]], "cfg": {}},
        {"tag": "corpus-diamond-module", "spec": diamond, "pre": [["build", {}], ["bump", 0], ["write", 101, 55]], "cfg": {}},
        {"tag": "corpus-diamond-forced", "spec": diamond, "pre": [["build", {}]], "cfg": {"force": True}},
    ]


def random_case(rng, big=False):
    spec = engine.gen_spec(rng, nt=(5, 8) if big else (2, 4), after_p=0.15, after_needs_prods=True, prodless_p=0.1,
                           multi_prod_p=0.45, behs=("ok",) * 14 + ("early",))
    pre = [] if rng.random() < 0.2 else _pre_history(rng, spec, rng.randint(1, 3))
    return {"tag": "rand-big" if big else "rand", "spec": spec, "pre": pre, "cfg": dict(rng.choice(KILL_CFGS))}


# ------------------------------------------------------------------------------------------------
# scenarios
# ------------------------------------------------------------------------------------------------

def scenarios_for(unit, rng, mode, budget):
    """mode 'all': every point k, plus a mid-body kill for every executed multi-/single-product task, plus every memo class at
    the unconfigure points; 'sample': `budget` random scenarios incl. second kills and other recovery configurations."""
    ref = unit.ref
    N = len(ref["points"])
    cfg = unit.case["cfg"]
    byid = {t["id"]: t for t in unit.spec["tasks"]}
    ended = {int(e[1]) for e in ref["obs"]["log"] if e[0] == "E"}
    mids = [t for t in engine.executed(ref["obs"]) if byid[t]["prods"] and byid[t].get("style") != "return" and t in ended]
    unconf = [n for (n, kind, _) in ref["points"] if kind.startswith("unconfigure")]
    out = []
    tail = [["build", {}, None], ["build", {}, None]]
    if mode == "startup":
        # database start-up (`create_database`: connection opened, one autocommitted CREATE TABLE per table) of a project that has
        # no .pytask (fresh case) or whose .pytask was deleted (built case); plus the file-level states such a kill can leave
        first = next((n for (n, kind, _) in ref["points"] if kind == "protocol.in"), N + 1)
        fresh = not unit.case["pre"]
        if fresh:
            for k in range(1, first + 1):
                out.append([["build", cfg, {"k": k}]] + tail)
        else:
            for k in range(1, 7):
                out.append([["dbfile", "delete_pytask"], ["build", cfg, {"k": k}]] + tail)
            for cls in crash.DBFILE_CLASSES[1:]:
                out.append([["dbfile", cls]] + tail)
            out.append([["dbfile", "zero"], ["build", cfg, {"k": rng.randint(1, 5)}]] + tail)
        return out
    if mode == "all":
        for k in range(1, N + 1):
            sc = [["build", cfg, {"k": k}]]
            if k in unconf:
                for cls in crash.MEMO_CLASSES:
                    out.append(sc + [["memo", cls]] + tail)
            elif rng.random() < 0.2:
                sc.append(["memo", rng.choice(crash.MEMO_CLASSES)])
            out.append(sc + tail)
        for t in mids:
            out.append([["build", cfg, {"mid": t}]] + tail)
    else:
        for _ in range(budget):
            r = rng.random()
            first = {"mid": rng.choice(mids)} if (mids and r < 0.15) else {"k": rng.randint(1, max(1, N))}
            sc = [["build", cfg, first]]
            if rng.random() < 0.3:
                sc.append(["memo", rng.choice(crash.MEMO_CLASSES)])
            if rng.random() < 0.35:     # the recovery build is killed as well
                sc.append(["build", {}, {"k": rng.randint(1, max(1, N))}])
            elif rng.random() < 0.4:    # first recovery build under another configuration
                sc.append(["build", dict(rng.choice(REC_CFGS)), None])
            out.append(sc + tail)
    return out


# ------------------------------------------------------------------------------------------------
# campaign
# ------------------------------------------------------------------------------------------------

def run_unit(server, job):
    """job = {"case", "mode", "budget", "seed", "chunk": (i, n)}; returns dict with per-scenario records (real code only)."""
    rng = random.Random(job["seed"])
    unit = crash.Unit(server, job["case"])
    try:
        unit.prepare()
        scs = job.get("scenarios") or scenarios_for(unit, rng, job["mode"], job["budget"])
        i, n = job.get("chunk", (0, 1))
        scs = scs[i::n]
        runs = []
        for j, sc in enumerate(scs):
            runs.append({"scenario": sc, "seed": job["seed"] + j, "recs": unit.run_scenario(sc, job["seed"] + j)})
        return {"job": job, "pre": unit.pre_records, "ref": unit.ref, "runs": runs, "hashseed": server.hashseed}
    finally:
        unit.close()


def jobs_for(ctx):
    rng = ctx.rng
    jobs = []
    corpus = corpus_cases()
    boost = min(ctx.budget, 3.0)    # intensified search: bounded so that the run stays within the tier's wall-clock limit

    def scale(q, t):
        return max(1, int((t if ctx.thorough else q) * boost))

    # database start-up: every point before the first task on a fresh project and on a project whose .pytask was deleted,
    # and the file-level variants (0-byte database, database lacking a table)
    jobs.append({"case": corpus[0], "mode": "startup", "budget": 0, "seed": rng.randrange(1 << 30)})
    jobs.append({"case": corpus[1], "mode": "startup", "budget": 0, "seed": rng.randrange(1 << 30)})
    # exhaustive kill points on the corpus projects (quick: 2 of them, rotating with the seed; thorough: all) …
    pick = corpus if ctx.thorough else [corpus[(ctx.seed + 1) % len(corpus)]]
    for c in pick:
        for i in range(4):
            jobs.append({"case": c, "mode": "all", "budget": 0, "seed": rng.randrange(1 << 30), "chunk": (i, 4)})
    # … on random ≤ 4-task projects …
    for _ in range(scale(1, 8)):
        c = random_case(rng)
        for i in range(4):
            jobs.append({"case": c, "mode": "all", "budget": 0, "seed": rng.randrange(1 << 30), "chunk": (i, 4)})
    # … and sampled points, second kills and other recovery configurations on more and bigger projects
    for _ in range(scale(6, 60)):
        jobs.append({"case": random_case(rng, big=rng.random() < 0.5), "mode": "sample", "budget": 6 if not ctx.thorough else 12,
                     "seed": rng.randrange(1 << 30)})
    return jobs


def _canon(sc):
    return [[i[0], i[1], i[2]] if i[0] == "build" else list(i) for i in sc]


def evaluate(ctx, results):
    drv = ctx.driver() if ctx.use_model else None
    for res in results:
        case = res["job"]["case"]
        mdis = crash.model_prepare(drv, case, res["pre"]) if drv is not None else None
        if mdis:
            ctx.disagreement(f"engine model, {case['tag']}: {mdis[0]}: implementation {mdis[1]!r}, model {mdis[2]!r}",
                             {"case": case, "layer": "crash-e2e", "hashseed": res["hashseed"]})
        nref = len(res["ref"]["points"])
        ctx.dist[f"points={nref // 20 * 20}+"] += 1
        for run in res["runs"]:
            recs, sc = run["recs"], run["scenario"]
            builds = [r for r in recs if r["step"][0] == "build"]
            killed = [r for r in builds if r["died"]]
            rec_exec = [r for r in builds if not r["died"] and engine.executed(r["obs"])]
            nontrivial = bool(killed) and bool(rec_exec)
            sample = None
            if nontrivial:
                cs = crash.crash_summary(killed[0])
                sample = {"tasks": [{k: t[k] for k in ("id", "deps", "prods", "after", "beh") if t.get(k)} for t in case["spec"]["tasks"]],
                          "pre": case["pre"], "killed_at": cs["last_point"], "atomic_updates_before_kill": cs["k_model"],
                          "recovery_executed": engine.executed(rec_exec[0]["obs"])}
            ctx.case([case["spec"], case["pre"], case["cfg"], _canon(sc)], nontrivial, sample)
            for r in killed:
                cs = crash.crash_summary(r)
                lp = cs["last_point"][0] if cs["last_point"] else ("mid-body" if r["kill"] and "mid" in r["kill"] else "none")
                if r["kill"] and "mid" in r["kill"]:
                    lp = "mid-body"
                ctx.dist["kill@" + lp] += 1
            for r in recs:
                if r["step"][0] == "memo":
                    ctx.dist["memo=" + r["step"][1]] += 1
                if r["step"][0] == "dbfile":
                    ctx.dist["dbfile=" + r["step"][1]] += 1
            for r in builds:
                if not r["died"]:
                    ctx.dist[f"recovery_exit={r['obs'].get('exit')}"] += 1
            replay = {"case": case, "scenario": sc, "scenario_seed": run["seed"], "hashseed": res["hashseed"], "layer": "crash-e2e"}
            for kind, msg in crash.judge(case, recs, res["pre"]):
                ctx.violation(f"{kind}: {msg}", replay)
            if drv is not None and not mdis:
                d = crash.replay_model(drv, recs)
                ctx.traces_validated += 1
                if d:
                    ctx.disagreement(f"step-level engine model, {case['tag']} scenario {_canon(sc)[:2]}: {d[0]}: implementation {d[1]!r}, model {d[2]!r}", replay)


def run(ctx):
    ctx.rule = ("a generated project and a pre-crash history (builds, input / module / product edits) are brought to a state S; a counting run numbers "
                "the observation points of the next build (hook boundaries, before/after every SQLite commit, unconfigure); for every point k "
                "(all k on ≤4-task projects, sampled beyond; plus a kill inside each task body after its first product write; plus each memo-file "
                "prefix/garbage class) S is restored, the real process is killed at k with os._exit, and recovery builds run until quiet "
                "(sampled: second kill during recovery, forced / dry / max_failures recovery). Oracle: a later build reports SUCCESS/SKIP_UNCHANGED "
                "only with from-scratch product bytes, exit 0 ⇒ all products from-scratch, the build after that executes nothing, tasks whose log_end "
                "was observed before the kill are not executed again. Non-trivial = the process was killed and a recovery build executed ≥1 task; "
                "distinct by canonical (spec, pre-history, cfg, scenario)")
    jobs = jobs_for(ctx)
    nseeds = 8
    hashseeds = [ctx.rng.randrange(1, 4_000_000_000) for _ in range(nseeds)]
    ctx.extra["hash_seeds"] = hashseeds
    pool = crash.make_pool(hashseeds)
    try:
        f50 = crash.f50_witness(pool.pick(0))
        with ThreadPoolExecutor(max_workers=nseeds) as ex:
            results = list(ex.map(lambda a: run_unit(pool.pick(a[0]), a[1]), enumerate(jobs)))
    finally:
        pool.close()
    # corpus witness F50 (repaired by 637627e): kill around every row commit + an edit after the kill must never give a stale
    # "unchanged" — an ordinary oracle, no known finding
    ctx.extra["F50_witness"] = f50
    ctx.case(["F50-witness", f50.get("kills")], f50.get("kills", 0) > 0, None)
    for st in f50.get("stale", [])[:1]:
        ctx.violation("stale: after a kill between two state-row writes of one task and a later edit that puts one input back, the task is "
                      f"reported {st['outcome']} although its product was computed from other inputs (same.txt={st['same.txt']!r}, a=2, b=1; "
                      f"killed at observation point {st['killed_at_point']} = {st['kind']})", {"witness": "F50", "layer": "crash-e2e"})
    evaluate(ctx, results)
    ctx.extra["kill_scenarios"] = sum(len(r["runs"]) for r in results)


def replay(ctx, obj):
    inp = obj["input"]
    if inp.get("witness") == "F50":
        pool = crash.make_pool([1])
        try:
            f50 = crash.f50_witness(pool.pick(0))
        finally:
            pool.close()
        return (not f50.get("stale")), f"F50 witness: {f50}"
    job = {"case": inp["case"], "mode": "given", "budget": 0, "seed": inp.get("scenario_seed", 0), "scenarios": [inp["scenario"]]}
    if "scenario" not in inp:
        job = {"case": inp["case"], "mode": "all", "budget": 0, "seed": 0}
    pool = crash.make_pool([inp.get("hashseed", 1)])
    try:
        res = run_unit(pool.pick(0), job)
    finally:
        pool.close()
    evaluate(ctx, [res])
    if ctx.violations:
        return False, ctx.violations[0]["what"]
    if ctx.disagreements:
        return False, ctx.disagreements[0]["what"]
    return True, "killed build recovers: no stale 'unchanged', converges to the from-scratch products, stays quiet, no needless re-execution"
