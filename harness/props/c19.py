"""C19 — try_first / try_last priorities are honoured among ready tasks."""
from impl import engine, sorter_api

ASSUMPTIONS = [
    "networkx ancestors/in_degree/find_cycle trusted (cross-checked against the model on every case)",
    "set iteration order is arbitrary: the model accepts every LegalBatch; 8/16 PYTHONHASHSEEDs sampled",
    "pytask-parallel's executor is not in the repo; its freedom (n, completion order) is covered at the sorter API",
]
KINDS = {"prio", "size"}


def prio_of(t):
    return 1 if "try_first" in t["marks"] else (-1 if "try_last" in t["marks"] else 0)


def e2e_oracle(hist, records):
    """From the spec graph and the observed protocol order: whenever a task is started, no task of a higher priority class
    was ready (all its spec-level ancestors already processed) and still waiting."""
    bad = []
    for rec in records:
        if rec["step"][0] != "build":
            continue
        spec, obs = rec["spec"], rec["obs"]
        both = [t["id"] for t in spec["tasks"] if "try_first" in t["marks"] and "try_last" in t["marks"]]
        if both:
            if obs.get("raised") or obs.get("exit") != 3 or engine.executed(obs):
                bad.append(("reject", f"task(s) {both} carry try_first and try_last: expected collection failure (exit 3, nothing executed), "
                                      f"got exit {obs.get('exit')} raised={obs.get('raised')} executed={engine.executed(obs)}", None))
            continue
        if obs.get("raised") or obs.get("exit") not in (0, 1):
            continue
        order = [engine.name_to_id(r[0]) for r in obs["reports"]]
        edges = engine.spec_task_edges(spec)
        anc = {t["id"]: engine.closure(edges, t["id"], forward=False) for t in spec["tasks"]}
        pr = {t["id"]: prio_of(t) for t in spec["tasks"]}
        for t in spec["tasks"]:
            if t.get("gen"):        # the child 50+id exists (and is ready) once its generator and the producers of its inputs are done
                kid = 50 + t["id"]
                pr[kid] = prio_of({"marks": t.get("gen_marks", [])})
                anc[kid] = anc[t["id"]] | {t["id"]}
                for u in spec["tasks"]:
                    if set(u["prods"]) & set(t.get("gen_child_deps", [])):
                        anc[kid] |= anc[u["id"]] | {u["id"]}
        done = set()
        gens_done = set()
        for x in order:
            if x not in pr:
                continue
            if not anc[x] <= done:
                bad.append(("dep-e2e", f"task {x} was started before the task(s) {sorted(anc[x] - done)} it depends on (protocol order {order}): "
                                       f"priorities / re-creation of the scheduler must not override dependencies", None))
                break
            hit = False
            for y in pr:
                if y >= 50 and (y - 50) not in done:
                    continue        # a generated task is unknown to the scheduler until its generator has run
                if y not in done and y != x and pr[y] > pr[x] and anc[y] <= done:
                    bad.append(("prio-e2e", f"task {x} (priority {pr[x]}) was started while task {y} (priority {pr[y]}) was ready and waiting "
                                            f"(protocol order {order})", None))
                    hit = True
                    break
            if hit:
                break
            done.add(x)
    return bad


def prog_stream(ctx):
    """Priority marks on functions without a source file (tasks=[…]), on decorator stacks (marks, @task and a functools.wraps
    wrapper in every order) in task modules, and on the same stacks inside a task generator. Oracle from the declared marks only: both marks ⇒ exit 3 and nothing executed; otherwise every try_first
    task runs before every unmarked one and every try_last task after all others (the tasks are independent)."""
    import json
    import shutil
    import subprocess
    from concurrent.futures import ThreadPoolExecutor
    import common
    rng = ctx.rng
    plain = [{"name": f"task_plain{i}", "marks": []} for i in range(5)]
    cases = [{"kind": "pathless", "tasks": [{"name": "task_both", "marks": ["try_first", "try_last"]}, {"name": "task_plain", "marks": []}]},
             {"kind": "wrapped", "tasks": [{"name": "task_both", "marks": ["try_last", "try_first"], "wrap": True}]},
             # corpus (F35, F36): a generated task with both marks; a mark between @task and a wrapper
             {"kind": "generated", "tasks": [{"name": "task_both", "marks": ["try_first", "try_last"], "task_at": "top"},
                                             {"name": "task_ok", "marks": [], "task_at": "top"}]},
             {"kind": "wrapped", "tasks": plain + [{"name": "task_z", "marks": ["try_first"], "wrap": True, "task_at": "top"}]},
             {"kind": "wrapped", "tasks": [{"name": "task_a", "marks": ["try_last"], "wrap": True, "task_at": "top"}] + plain}]
    for _ in range(ctx.scale(24, 160)):
        kind = rng.choice(["pathless", "wrapped", "wrapped", "generated"])
        tasks = []
        for i in range(rng.randint(3, 7)):
            marks = rng.choice([[], [], ["try_first"], ["try_last"], ["try_first"], ["try_last"]])
            if rng.random() < 0.04:
                marks = ["try_first", "try_last"]
            t = {"name": f"task_p{i}{rng.choice('abxyz')}", "marks": list(marks), "wrap": kind != "pathless" and rng.random() < 0.6}
            if kind == "generated":
                t["task_at"] = rng.choice(["top", "mid", "bottom"])      # tasks of a generator need @task
            elif rng.random() < 0.5:
                t["task_at"] = rng.choice(["top", "mid", "bottom"])
            tasks.append(t)
        cases.append({"kind": kind, "tasks": tasks})
    worker = str(common.VERIF / "harness" / "impl" / "prio_prog_worker.py")

    def one(args):
        i, c = args
        root = common.scratch_dir("c19p")
        try:
            env = dict(__import__("os").environ, PYTHONHASHSEED=str(1 + (ctx.seed * 131 + i * 7) % 1000), PYTHONDONTWRITEBYTECODE="1")
            r = subprocess.run([common.PY, worker], input=json.dumps(dict(c, root=str(root / "p"))), capture_output=True, text=True, env=env, timeout=120)
            return json.loads(r.stdout.strip().splitlines()[-1]) if r.stdout.strip() else {"raised": "worker:" + r.stderr[-200:]}
        except Exception as e:  # noqa: BLE001
            return {"raised": f"worker:{type(e).__name__}"}
        finally:
            shutil.rmtree(root, ignore_errors=True)
    with ThreadPoolExecutor(max_workers=8) as ex:
        results = list(ex.map(one, enumerate(cases)))
    for c, res in zip(cases, results):
        both = [t["name"] for t in c["tasks"] if "try_first" in t["marks"] and "try_last" in t["marks"]]
        pr = {t["name"]: (1 if "try_first" in t["marks"] else -1 if "try_last" in t["marks"] else 0) for t in c["tasks"]}
        ctx.case(["prog", c], len(set(pr.values())) >= 2 or bool(both), {"prog": c, "result": res})
        ctx.dist["prog:" + c["kind"]] += 1
        if str(res.get("raised") or "").startswith("worker:"):
            raise common.InfraError(f"C19 prog worker failed: {res['raised']}")
        if both and c["kind"] == "generated":
            # the graph is only known while the build runs: rejected = the build does not end OK and the task never runs
            if res.get("raised") or res.get("exit") == 0 or set(both) & set(res.get("executed") or []):
                ctx.violation(f"reject: generated task(s) {both} carry try_first and try_last: expected the build to reject them (exit != 0, not executed), "
                              f"got exit {res.get('exit')} raised={res.get('raised')} executed={res.get('executed')}", {"layer": "prog", "case": c})
            continue
        if both:
            if res.get("raised") or res.get("exit") != 3 or res.get("executed"):
                ctx.violation(f"reject: task(s) {both} carry try_first and try_last ({c['kind']}): expected collection failure (exit 3, nothing executed), "
                              f"got exit {res.get('exit')} raised={res.get('raised')} executed={res.get('executed')}", {"layer": "prog", "case": c})
            continue
        if res.get("raised") or res.get("exit") != 0:
            ctx.violation(f"prog: build of independent marked tasks ({c['kind']}) raised / exit {res.get('exit')} {res.get('raised')}", {"layer": "prog", "case": c})
            continue
        if res.get("collected") != len(c["tasks"]) + (c["kind"] == "generated") or sorted(res["executed"]) != sorted(t["name"] for t in c["tasks"]):
            ctx.violation(f"prog: {len(c['tasks'])} marked task functions were handed to pytask ({c['kind']}) but {res.get('collected')} were collected "
                          f"and {res['executed']} executed (exit 0): a task was silently dropped", {"layer": "prog", "case": c})
            continue
        order = res["executed"]
        for i, x in enumerate(order):
            for y in order[i + 1:]:
                if pr.get(y, 0) > pr.get(x, 0):
                    ctx.violation(f"prio-e2e: task {x} (priority {pr.get(x)}) ran before {y} (priority {pr.get(y)}) although both were ready "
                                  f"({c['kind']}; order {order})", {"layer": "prog", "case": c})
                    break
            else:
                continue
            break


def e2e_histories(ctx):
    rng = ctx.rng
    hs = []
    both = {"tag": "corpus-both-marks", "spec": {"tasks": [
        {"id": 0, "module": 0, "deps": [], "prods": [20], "after": [], "marks": ["try_first", "try_last"], "beh": "ok", "style": "default"},
        {"id": 1, "module": 0, "deps": [], "prods": [21], "after": [], "marks": [], "beh": "ok", "style": "default"}],
        "versions": {"0": 0}, "inputs": {}}, "steps": [["build", {}]]}
    hs.append(both)
    for _ in range(ctx.scale(50, 600)):
        spec = engine.gen_spec(rng, nt=(3, 8), after_p=0.2, after_needs_prods=True, dens=0.35,
                               marks=(("try_first", 0.3), ("try_last", 0.3)))
        hs.append({"tag": "rand", "spec": spec, "steps": [["build", {}]]})
    return hs


def selection_histories(ctx):
    """-k / -m selections: deselected tasks still pass through the scheduler and keep their priority class."""
    from impl import project
    rng = ctx.rng
    hs = []
    for _ in range(ctx.scale(16, 200)):
        spec = engine.gen_spec(rng, nt=(4, 8), after_p=0.15, after_needs_prods=True, dens=0.3, user_markers=True,
                               marks=(("try_first", 0.35), ("try_last", 0.35)))
        names = [project.tname(t["id"]) for t in spec["tasks"]]
        r = rng.random()
        if r < 0.5:
            cfg = {"k": " or ".join(rng.sample(names, rng.randint(1, 2)))}
        elif r < 0.8:
            cfg = {"m": rng.choice(["markone", "marktwo", "not markone", "markone or marktwo"])}
        else:
            cfg = {"k": "not " + rng.choice(names)}
        hs.append({"tag": "select", "spec": spec, "steps": [["build", cfg]]})
    return hs


def recreate_histories(ctx):
    """The scheduler is re-created while the build runs (a DirectoryNode product is resolved, a task generator has run):
    priorities and `after` declarations must survive. Implementation-only oracle (e2e_oracle)."""
    rng = ctx.rng
    hs = []
    # corpus: Z (try_first, directory product) runs first and re-creates the scheduler; Y (try_first) is declared after X (unmarked)
    hs.append({"tag": "corpus-recreate-after", "spec": {"tasks": [
        {"id": 0, "module": 0, "deps": [], "prods": [20], "after": [], "marks": ["try_first"], "beh": "ok", "style": "default", "dirprod": "a"},
        {"id": 1, "module": 0, "deps": [], "prods": [21], "after": [], "marks": [], "beh": "ok", "style": "default"},
        {"id": 2, "module": 0, "deps": [], "prods": [22], "after": [1], "after_style": "func", "marks": ["try_first"], "beh": "ok", "style": "default"},
        {"id": 3, "module": 0, "deps": [], "prods": [23], "after": [], "marks": [], "beh": "ok", "style": "default"}],
        "versions": {"0": 0}, "inputs": {}}, "steps": [["build", {}]]})
    for _ in range(ctx.scale(24, 300)):
        spec = engine.gen_spec(rng, nt=(4, 8), after_p=0.5, after_needs_prods=True, dens=0.3, prodless_p=0.05, dirprod_p=0.35,
                               styles=("default", "annotated", "kwargs"), marks=(("try_first", 0.35), ("try_last", 0.3)))
        aftered = {a for t in spec["tasks"] for a in t["after"]}
        for t in spec["tasks"]:
            if rng.random() < 0.2 and t["id"] not in aftered and not t.get("dirprod"):
                t["gen"] = True
                t["gen_marks"] = rng.choice([[], ["try_first"], ["try_last"]])
        hs.append({"tag": "recreate", "spec": spec, "steps": [["build", {}]]})
    return hs


def run(ctx):
    ctx.rule = ("(a) op sequences new/get_ready(n)/done(xs)/from_dag_and_sorter on the real TopologicalSorter; exhaustive small scope + seeded "
                "random bipartite DAGs ≤12 tasks; non-trivial = ≥2 non-empty get_ready answers and (≥2 distinct priorities or ≥1 edge); "
                "distinct by canonical (graph, priorities, n-sequence, policy, observed op trace); "
                "(b) generated projects with try_first/try_last marks built through pytask.build under several PYTHONHASHSEEDs: observed protocol order "
                "checked against the ready sets reconstructed from the spec and replayed in the Lean engine; both marks on one task ⇒ exit 3; "
                "also with -k/-m selections and (implementation-only) with schedulers re-created by DirectoryNode products / task generators; "
                "(c) decorator stacks and generated tasks in the prog stream")
    sorter_api.campaign(ctx, KINDS)
    hs = e2e_histories(ctx)

    def nontrivial(h, recs):
        return len({prio_of(t) for t in h["spec"]["tasks"]}) >= 2

    engine.run_campaign(ctx, hs[:1], e2e_oracle, nontrivial=nontrivial, compare_model=False)   # both marks: rejected at collection
    engine.run_campaign(ctx, hs[1:], e2e_oracle, nontrivial=nontrivial)
    engine.run_campaign(ctx, selection_histories(ctx), e2e_oracle, nontrivial=nontrivial, sel_eval=engine.sel_eval)
    engine.run_campaign(ctx, recreate_histories(ctx), e2e_oracle, nontrivial=nontrivial, compare_model=False)
    prog_stream(ctx)


def replay(ctx, obj):
    if obj["input"].get("layer") == "prog":
        return False, "prog-stream cases are replayed by re-running the check with the same seed (case: %s)" % obj["input"].get("case")
    if obj["input"].get("layer") == "engine-e2e":
        h = obj["input"]["history"]
        tag = h.get("tag", "")
        engine.run_campaign(ctx, [h] * 4, e2e_oracle, compare_model=not (tag.startswith("corpus-both") or "recreate" in tag),
                            sel_eval=engine.sel_eval if tag == "select" else None)
        if ctx.violations:
            return False, ctx.violations[0]["what"]
        if ctx.disagreements:
            return False, ctx.disagreements[0]["what"]
        return True, "priority rule holds on the stored project"
    case = obj["input"]["case"]
    traces = sorter_api.run_workers([case], [obj.get("seed", 0) + 1])
    sorter_api.check_traces(ctx, [case], traces, KINDS)
    if ctx.violations:
        return False, ctx.violations[0]["what"]
    if ctx.disagreements:
        return False, ctx.disagreements[0]["what"]
    return True, "priority rule holds on the stored case"
