"""C19 — try_first / try_last priorities are honoured among ready tasks."""
from impl import sorter_api

ASSUMPTIONS = [
    "networkx ancestors/in_degree/find_cycle trusted (cross-checked against the model on every case)",
    "set iteration order is arbitrary: the model accepts every LegalBatch; 8/16 PYTHONHASHSEEDs sampled",
    "pytask-parallel's executor is not in the repo; its freedom (n, completion order) is covered at the sorter API",
]
KINDS = {"prio", "size"}


def run(ctx):
    ctx.rule = ("op sequences new/get_ready(n)/done(xs)/from_dag_and_sorter on the real TopologicalSorter; exhaustive small scope + seeded "
                "random bipartite DAGs ≤12 tasks; non-trivial = ≥2 non-empty get_ready answers and (≥2 distinct priorities or ≥1 edge); "
                "distinct by canonical (graph, priorities, n-sequence, policy, observed op trace)")
    sorter_api.campaign(ctx, KINDS)


def replay(ctx, obj):
    case = obj["input"]["case"]
    traces = sorter_api.run_workers([case], [obj.get("seed", 0) + 1])
    sorter_api.check_traces(ctx, [case], traces, KINDS)
    if ctx.violations:
        return False, ctx.violations[0]["what"]
    if ctx.disagreements:
        return False, ctx.disagreements[0]["what"]
    return True, "priority rule holds on the stored case"
