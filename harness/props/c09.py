"""C09 — ill-formed task graphs are rejected (exit code 4) before anything runs and without recording;
well-formed graphs are never rejected."""
from __future__ import annotations

import copy
import json
import shutil
from concurrent.futures import ThreadPoolExecutor

import common
from impl import builder, dagproj, engine, project

ASSUMPTIONS = [
    "networkx (find_cycle, ancestors, predecessors/successors) trusted; cross-checked against the model and an own DFS on every case",
    "ill-formedness is decided by the harness from the declarations alone (own three-colour DFS + producer count), independent of pytask and of the Lean model",
    "a task naming itself in after= is no relation (the code discards it; the spec relation excludes it)",
    "two spellings of one file are one node after lexical normalisation (os.path.normpath); symlinks are not generated (DESIGN §5 C09 Limits)",
    "API layer drives the real _pytask.dag.create_dag on synthetic sessions (TaskWithoutPath / PathNode / PythonNode objects); the end-to-end layer drives pytask.build on generated projects",
    "known finding F1 (after= towards a product-less task creates no edge): a chain of declarations closed only through such an after is accepted by the code; classified narrowly (ill-formed in the declarations, well-formed once those after declarations are dropped)",
]

F1_WHAT = ("a chain of declarations closed only through @task(after=<task without products>) is not rejected (exit code != 4, bodies run): "
           "_modify_dag routes 'after' through the products of the named task (dag.py:113-126)")


def _f1_is_known() -> bool:
    for e in common.load_known("C09"):
        if e.get("id") == "F1" and e.get("status") == "known":
            return True
    p = common.VERIF / "findings" / "F1.json"
    if p.exists():
        try:
            e = json.loads(p.read_text())
            return e.get("id") == "F1" and e.get("status") == "known" and "C09" in (e.get("property"), *e.get("properties", []))
        except (OSError, ValueError):
            return False
    return False


def _report(ctx, what, replay, an):
    """Oracle failure: F1 class → known finding (if listed), anything else → violation."""
    if an.get("f1_class") and replay.get("expect") == "rejected":
        ctx.extra["f1_class_cases"] = ctx.extra.get("f1_class_cases", 0) + 1
        if any(e.get("id") == "F1" and e.get("status") == "known" for e in common.load_known("C09")):
            ctx.violation(what, replay, finding="F1")
        elif _f1_is_known():
            ctx.known_hits.setdefault("F1", F1_WHAT)
        else:
            ctx.violation(what, replay, finding=None)
    else:
        ctx.violation(what, replay, finding=None)


# ------------------------------------------------------------------------------------------------
# corpus
# ------------------------------------------------------------------------------------------------

def corpus():
    T = dagproj._task
    out = []
    # F2 (fixed by 12bb2db): cycle closed only by after declarations, both tasks with a product
    out.append(("corpus-F2", {"tasks": [T(0, prods=[20], after=[1]), T(1, prods=[21], after=[0])], "py": [], "wrap": [], "stale": False}))
    # F1 witness for C09: mutual after between product-less tasks
    out.append(("corpus-F1", {"tasks": [T(0, after=[1]), T(1, after=[0])], "py": [], "wrap": [], "stale": False}))
    # F1 class, mixed: 0 -> n20 -> 1, and 0 declared after 1 which has no product
    out.append(("corpus-F1b", {"tasks": [T(0, prods=[20], after=[1]), T(1, deps=[20])], "py": [], "wrap": [], "stale": False}))
    # plain cycles: length 1, 2 (files), 2 (PythonNodes)
    out.append(("corpus-self", {"tasks": [T(0, deps=[20], prods=[20])], "py": [], "wrap": [], "stale": False}))
    out.append(("corpus-cyc2", {"tasks": [T(0, deps=[21], prods=[20]), T(1, deps=[20], prods=[21], module=1)], "py": [], "wrap": [], "stale": True}))
    out.append(("corpus-cyc2py", {"tasks": [T(0, deps=[21], prods=[20]), T(1, deps=[20], prods=[21])], "py": [20, 21], "wrap": [[1, 20]], "stale": False}))
    # shared product under two spellings; shared PythonNode
    s = {"tasks": [T(0, deps=[10], prods=[20]), T(1, deps=[10], prods=[20], module=1)], "py": [], "wrap": [], "stale": False}
    s["tasks"][0]["spell"] = {"20": "rel"}
    s["tasks"][1]["spell"] = {"20": "dotdot"}
    out.append(("corpus-shared", s))
    out.append(("corpus-sharedpy", {"tasks": [T(0, prods=[20]), T(1, prods=[20]), T(2, deps=[20], prods=[21])], "py": [20], "wrap": [], "stale": False}))
    # well-formed: self-after, after through a product, diamond, consumer under another spelling
    out.append(("corpus-selfafter", {"tasks": [T(0, prods=[20], after=[0])], "py": [], "wrap": [], "stale": False}))
    d = {"tasks": [T(0, deps=[10], prods=[20]), T(1, deps=[20], prods=[21]), T(2, deps=[20], prods=[22], after=[1], module=1),
                   T(3, deps=[21, 22], after=[0], module=1)], "py": [], "wrap": [], "stale": False}
    d["tasks"][1]["spell"] = {"20": "dotdot"}
    d["tasks"][2]["spell"] = {"20": "rel"}
    out.append(("corpus-diamond", d))
    # function form of after towards: a plain function, a function carrying only a marker, a @task function (all with a product)
    m = {"tasks": [T(0, prods=[20]), T(1, prods=[21]), T(2, prods=[22]), T(3, prods=[23], after=[1], after_style="func"),
                   T(4, prods=[24], after=[0, 1, 2], after_style="list")], "py": [], "wrap": [], "stale": False}
    m["tasks"][1]["marks"] = ["try_last"]
    m["tasks"][2]["force_task"] = True
    out.append(("corpus-afterfn", m))
    # user-chosen names that look like console markup: repeated-task ids /raw, /, bold …, node names with brackets
    def named(spec, tids, nname):
        for t, i in zip(spec["tasks"], tids):
            t["tid"] = i
        spec["nname"] = nname
        return spec
    out.append(("corpus-markup-cycle", named({"tasks": [T(0, deps=[21], prods=[20]), T(1, deps=[20], prods=[21])], "py": [], "wrap": [], "stale": False},
                                             ["/raw", "/"], {"20": "[bold]", "21": "[x]"})))
    out.append(("corpus-markup-aftercycle", named({"tasks": [T(0, prods=[20], after=[1]), T(1, prods=[21], after=[0])], "py": [], "wrap": [], "stale": False},
                                                  ["/bold", "red]x[/red"], {"20": "[red]x[", "21": "]"})))
    out.append(("corpus-markup-shared", named({"tasks": [T(0, deps=[10], prods=[20]), T(1, deps=[10], prods=[20], module=1), T(2, deps=[20])], "py": [], "wrap": [], "stale": False},
                                              ["/raw", "link=a", "["], {"20": "[link=a]", "10": "[1]"})))
    out.append(("corpus-markup-sharedpy", named({"tasks": [T(0, prods=[20]), T(1, prods=[20])], "py": [20], "wrap": [], "stale": False},
                                                ["/", "bold"], {"20": "[/x]"})))
    out.append(("corpus-markup-ok", named({"tasks": [T(0, deps=[10], prods=[20]), T(1, deps=[20], prods=[21], after=[0]), T(2, deps=[21], prods=[22, 23])],
                                           "py": [23], "wrap": [], "stale": False}, ["/raw", "/", "b][i"], {"20": "[bold]", "21": "[", "22": "[b]y[-b]", "23": "[/z]"})))
    return out


# ------------------------------------------------------------------------------------------------
# API layer
# ------------------------------------------------------------------------------------------------

def api_cases(ctx):
    """Generator of (tag, spec). Every ill-formed spec is followed by its repaired twin as a well-formed control."""
    rng = ctx.rng

    def with_control(tag, s, p=1.0):
        yield (tag, s)
        if (p >= 1.0 or rng.random() < p) and dagproj.analyse(s)["ill"]:
            yield ("control", dagproj.repair(s))

    for tag, s in corpus():
        yield (tag, s)
    # exhaustive small scope (thorough: all; quick: a seeded slice)
    total = run = 0
    keep_p = 1.0 if ctx.thorough else min(1.0, 4000 * ctx.budget / 245008)
    for c in dagproj.enum_small(3, 3):
        total += 1
        if keep_p < 1.0 and rng.random() >= keep_p:
            continue
        run += 1
        T, cols, aft = c
        style_bits = rng.randrange(27) if aft else 0
        py_bits = rng.randrange(1 << len(cols)) if (cols and rng.random() < 0.25) else 0
        s = dagproj.small_to_spec(c, style_bits, py_bits)
        if py_bits and rng.random() < 0.5:
            s["wrap"] = [[t["id"], n] for t in s["tasks"] for n in t["deps"] if n in s["py"] and rng.random() < 0.5]
        # thorough: the small scope is exhaustive (about 9 % of it is well-formed); a repaired twin for every fourth ill-formed graph
        yield from with_control("small", s, 0.25 if ctx.thorough else 1.0)
    ctx.extra["small_scope_total"] = total
    ctx.extra["small_scope_run"] = run
    ctx.exhaustive = ctx.thorough
    # random up to 8 tasks; about half of them are made ill-formed
    for _ in range(ctx.scale(1000, 12000)):
        ill = rng.random() < 0.45
        yield from with_control("rand", dagproj.gen_random(rng, nt=(2, 8), cyclic_p=0.8 if ill else 0.0, shared_p=0.35 if ill else 0.0))
    # cycles of every length, through files / PythonNodes / after / mixed
    for _ in range(ctx.scale(8, 60)):
        for length in range(1, 7):
            for through in ("file", "py", "after", "mixed"):
                yield from with_control(f"cycle{length}", dagproj.gen_cycle(rng, length, through))
    # shared products, 2..4 producers, per spelling and mixed, files and PythonNodes
    for _ in range(ctx.scale(5, 30)):
        for k in (2, 3, 4):
            for mode in ("mixed",) + dagproj.SPELLINGS:
                yield from with_control(f"shared{k}", dagproj.gen_shared(rng, k, mode))
            for kind in ("py", "pk", "dir"):
                yield from with_control(f"shared{k}{kind}", dagproj.gen_shared(rng, k, kind=kind))


def check_api_stream(ctx, gen, chunk=20000):
    seeds = [ctx.rng.randrange(1, 4_000_000_000) for _ in range(8 if not ctx.thorough else 16)]
    buf = []
    for item in gen:
        buf.append(item)
        if len(buf) >= chunk:
            check_api(ctx, buf, seeds)
            buf = []
    if buf:
        check_api(ctx, buf, seeds)


def check_api(ctx, cases, seeds=None):
    if seeds is None:
        seeds = [ctx.rng.randrange(1, 4_000_000_000) for _ in range(8)]
    answers = dagproj.run_api([dagproj.api_case(s) for _, s in cases], seeds)
    drv = ctx.driver() if ctx.use_model else None
    model_ans = None
    if drv is not None:
        lines, idx = [], []
        for _, s in cases:
            ls = dagproj.model_lines(s) + ["engine.dag force=0 dry=0 maxfail=inf"]
            lines += ls
            idx.append(len(lines) - 1)
        outs = drv.batch(lines)
        model_ans = [outs[i] for i in idx]
    for i, ((tag, s), a) in enumerate(zip(cases, answers)):
        an = dagproj.analyse(s)
        nt = len(s["tasks"]) >= 1 and (an["ill"] or any(t["deps"] or t["after"] for t in s["tasks"]))
        canon = ["api", [[t["id"], t["deps"], t["prods"], t["after"], t.get("after_style")] for t in s["tasks"]], s.get("py"), s.get("wrap"), s.get("pk"), s.get("dirs")]
        ctx.case(canon, nt, {"layer": "api", "tasks": [{k: t[k] for k in ("id", "deps", "prods", "after") if t.get(k) or k == "id"} for t in s["tasks"]],
                             "py": s.get("py"), "ill_formed": an["ill"], "impl": a.get("res")})
        ctx.dist[f"api:{tag.split('-')[0]}"] += 1
        ctx.dist["api:ill" if an["ill"] else "api:well"] += 1
        if an["cycle"]:
            ctx.dist[f"api:cyclelen={min(an['cycle_len'], 12)}"] += 1
        rep = {"layer": "api", "spec": s, "tag": tag}
        res = a.get("res")
        if res == "harness-error":
            raise common.InfraError(f"dag_worker: {a.get('exc')}")
        if res == "raised":
            ctx.violation(f"create_dag raised {a.get('exc')} instead of accepting or rejecting (tasks {canon[1]})", dict(rep, expect="no-raise"), None)
        elif an["ill"] and res != "rejected":
            _report(ctx, f"reject: ill-formed graph accepted by create_dag (cycle={an['cycle']} shared={an['shared']}; tasks {canon[1]}, py {s.get('py')})",
                    dict(rep, expect="rejected"), an)
        elif not an["ill"] and res == "rejected":
            ctx.violation(f"accept: well-formed graph rejected by create_dag (tasks {canon[1]}, py {s.get('py')})", dict(rep, expect="accepted"), None)
        if model_ans is not None:
            m = dagproj.parse_dag_answer(model_ans[i])
            ctx.traces_validated += 1
            if m[0] == "bad":
                ctx.disagreement(f"engine.dag: unexpected answer {m[1]!r}", rep)
            elif (m[0] == "rejected") != (res == "rejected"):
                ctx.disagreement(f"engine.dag: implementation {res}, model {m[0]}:{m[1] if m[0] == 'rejected' else ''} (tasks {canon[1]}, py {s.get('py')})", rep)
            elif m[0] == "ok" and res == "ok":
                ia = {int(k): v for k, v in a["anc"].items()}
                if ia != m[1]:
                    ctx.disagreement(f"engine.dag: task ancestors differ: implementation {ia}, model {m[1]} (tasks {canon[1]})", rep)
                if m[2] != "0":
                    ctx.disagreement("engine.dag: model's accepted graph has a cycle", rep)


# ------------------------------------------------------------------------------------------------
# end-to-end layer
# ------------------------------------------------------------------------------------------------

def e2e_cases(ctx):
    rng = ctx.rng
    cases = [(tag, s) for tag, s in corpus()]
    # a seeded slice of the small scope with every after-form
    small = list(dagproj.enum_small(3, 3)) if ctx.thorough else None
    n_small = ctx.scale(24, 600)
    if small is None:
        # reservoir over the generator without materialising it
        pick = []
        for i, c in enumerate(dagproj.enum_small(3, 3)):
            if len(pick) < n_small:
                pick.append(c)
            else:
                j = rng.randrange(i + 1)
                if j < n_small:
                    pick[j] = c
    else:
        pick = rng.sample(small, min(n_small, len(small)))
    for c in pick:
        T, cols, aft = c
        s = dagproj.small_to_spec(c, rng.randrange(27), rng.randrange(1 << len(cols)) if rng.random() < 0.3 else 0, one_module=rng.random() < 0.7)
        if rng.random() < 0.5:
            dagproj.add_kinds(rng, s)
        else:
            dagproj.add_forms(rng, s)
        dagproj.add_spellings(rng, s)
        s["stale"] = rng.random() < 0.4
        cases.append(("small", s))
    for _ in range(ctx.scale(32, 600)):
        ill = rng.random() < 0.45
        cases.append(("rand", dagproj.gen_random(rng, nt=(2, 8), cyclic_p=0.8 if ill else 0.0, shared_p=0.35 if ill else 0.0)))
    for _ in range(ctx.scale(1, 6)):
        for length in range(1, 7):
            for through in ("file", "py", "after", "mixed"):
                cases.append((f"cycle{length}", dagproj.gen_cycle(rng, length, through)))
    # function form of after (single reference / list) towards plain, @task-decorated and marker-only functions, with and without products
    for _ in range(ctx.scale(14, 200)):
        cases.append(("afterfn", dagproj.gen_after_forms(rng, close_cycle=rng.random() < 0.3)))
    for _ in range(ctx.scale(1, 5)):
        for k in (2, 3, 4):
            for mode in ("mixed", rng.choice(dagproj.SPELLINGS)):
                cases.append((f"shared{k}", dagproj.gen_shared(rng, k, mode)))
            for kind in ("py", "pk", "dir"):
                cases.append((f"shared{k}{kind}", dagproj.gen_shared(rng, k, kind=kind)))
    # every ill-formed project is repaired and built again anyway (second build); add independent well-formed controls up to >= 50 %
    n_ill = sum(1 for _, s in cases if dagproj.analyse(s)["ill"])
    n_well = len(cases) - n_ill
    while n_well < n_ill:
        s = dagproj.gen_random(rng, nt=(2, 8))
        if not dagproj.analyse(s)["ill"]:
            cases.append(("control", s))
            n_well += 1
    # every project is built under options that must not matter for well-formedness
    for _, s in cases:
        s["opts"] = dagproj.gen_opts(rng)
        if "pstyle" not in s["tasks"][0]:
            dagproj.add_product_styles(rng, s)
        # user-chosen names (task ids, node names), many of them looking like console markup, in about half of the projects
        if "nname" not in s and rng.random() < 0.5:
            dagproj.add_names(rng, s)
        # about a third of the projects goes through the programmatic interface build(tasks=[…]) (functions of ONE module, either order)
        if rng.random() < 0.33:
            s["iface"] = rng.choice(["tasks-fwd", "tasks-rev"])
            for t in s["tasks"]:
                t["module"] = 0
    return cases


def run_one_e2e(server, spec):
    root = common.scratch_dir("c09")
    try:
        rec = {"hashseed": server.hashseed}
        rec["forms"] = dagproj.materialise(root, spec, stale=spec.get("stale", False))
        rec["existing1"] = [n for n in {x for t in spec["tasks"] for x in t["deps"] + t["prods"]} if dagproj.node_file(root, spec, n).exists()]
        pre = dagproj.snapshot(root)
        project.clear_log(root)
        opts = dict(spec.get("opts") or {})

        def iface_args(sp):
            if sp.get("iface", "paths") == "paths":
                return {}
            names = [project.tname(t["id"]) for t in sorted(sp["tasks"], key=lambda t: t["id"])]
            if sp["iface"] == "tasks-rev":
                names.reverse()
            return {"tasks_from": {"module": "m0.task_m0" if sp.get("subdirs") else "task_m0", "names": names}}

        obs = server.build(root, opts, **iface_args(spec))
        obs["log"] = project.read_log(root)
        rec["obs1"] = obs
        rec["untouched"] = dagproj.snapshot(root) == pre
        if obs.get("exit") == 4:
            spec2 = dagproj.repair(spec)
            rec["spec2"] = spec2
            dagproj.materialise(root, spec2, stale=False)
            rec["existing2"] = [n for n in {x for t in spec2["tasks"] for x in t["deps"] + t["prods"]} if dagproj.node_file(root, spec2, n).exists()]
            project.clear_log(root)
            obs2 = server.build(root, dict(opts, dry_run=False), **iface_args(spec2))
            obs2["log"] = project.read_log(root)
            rec["obs2"] = obs2
        return rec
    finally:
        shutil.rmtree(root, ignore_errors=True)


_NAME = __import__("re").compile(r"task_t(\d+)x")


def name_to_id(name):
    """task_t03x / task_t03x[<id>] (possibly prefixed by the module path) -> 3"""
    m = _NAME.search(str(name).split("::")[-1])
    return int(m.group(1)) if m else None


def derive_picks(obs):
    picks = [name_to_id(r[0]) for r in obs.get("reports", [])]
    started = [int(x[1]) for x in obs["log"] if x[0] == "S"]
    extra = [t for t in started if t not in picks]
    return picks + extra[:1], bool(extra)


def _model_build(drv, spec, existing, obs, force=False, dry=False):
    """Replay one real build in the model; returns list of differences."""
    py = set(spec.get("py", []))
    for ln in dagproj.model_lines(spec):
        if ln != "engine.reset":
            drv.ask(ln)
    prods = {p for t in spec["tasks"] for p in t["prods"]}
    exist = set(existing) | {n for t in spec["tasks"] for n in t["deps"] if n in py and n not in prods}
    drv.ask(dagproj.model_fs_line(spec, exist))
    picks, _ = derive_picks(obs)
    ans = drv.ask(f"engine.build force={int(bool(force))} dry={int(bool(dry))} maxfail=inf selk=none selm=none picks={','.join(map(str, picks))}")
    out = []
    if not ans.startswith("ok "):
        return [("model rejects the observed schedule", picks, ans)]
    kv = dict(p.split("=", 1) for p in ans[3:].split(" "))
    impl_reports = ",".join(f"{name_to_id(r[0])}:{r[1]}" for r in obs.get("reports", []))
    impl_log = ",".join(x[1] for x in obs["log"] if x[0] == "S")
    if kv["exit"] != str(obs.get("exit")):
        out.append(("exit code", obs.get("exit"), kv["exit"]))
    if kv["reports"] != impl_reports:
        out.append(("outcomes", impl_reports, kv["reports"]))
    if kv["log"] != impl_log:
        out.append(("executed bodies", impl_log, kv["log"]))
    if kv["complete"] != "1":
        out.append(("model expects more picks", impl_reports, ans))
    return out


def check_e2e(ctx, cases):
    nseeds = 8 if not ctx.thorough else 16
    hashseeds = [ctx.rng.randrange(1, 4_000_000_000) for _ in range(nseeds)]
    ctx.extra["hash_seeds"] = hashseeds
    pool = builder.Pool(hashseeds)
    try:
        with ThreadPoolExecutor(max_workers=nseeds) as ex:
            recs = list(ex.map(lambda a: run_one_e2e(pool.pick(a[0]), a[1][1]), enumerate(cases)))
    finally:
        pool.close()
    drv = ctx.driver() if ctx.use_model else None
    for (tag, s), rec in zip(cases, recs):
        an = dagproj.analyse(s)
        obs = rec["obs1"]
        ids = sorted(t["id"] for t in s["tasks"])
        canon = ["e2e", [[t["id"], t["module"], t["deps"], t["prods"], t["after"], t.get("after_style"), sorted(t.get("spell", {}).items())] for t in s["tasks"]],
                 s.get("py"), s.get("stale"), s.get("pk"), s.get("dirs"), s.get("subdirs"), sorted((s.get("opts") or {}).items()),
                 sorted((s.get("pyval") or {}).items()), [t.get("dep_form") for t in s["tasks"]], [t.get("prod_style") for t in s["tasks"]],
                 [[t.get("marks"), t.get("force_task"), sorted((t.get("pstyle") or {}).items()), t.get("tid")] for t in s["tasks"]], s.get("iface"),
                 sorted((s.get("nname") or {}).items())]
        ctx.case(canon, an["ill"] or any(t["deps"] or t["after"] for t in s["tasks"]),
                 {"layer": "e2e", "tasks": [{k: t[k] for k in ("id", "deps", "prods", "after", "spell") if t.get(k) or k == "id"} for t in s["tasks"]],
                  "py": s.get("py"), "ill_formed": an["ill"], "exit": obs.get("exit"), "second_build_exit": rec.get("obs2", {}).get("exit")})
        ctx.dist[f"e2e:{tag.split('-')[0]}"] += 1
        ctx.dist["e2e:ill" if an["ill"] else "e2e:well"] += 1
        ctx.dist[f"e2e:exit={obs.get('exit')}"] += 1
        for k_, v_ in (s.get("opts") or {}).items():
            ctx.dist[f"e2e:opt:{k_}={v_}"] += 1
        ctx.dist[f"e2e:subdirs={bool(s.get('subdirs'))}"] += 1
        ctx.dist[f"e2e:interface={s.get('iface', 'paths')}"] += 1
        nm = any(t.get("tid") is not None for t in s["tasks"]) or bool(s.get("nname"))
        ctx.dist[f"e2e:markup-like-names={nm}:{'ill' if an['ill'] else 'well'}"] += 1
        used = {x for t in s["tasks"] for x in t["deps"] + t["prods"]}
        for kind in ("py", "pk", "dirs"):
            if used & set(s.get(kind, [])):
                ctx.dist[f"e2e:has-{kind}"] += 1
        pyset, pkset = set(s.get("py", [])), set(s.get("pk", []))
        for t in s["tasks"]:
            if any(n in pyset or n in pkset for n in t["deps"]):
                ctx.dist[f"e2e:dep-form={t.get('dep_form', 'bare')}"] += 1
        if used & {int(k) for k in (s.get("pyval") or {})}:
            ctx.dist["e2e:has-py-with-initial-value"] += 1
        for f in rec["forms"].values():
            ctx.dist[f"e2e:form={f}"] += 1
        for t in s["tasks"]:
            for sp in t.get("spell", {}).values():
                ctx.dist[f"e2e:spelling={sp}"] += 1
        if an["cycle"]:
            ctx.dist[f"e2e:cyclelen={min(an['cycle_len'], 12)}"] += 1
        rep = {"layer": "e2e", "spec": s, "tag": tag}
        desc = (f"tasks {[[t['id'], t['deps'], t['prods'], t['after']] for t in s['tasks']]}, py {s.get('py')}, pickle {s.get('pk')}, "
                f"directory nodes {s.get('dirs')}, in-memory nodes with initial value {sorted(s.get('pyval') or {})}, "
                f"dependency forms {[t.get('dep_form', 'bare') for t in s['tasks']]}, declaration forms {rec["forms"]}, "
                f"interface {s.get('iface', 'paths')}, task ids {[t.get('tid') for t in s['tasks']]}, node name suffixes {s.get('nname')}, markers {[t.get('marks', []) for t in s['tasks']]}, bare @task {[bool(t.get('force_task')) for t in s['tasks']]}, module folders {bool(s.get('subdirs'))}, options {s.get('opts')}")
        if obs.get("raised") or obs.get("died"):
            ctx.violation(f"build() raised {obs.get('raised')} ({desc})", dict(rep, expect="no-raise"), None)
            continue
        started = [int(x[1]) for x in obs["log"] if x[0] == "S"]
        if an["ill"]:
            if obs.get("exit") != 4:
                _report(ctx, f"reject (exit code): ill-formed project ended with exit code {obs.get('exit')} instead of 4, bodies run: {started} "
                             f"(cycle={an['cycle']} shared={an['shared']}; {desc})", dict(rep, expect="rejected"), an)
            else:
                if started or obs.get("reports"):
                    ctx.violation(f"reject (bodies ran): exit code 4 but task bodies ran / tasks were reported: log {started}, reports {obs.get('reports')} ({desc})",
                                  dict(rep, expect="rejected"), None)
                if not rec["untouched"]:
                    ctx.violation(f"reject (files changed): a rejected build changed files under data/ ({desc})", dict(rep, expect="rejected"), None)
                o2 = rec["obs2"]
                started2 = sorted(int(x[1]) for x in o2["log"] if x[0] == "S")
                if o2.get("exit") != 0 or started2 != ids:
                    ctx.violation(f"reject (next build): after repairing the declarations the next build must execute every task once: exit {o2.get('exit')}, "
                                  f"executed {started2}, tasks {ids} (state recorded by the rejected build?) ({desc})", dict(rep, expect="rejected"), None)
        else:
            if obs.get("exit") == 4:
                ctx.violation(f"accept: well-formed project rejected with exit code 4 ({desc})", dict(rep, expect="accepted"), None)
        if drv is not None:
            drv.ask("engine.reset")
            o = s.get("opts") or {}
            dis = _model_build(drv, s, rec["existing1"], obs, o.get("force"), o.get("dry_run"))
            if not dis and "obs2" in rec:
                dis = _model_build(drv, rec["spec2"], rec["existing2"], rec["obs2"], o.get("force"), False)
                dis = [("second build: " + d[0], d[1], d[2]) for d in dis]
            ctx.traces_validated += 1
            for what, iv, mv in dis[:1]:
                ctx.disagreement(f"engine.build: {what}: implementation {iv!r}, model {mv!r} ({desc})", dict(rep, what=what))


# ------------------------------------------------------------------------------------------------

def run(ctx):
    ctx.rule = ("(a) the real create_dag on synthetic sessions: every bipartite task/node digraph with ≤3 tasks and ≤3 nodes up to node renaming × every "
                "after relation (thorough: all; quick: seeded slice), random graphs ≤8 tasks, cycles of length 1..6 through files / PythonNodes / after, "
                "products shared by 2..4 tasks; (b) generated projects built through pytask.build (after as function / list / expression, path spellings "
                "rel, ./, c/../, absolute), rejected projects repaired and built again; oracle from the declarations (own DFS); "
                "non-trivial = ill-formed, or at least one dependency / after declaration; distinct by canonical (layer, declarations)")
    import time
    t0 = time.time()
    check_api_stream(ctx, api_cases(ctx))
    t1 = time.time()
    check_e2e(ctx, e2e_cases(ctx))
    ctx.extra["wall_api_s"] = round(t1 - t0, 1)
    ctx.extra["wall_e2e_s"] = round(time.time() - t1, 1)
    well = ctx.dist.get("api:well", 0) + ctx.dist.get("e2e:well", 0)
    ill = ctx.dist.get("api:ill", 0) + ctx.dist.get("e2e:ill", 0)
    ctx.extra["wellformed_share"] = round(well / max(1, well + ill), 3)
    ctx.extra["f1_witness_detected"] = ctx.extra.get("f1_class_cases", 0) > 0


def replay(ctx, obj):
    inp = obj["input"]
    s = copy.deepcopy(inp["spec"])
    if inp.get("layer") == "api":
        check_api(ctx, [(inp.get("tag", "replay"), s)])
    else:
        check_e2e(ctx, [(inp.get("tag", "replay"), s)] * 2)
    if ctx.violations:
        return False, ctx.violations[0]["what"]
    if ctx.known_hits:
        return False, "known finding F1: " + F1_WHAT
    if ctx.disagreements:
        return False, ctx.disagreements[0]["what"]
    return True, "the stored graph is rejected iff it is ill-formed; nothing ran and nothing was recorded when rejected"
