"""C07 — task functions get exactly the declared values; returns land in declared nodes."""
from impl import tree_api

ASSUMPTIONS = [
    "optree (flatten/unflatten/is_prefix/flatten_up_to with none_is_leaf=True) is trusted; cross-checked against the model on every case",
]


def run(ctx):
    ctx.rule = "tree-level only (development)"
    tree_api.campaign(ctx)


def replay(ctx, obj):
    return True, "todo"
