"""C07 — task functions get exactly the declared values; returns land in declared nodes."""
from impl import args_api, args_obj, tree_api

ASSUMPTIONS = [
    "optree (flatten/unflatten/is_prefix/flatten_up_to with none_is_leaf=True) is trusted; cross-checked against the model on every case",
    "containers other than dict/list/tuple (namedtuple, deque, OrderedDict, custom registrations) and dicts with keys of mixed types are outside the property and the model",
    "path resolution, node names/signatures, pickling and the DataCatalog's file layout are abstracted in the model (exercised end-to-end only)",
    "PythonNodes shared between tasks (value=no_default) and provisional nodes in arguments are not modelled",
]


def run(ctx):
    ctx.rule = ("(a) pytask's optree wrappers + PyTreeSpec.is_prefix/flatten_up_to on all trees of height ≤2 / width ≤3 (plus random height 3), all "
                "(annotation, return) pairs of height ≤1 and derived fitting / non-fitting returns; (b) generated task modules mixing every "
                "declaration form (incl. task generators, one kwargs dict / container object shared by several declarations), built through "
                "pytask.build, bodies log the canonical kwargs and return values of chosen shape; (c) 2-3 builds inside one process with "
                "pickled inputs rewritten in between (by the harness or by a task through a Path product); (d) node / task objects: PythonNode "
                "objects shared by producer and consumers (initial value or not, collection order, 1-2 in-process builds over the same "
                "functions), TaskWithoutPath objects and functions with DirectoryNode dependencies over 2-3 in-process builds with "
                "changing file sets; "
                "non-trivial = the tree has a container and ≥2 leaves (a: the tree / both trees of a pair have a container); "
                "distinct by canonical input")
    tree_api.campaign(ctx)
    handle = args_obj.start(ctx)        # stream (d) runs in the background while stream (b)/(c) builds
    args_api.campaign(ctx)
    args_obj.finish(ctx, handle)
    ctx.extra["corpus_witnesses"] = [s["name"] for s in args_api.corpus()]   # F70, F71, F72 (fixed): must pass


def replay(ctx, obj):
    inp = obj["input"]
    if inp.get("layer") == "optree":
        case = inp["case"]
        obs = tree_api.run_worker([case], nproc=1)
        tree_api.check_cases(ctx, [case], obs)
    elif inp.get("layer") == "obj":
        res = args_obj.run_cases([inp["case"]], nproc=1)
        args_obj.check_cases(ctx, [inp["case"]], res)
    elif inp.get("layer") == "seq":
        res = args_api.run_sequences([inp["seq"]], nproc=1)
        args_api.check_sequences(ctx, [inp["seq"]], res)
    else:
        projs = [inp["project"]] if inp.get("project") else [[inp["spec"]]]
        res = args_api.run_projects(projs, nservers=1)
        args_api.check_projects(ctx, projs, res)
    fresh = [v for v in ctx.violations if not v["finding"]]
    if fresh:
        return False, fresh[0]["what"]
    if ctx.violations:
        return False, f"known finding {ctx.violations[0]['finding']}: " + ctx.violations[0]["what"]
    if ctx.disagreements:
        return False, ctx.disagreements[0]["what"]
    return True, "declared values and return positions are preserved on the stored case"
