"""C10 — a dry run changes nothing and over-approximates the next build."""
from __future__ import annotations

import copy
from concurrent.futures import ThreadPoolExecutor

from impl import builder, dryrun, engine, histgen

ASSUMPTIONS = [
    "projects without task generators (the property excludes them); task bodies write only their declared products and the harness's body log",
    "'pytask's own cache directory' = .pytask/ below the project root; __pycache__ directories (written by the interpreter, "
    "switched off here by PYTHONDONTWRITEBYTECODE) are excluded from the snapshot as well; directories are not compared: a dry run "
    "does create the parent directories of products, the property speaks of regular files",
    "'had the dry run not taken place' is realised by restoring the complete project directory (including .pytask) from a copy that "
    "preserves bytes, modes and mtimes at the same absolute path; the restore itself is checked by a snapshot",
    "failure limits (max_failures / stop_after_first_failure) count FAILED tasks; a dry run fails a task only when a dependency is missing, so the "
    "superset clause is asserted with a limit too whenever the dry run reports no FAIL (the limit must not cut the announcement); with a limit and "
    "a failing dry run the processed set depends on the hash-seed dependent order and is compared with the model only; equality of the executed "
    "sets (clause 4) is asserted without a limit",
    "provisional stream: projects with DirectoryNode producers / consumers (generator impl.prov_api, no task generators) go through the same twin "
    "experiment with the implementation-only oracle (the static engine model has no directory nodes; those are C18's model)",
    "task-object stream: PTask OBJECTS (TaskWithoutPath / Task instances with PathNodes and Mark objects, created once by a plain module) are "
    "handed to build(tasks=[...]) and reused by the dry run and the build of one interpreter; compared with the build alone over fresh objects in "
    "its own interpreter; implementation-only oracle (clauses 2-4; the file snapshot around the dry run is taken by the other streams)",
    "in-process stream: dry run and build in ONE interpreter are compared with the build alone in its own process; restricted to prefix-style task "
    "functions (with pytask marks) because functions declared with @task are not collected by a second build of one interpreter at all "
    "(DESIGN §6 F7, in C15's scope)",
    "the observed schedules of all three builds are replayed in the Lean engine; theorems hold for every legal schedule",
    "sha256 collision freedom (contents are compared as integers in the model)",
]
EDITS = ["write", "write", "revert", "rewrite_same", "touch", "delete_input", "bump", "revert_module", "tamper", "delete_product",
         "rewire", "add_task"]
PREFIX_CFGS = [{}, {}, {}, {"force": True}, {"dry": True}, {"maxfail": 1}, {"k": "task_t00x"}, {"k": "task_t01x or task_t02x"},
               {"m": "markone"}, {"k": "not task_t01x"}]
TWIN_CFGS = [{}, {}, {}, {"force": True}, {"force": True}, {"k": "task_t00x or task_t02x"}, {"k": "not task_t01x"}, {"m": "markone"},
             {"m": "not marktwo"}, {"force": True, "k": "task_t01x"}, {"maxfail": 1}, {"k": "task_t03x", "m": "markone or marktwo"},
             {"maxfail": 1}, {"maxfail": 2}, {"maxfail": 1, "force": True}]
INPROC_EDITS = ["write", "write", "revert", "touch", "delete_input", "bump", "tamper", "delete_product"]


# ------------------------------------------------------------------------------------------------
# oracle (implementation observations only)
# ------------------------------------------------------------------------------------------------

def _names(obs, id_of):
    return {id_of(r[0]): r[1] for r in obs.get("reports", [])}


def oracle(hist, res, id_of=engine.name_to_id):
    bad = []
    tw = res["twin"]
    cfg = tw["cfg"]
    d, a, b = tw["dry"]["obs"], tw["a"]["obs"], tw["b"]["obs"]
    for key, o in (("dry run", d), ("build after the dry run", a), ("build without the dry run", b)):
        if o.get("raised") or o.get("died") or o.get("timeout"):
            bad.append(("returns", f"{key}: build() raised {o.get('raised')} / died / did not end", None))
    if bad:
        return bad
    if tw["restore_changes"]:
        raise RuntimeError(f"harness: restoring the project directory changed files: {tw['restore_changes'][:3]}")
    # 1. no regular file outside .pytask created / modified / deleted by the dry run
    if tw["dry_file_changes"]:
        bad.append(("files", f"the dry run changed regular files outside .pytask: {tw['dry_file_changes'][:4]}", None))
    # 2. no task function executed by the dry run
    if d["log"]:
        bad.append(("nolog", f"the dry run executed task bodies: {d['log'][:6]}", None))
    bad += relational("task objects reused by both builds of one interpreter: " if hist.get("stream") == "objects" else "",
                      cfg, tw.get("spec"), d, a, b, id_of)
    if tw.get("inproc"):
        # the same two builds in ONE interpreter, compared with the build alone (own process) from the same state
        di, ai = tw["inproc"]["dry"]["obs"], tw["inproc"]["a"]["obs"]
        if di.get("raised") or ai.get("raised"):
            bad.append(("returns", f"in one interpreter: build() raised {di.get('raised')} / {ai.get('raised')}", None))
        else:
            if di["log"]:
                bad.append(("nolog", f"in one interpreter: the dry run executed task bodies: {di['log'][:6]}", None))
            bad += relational("in one interpreter: ", cfg, tw.get("spec"), di, ai, b, id_of)
    return bad


def relational(pfx, cfg, spec, d, a, b, id_of):
    """clauses 3 and 4. A failure limit (max_failures / stop_after_first_failure) counts FAILED tasks; a dry run fails a task
    only when a dependency is missing, so a dry run that reports no FAIL must have announced everything the build executes, with or
    without a limit. With a limit AND a failing dry run the announced set depends on the hash-seed dependent order: not asserted."""
    bad = []
    if d.get("exit") == 4:
        return bad
    dout, aout = _names(d, id_of), _names(a, id_of)
    announced = {t for t, o in dout.items() if o == "WOULD_BE_EXECUTED"}
    ex_a, ex_b = set(engine.executed(a)), set(engine.executed(b))
    limited = cfg.get("maxfail") is not None
    if not limited or "FAIL" not in dout.values():
        if not ex_a <= announced:
            bad.append(("superset", f"{pfx}the build after the dry run executed {sorted(ex_a - announced)} which the dry run did not announce "
                                    f"(options {cfg}, dry outcomes {dout}, build outcomes {aout})",
                        classify_f20(spec, cfg, ex_a - announced, dout) if spec and "pats" not in spec else None))
    if not limited:
        if ex_a != ex_b:
            bad.append(("noninterf", f"{pfx}after a dry run the build executed {sorted(ex_a)}, without the dry run {sorted(ex_b)} "
                                     f"(outcomes after dry run {aout}, without {_names(b, id_of)})", None))
    return bad


def classify_f20(spec, cfg, offending, dry_outcomes):
    """Known finding F20 (narrow): the builds are forced, and EVERY executed-but-unannounced task carries the persist
    marker and was reported PERSISTENCE by the dry run. Anything else is a fresh violation."""
    marks = {t["id"]: t.get("marks", []) for t in spec["tasks"]}
    if cfg.get("force") and offending and all("persist" in marks.get(t, []) and dry_outcomes.get(t) == "PERSISTENCE" for t in offending):
        return "F20"
    return None


# ------------------------------------------------------------------------------------------------
# inputs
# ------------------------------------------------------------------------------------------------

def f20_witness():
    """b -> (101) -> t, t marked persist; build; overwrite 101 by hand; forced dry run says PERSISTENCE for t, the forced
    build re-creates 101 (equal to the recorded state again) and then executes t."""
    spec = {"tasks": [{"id": 0, "module": 0, "deps": [100], "prods": [101], "after": [], "marks": [], "beh": "ok", "style": "default"},
                      {"id": 1, "module": 0, "deps": [101], "prods": [102], "after": [], "marks": ["persist"], "beh": "ok", "style": "default"}],
            "versions": {"0": 0}, "inputs": {"100": 5}}
    return {"tag": "corpus-F20", "spec": spec, "steps": [["build", {}], ["write", 101, 777]], "twin": {"force": True}}


def f34_witness():
    """a -> b -> c as TaskWithoutPath OBJECTS reused by a dry run and the following build of one interpreter (finding F34, fixed f6fd08b)"""
    spec = {"tasks": [{"id": 0, "module": 0, "deps": [100], "prods": [101], "after": [], "marks": [], "beh": "ok", "style": "default", "objkind": "nopath"},
                      {"id": 1, "module": 0, "deps": [101], "prods": [102], "after": [], "marks": [], "beh": "ok", "style": "default", "objkind": "nopath"},
                      {"id": 2, "module": 0, "deps": [102], "prods": [103], "after": [], "marks": ["try_last"], "beh": "ok", "style": "default", "objkind": "task"}],
            "versions": {"0": 0}, "inputs": {"100": 5}}
    return {"tag": "corpus-F34", "stream": "objects", "spec": spec, "steps": [], "twin": {}}


def f19_witness(force=True):
    spec = {"tasks": [{"id": 0, "module": 0, "deps": [100], "prods": [101], "after": [], "marks": ["persist"], "beh": "ok", "style": "default"}],
            "versions": {"0": 0}, "inputs": {"100": 5}}
    return {"tag": "corpus-F19", "spec": spec, "steps": [["build", {}], ["write", 100, 6]], "twin": {"force": True} if force else {}}


def corpus():
    hs = [f19_witness(True), f19_witness(False), f20_witness(), f34_witness()]
    # persist task in the middle of a chain, changed module, downstream consumer
    chain = {"tasks": [
        {"id": 0, "module": 0, "deps": [100], "prods": [101], "after": [], "marks": [], "beh": "ok", "style": "default"},
        {"id": 1, "module": 1, "deps": [101], "prods": [102], "after": [], "marks": ["persist"], "beh": "ok", "style": "annotated"},
        {"id": 2, "module": 0, "deps": [102], "prods": [103], "after": [], "marks": [], "beh": "ok", "style": "default"}],
        "versions": {"0": 0, "1": 0}, "inputs": {"100": 5}}
    for tw in ({}, {"force": True}, {"k": "task_t01x"}):
        hs.append({"tag": "corpus-persist-chain", "spec": copy.deepcopy(chain), "steps": [["build", {}], ["bump", 1]], "twin": tw})
        hs.append({"tag": "corpus-persist-chain", "spec": copy.deepcopy(chain), "steps": [["build", {}], ["write", 100, 7]], "twin": tw})
    return hs


def systematic():
    """chain 0 -> 1 -> 2 plus independent 3; marker on task 1 × previous state × configuration of the twin builds."""
    hs = []
    for mark in ([], ["skip"], ["persist"], ["skipif_true"]):
        spec = {"tasks": [
            {"id": 0, "module": 0, "deps": [100], "prods": [110], "after": [], "marks": [], "beh": "ok", "style": "default"},
            {"id": 1, "module": 1, "deps": [110], "prods": [111], "after": [], "marks": list(mark), "beh": "ok", "style": "default"},
            {"id": 2, "module": 0, "deps": [111], "prods": [112], "after": [], "marks": ["markone"], "beh": "ok", "style": "annotated"},
            {"id": 3, "module": 1, "deps": [100], "prods": [113], "after": [], "marks": [], "beh": "ok", "style": "default"}],
            "versions": {"0": 0, "1": 0}, "inputs": {"100": 5}}
        states = {
            "fresh": [],
            "built": [["build", {}]],
            "built+input": [["build", {}], ["write", 100, 6]],
            "built+module": [["build", {}], ["bump", 1]],
            "built+del-product": [["build", {}], ["delete", 111]],
            "built+tamper": [["build", {}], ["write", 110, 777]],
            "partial": [["build", {"k": "task_t00x"}]],
            "failed": [["setbeh", 1, "late"], ["build", {}], ["setbeh", 1, "ok"]],
            "still-failing": [["build", {}], ["setbeh", 0, "early"], ["write", 100, 8]],
            "missing-input": [["build", {}], ["delete", 100]],
        }
        for sname, steps in states.items():
            for tw in ({}, {"force": True}, {"k": "task_t01x"}, {"m": "markone"}, {"maxfail": 1}):
                hs.append({"tag": f"sys-{'+'.join(mark) or 'plain'}-{sname}", "spec": copy.deepcopy(spec), "steps": copy.deepcopy(steps), "twin": dict(tw)})
    return hs


def histories(ctx):
    rng = ctx.rng
    hs = corpus()
    sysl = systematic()
    if ctx.thorough:
        hs += sysl
    else:
        hs += rng.sample(sysl, min(len(sysl), ctx.scale(30, 0)))
    for i in range(ctx.scale(44, 800)):
        spec = engine.gen_spec(rng, nt=(2, 7), after_p=0.25, after_needs_prods=True, user_markers=True,
                               marks=(("skip", 0.07), ("skipif_true", 0.05), ("skipif_false", 0.05), ("persist", 0.3), ("try_first", 0.1), ("try_last", 0.1)),
                               behs=("ok", "ok", "ok", "ok", "ok", "early", "late", "omit"))
        nsteps = rng.choice([0, 1, 2, 3, 4, 5, 6, 8])
        h = histgen.random_history(rng, spec, nsteps, EDITS, PREFIX_CFGS)
        if nsteps and rng.random() < 0.3:
            # make sure the recorded state is not empty: build first
            h["steps"].insert(0, ["build", {}])
        fails = [t for t in spec["tasks"] if t["beh"] != "ok"]
        if fails and rng.random() < 0.4:
            h["steps"].append(["setbeh", rng.choice(fails)["id"], "ok"])
        h["twin"] = dict(rng.choice(TWIN_CFGS))
        hs.append(h)
    hs += [inproc_history(rng) for _ in range(ctx.scale(12, 120))]
    hs += [prov_history(rng) for _ in range(ctx.scale(22, 300))]
    hs += [obj_history(rng) for _ in range(ctx.scale(10, 120))]
    return hs


def obj_history(rng):
    """PTask OBJECTS (TaskWithoutPath / Task instances with PathNodes and Mark objects) handed to build(tasks=[...]) and REUSED by the
    dry run and the build of one interpreter"""
    spec = engine.gen_spec(rng, nt=(2, 6), after_p=0.0, prodless_p=0.05, nomods=(1, 1), styles=("default",),
                           marks=(("skipif_false", 0.2), ("persist", 0.15), ("try_first", 0.2), ("try_last", 0.15), ("skip", 0.04)),
                           behs=("ok", "ok", "ok", "ok", "ok", "ok", "early"))
    for t in spec["tasks"]:
        t["objkind"] = rng.choice(["nopath", "nopath", "task"])
    ins = [int(k) for k in spec["inputs"]]
    prods = [p for t in spec["tasks"] for p in t["prods"]]
    steps = []
    for _ in range(rng.choice([0, 0, 1, 1, 2])):
        steps.append(["build", dict(rng.choice([{}, {}, {"force": True}, {"k": "task_t00x"}]))])
        for _ in range(rng.choice([0, 1, 1, 2])):
            k = rng.random()
            if k < 0.5:
                steps.append(["write", rng.choice(ins), rng.randint(100, 999)])
            elif k < 0.65:
                steps.append(["touch", rng.choice(ins + prods)])
            elif k < 0.8 and prods:
                steps.append(["write", rng.choice(prods), rng.randint(1000, 9999)])
            elif prods:
                steps.append(["delete", rng.choice(prods)])
    return {"tag": "objects", "stream": "objects", "spec": spec, "steps": steps,
            "twin": dict(rng.choice([{}, {}, {}, {"force": True}, {"k": "not task_t00x"}, {"maxfail": 1}]))}


def inproc_history(rng):
    """prefix-style task functions carrying pytask marks; the twin builds additionally run in ONE interpreter"""
    from impl import project
    spec = engine.gen_spec(rng, nt=(2, 6), after_p=0.0, prodless_p=0.05, user_markers=True, styles=("default", "annotated"),
                           marks=(("skipif_false", 0.3), ("persist", 0.2), ("try_first", 0.25), ("try_last", 0.2), ("skip", 0.04)),
                           behs=("ok", "ok", "ok", "ok", "ok", "ok", "early"))
    h = histgen.random_history(rng, spec, rng.choice([0, 0, 1, 2, 3, 4]), INPROC_EDITS, [{}, {}, {"force": True}, {"k": "task_t00x"}, {"maxfail": 1}])
    h["twin"] = dict(rng.choice([{}, {}, {}, {"force": True}, {"k": "not task_t00x"}, {"m": "not marktwo"}, {"maxfail": 1}]))
    h["tag"] = "inproc"
    mods = sorted({t["module"] for t in spec["tasks"]})
    h["inproc"] = not any("@task" in project.render_module(spec, m) for m in mods)
    return h


def prov_history(rng):
    """DirectoryNode producers (count and contents steered by inputs) and consumers of the same patterns, persist / try_first marks,
    a plain task further down; states: fresh, built, built + edits (re-run of the producer only, of a consumer only, files dropped in or
    removed by hand)."""
    from impl import prov_api
    nn, nt = [100], [1]
    pats, tasks, inputs = {}, [], {}

    def node(content=None):
        n = nn[0]
        nn[0] += 1
        if content is not None:
            inputs[str(n)] = content
        return n

    def tid():
        t = nt[0]
        nt[0] += 1
        return t

    def pat(d, kind):
        pid = prov_api.pat_id(d, kind)
        pats[str(pid)] = {"dir": d, "kind": kind}
        return pid
    ndirs = rng.randint(1, 2)
    produced = []
    for d in range(ndirs):
        pid = pat(d, rng.choice(["f", "f", "g", "all"]))
        prods = [node()] if rng.random() < 0.2 else []
        tasks.append({"id": tid(), "cnt": node(rng.randint(1, 4)), "deps": [node(rng.randint(1, 50))] if rng.random() < 0.7 else [], "pdeps": [],
                      "prods": prods, "pprods": [pid], "gen": False, "fails": False, "parent": None,
                      "pstyle": rng.choice(["param", "return"]), "dstyle": "default", "try_first": rng.random() < 0.15})
        produced.append(pid)
    for _ in range(rng.choice([1, 1, 2, 2, 3])):
        pd = [rng.choice(produced)]
        if rng.random() < 0.2:
            q = pat(rng.randrange(ndirs), rng.choice(["f", "g"]))
            if q not in pd:
                pd.append(q)
        tasks.append({"id": tid(), "cnt": None, "deps": [node(rng.randint(1, 50))] if rng.random() < 0.4 else [], "pdeps": pd,
                      "prods": [node() for _ in range(rng.choice([1, 1, 1, 2]))], "pprods": [], "gen": False, "fails": False, "parent": None,
                      "pstyle": "param", "dstyle": rng.choice(["default", "annotated"]), "persist": rng.random() < 0.15,
                      "try_first": rng.random() < 0.15, "dname": rng.random() < 0.2})
    cons_prods = [p for t in tasks for p in t["prods"] if t["pdeps"]]
    if cons_prods and rng.random() < 0.6:
        tasks.append({"id": tid(), "cnt": None, "deps": [rng.choice(cons_prods)], "pdeps": [], "prods": [node()], "pprods": [], "gen": False,
                      "fails": False, "parent": None, "pstyle": "param", "dstyle": "default"})
    spec = {"pats": pats, "tasks": tasks, "perfile": {}, "inputs": inputs, "version": 0}
    steps = []
    for pid in pats:
        if int(pid) not in produced:
            for n in rng.sample(list(prov_api.pat_range(spec, pid)), rng.randint(1, 3)):
                steps.append(["write", n, rng.randint(1, 9)])
    cnts = [t["cnt"] for t in tasks if t.get("cnt") is not None]
    prod_deps = [n for t in tasks if t["pprods"] for n in t["deps"]]
    cons_deps = [n for t in tasks if t["pdeps"] for n in t["deps"]]
    files = sorted({n for pid in pats for n in prov_api.pat_range(spec, pid)})
    allprods = [p for t in tasks for p in t["prods"]]
    for _ in range(rng.choice([0, 1, 1, 1, 2])):
        steps.append(["build", dict(rng.choice([{}, {}, {}, {"force": True}]))])
        for _ in range(rng.choice([0, 1, 1, 2])):
            k = rng.random()
            if k < 0.3:
                steps.append(["write", rng.choice(cnts), rng.randint(0, 5)])
            elif k < 0.55 and prod_deps:
                steps.append(["write", rng.choice(prod_deps), rng.randint(51, 99)])
            elif k < 0.7 and cons_deps:
                steps.append(["write", rng.choice(cons_deps), rng.randint(51, 99)])
            elif k < 0.8:
                steps.append(["write", rng.choice(files), rng.randint(1, 9)])
            elif k < 0.9:
                steps.append(["delete", rng.choice(files)])
            elif allprods:
                steps.append(["delete", rng.choice(allprods)])
    return {"tag": "prov", "stream": "prov", "spec": spec, "steps": steps,
            "twin": dict(rng.choice([{}, {}, {}, {}, {"force": True}, {"maxfail": 1}]))}


# ------------------------------------------------------------------------------------------------
# campaign
# ------------------------------------------------------------------------------------------------

def state_kind(hist, res):
    builds = [r for r in res["records"] if r["step"][0] == "build" and not r["cfg"].get("dry")]
    if not builds:
        return "fresh"
    edits_after = False
    for r in reversed(res["records"]):
        if r["step"][0] == "build":
            break
        edits_after = True
    if any(o == "FAIL" for bld in builds for o in engine.outcomes(bld["obs"]).values()):
        return "after-failures" + ("+edits" if edits_after else "")
    ntasks = len(res["twin"]["spec"]["tasks"])
    if all(len([o for o in engine.outcomes(bld["obs"]).values() if o in ("SUCCESS", "SKIP_UNCHANGED", "PERSISTENCE")]) < ntasks for bld in builds):
        return "partially-built" + ("+edits" if edits_after else "")
    return "built+edits" if edits_after else "built"


def campaign(ctx, hs, nservers=None):
    rng = ctx.rng
    nservers = nservers or 8
    hashseeds = [rng.randrange(1, 4_000_000_000) for _ in range(nservers)]
    ctx.extra["hash_seeds"] = hashseeds
    from impl import prov_api
    pool = prov_api.TimedPool(hashseeds)      # build servers with a deadline per build
    try:
        def one(args):
            i, h = args
            if h.get("stream") == "prov":
                return dryrun.run_prov_twin(pool.pick(i), h)
            if h.get("stream") == "objects":
                return dryrun.run_obj_twin(pool.pick(i), h)
            return dryrun.run_twin(pool.pick(i), h)
        with ThreadPoolExecutor(max_workers=nservers) as ex:
            results = list(ex.map(one, enumerate(hs)))
    finally:
        pool.close()
    drv = ctx.driver() if ctx.use_model else None
    for h, res in zip(hs, results):
        tw = res["twin"]
        prov = h.get("stream") in ("prov", "objects")          # implementation-only streams
        ctx.dist["stream=" + ("task-objects (in-process)" if h.get("stream") == "objects" else "provisional" if prov else "in-process+static" if tw.get("inproc") else "static")] += 1
        d, a = tw["dry"]["obs"], tw["a"]["obs"]
        dout = engine.outcomes(d) if not d.get("raised") else {}
        announced = [t for t, o in dout.items() if o == "WOULD_BE_EXECUTED"]
        executed = engine.executed(a) if not a.get("raised") else []
        nt = bool(announced) and bool(executed)
        sample = None
        if nt:
            sample = {"tasks": [{k: t[k] for k in ("id", "deps", "prods", "after", "marks", "beh", "cnt", "pdeps", "pprods", "persist") if t.get(k)} for t in tw["spec"]["tasks"]],
                      "prefix": [s[:3] if s[0] != "respec" else ["respec"] for s in h["steps"]][:8], "twin_cfg": tw["cfg"],
                      "dry_outcomes": {str(k): v for k, v in dout.items()}, "executed_after_dry": executed,
                      "executed_without_dry": engine.executed(tw["b"]["obs"]), "files_snapshotted": tw["nfiles"]}
        ctx.case([h["spec"], h["steps"], h["twin"]], nt, sample)
        ctx.dist["state=" + state_kind(h, res)] += 1
        ctx.dist["twin=" + ("+".join(sorted(tw["cfg"])) or "plain")] += 1
        ctx.dist[f"tasks={len(tw['spec']['tasks'])}"] += 1
        for o in dout.values():
            ctx.dist["dry-outcome=" + o] += 1
        for o in (engine.outcomes(a).values() if not a.get("raised") else []):
            ctx.dist["real-outcome=" + o] += 1
        if tw["dirs_created_by_dry"]:
            ctx.dist["dry-run-created-directories"] += 1
        ctx.dist[f"dry-exit={d.get('exit')}"] += 1
        for kind, msg, finding in oracle(h, res):
            ctx.violation(f"{kind}: {msg}", {"history": h, "layer": "c10-twin"}, finding=finding)
        if drv is not None and not prov:
            dis = dryrun.replay_twin_in_model(drv, h, res, engine.sel_eval)
            ctx.traces_validated += 1
            for what, iv, mv in dis[:1]:
                ctx.disagreement(f"engine model, {what}: implementation {iv!r}, model {mv!r}",
                                 {"history": h, "what": what, "impl": iv, "model": mv, "layer": "c10-twin"})
    return results


def run(ctx):
    ctx.rule = ("generated projects (skip / skipif / persist / try_first / try_last / user markers, failing bodies) brought into a recorded state by 0-9 "
                "steps (builds: plain, forced, dry, max_failures=1, -k, -m; edits: write / revert / identical rewrite / touch / delete input, bump / revert "
                "module, tamper / delete product, rewire, add task, switch a failure off), then dry run + real build vs. real build alone from the restored "
                "state (plain, force, -k, -m, combinations, max_failures 1/2 ± force); corpus (F19 / F20 witnesses, persist chains) and a systematic family "
                "(marker on the middle task of a chain × 10 previous states × 5 configurations) first; in-process stream: prefix-style task functions with "
                "pytask marks, the two builds additionally in ONE interpreter; provisional stream: DirectoryNode producers / consumers (fresh, built, "
                "producer-only / consumer-only re-runs, files dropped in or removed by hand), implementation-only oracle; task-object stream: hand-built "
                "TaskWithoutPath / Task objects with marks, reused by dry run and build in one interpreter via build(tasks=[...]); non-trivial = the dry run announced "
                "≥1 task and the following real build executed ≥1 task; distinct by canonical (spec, prefix steps, twin configuration)")
    campaign(ctx, histories(ctx))
    # self-test of the oracle: the F20 witness (corpus) must still be flagged — or have been repaired
    ctx.extra["f20_witness_detected"] = "F20" in {v["finding"] for v in ctx.violations}


def replay(ctx, obj):
    campaign(ctx, [obj["input"]["history"]] * 4, nservers=4)
    if ctx.violations:
        return False, ctx.violations[0]["what"]
    if ctx.disagreements:
        return False, ctx.disagreements[0]["what"]
    return True, "the dry run changed nothing, announced every task the next build executed, and did not influence that build"
