"""C16 — selection expressions for -k / -m / after follow Boolean semantics exactly."""
from impl import expr_api

ASSUMPTIONS = [
    "the Unicode table behind \\w of `re` is the model parameter isWord (supplied per string from `re`); it equals "
    "str.isalnum() or '_' (the oracle's definition) on U+0000..U+2FFF and the generator pools, and excludes blank / parentheses — checked at start",
    "str.lower() is the model parameter `lower` (supplied per name from Python)",
    "CPython's compile()/eval() of the BoolOp/UnaryOp/Name tree implement Boolean and/or/not (validated on every evaluated assignment)",
    "nesting beyond CPython's recursion limit (≈ 200 parentheses) is an environment bound and is not generated (≤ 25 levels)",
    "select_by_keyword / select_by_mark are driven on graphs without edges (closure under predecessors belongs to C06)",
]


def run(ctx):
    ctx.rule = ("strings over the expression alphabet: every string of ≤ N symbols (full 15-symbol set for short strings, 9-symbol core "
                "for longer ones) × every truth assignment of its identifiers, a hand corpus, seeded random well-formed / mutated / "
                "raw strings ≤ 60 symbols with Unicode identifiers, and generated tasks (mixed-case names, markers, function "
                "attributes) × -k / -m / after expressions through KeywordMatcher / MarkMatcher / select_by_*, and whole projects whose tasks "
                "carry after strings (2–4 tasks sharing one string, self-matching declarers; real DAG construction under several task orders "
                "and real builds under several PYTHONHASHSEEDs: every task follows exactly the tasks its formula matches, minus itself), and whole "
                "projects built / selected with -k and/or -m expressions that are false for every task, true for every task, true for "
                "exactly one (a task stays selected iff every given expression is true for it; an empty selection deselects all); non-trivial = the "
                "expression compiles, has ≥ 1 identifier and ≥ 1 blank or parenthesis (expressions), a matcher answers True or a "
                "selection is a proper non-empty subset (tasks); distinct by the string / (tasks, mode, expression)")
    msg = expr_api.check_unicode_assumption()
    if msg:
        import common
        raise common.InfraError(f"assumption about the Unicode tables does not hold here: {msg}")
    rng = ctx.rng
    thorough = ctx.thorough
    big = ctx.budget > 1.0
    full_len = 5 if thorough else 4
    core_len = 7 if thorough else 6
    if big and not thorough:
        full_len = 5
    jobs = []
    jobs.append(("corpus", [{"kind": "list", "strings": expr_api.corpus_strings()}]))
    jobs.append(("exh-full", expr_api.exhaustive_jobs(expr_api.SYMBOLS_FULL, full_len)))
    jobs.append(("exh-core", expr_api.exhaustive_jobs(expr_api.SYMBOLS_CORE, core_len)))
    nrand = ctx.scale(12000, 150000)
    strings = expr_api.random_strings(rng, nrand)
    chunk = max(500, len(strings) // 12 + 1)
    jobs.append(("random", [{"kind": "list", "strings": strings[i:i + chunk]} for i in range(0, len(strings), chunk)]))
    ncases = ctx.scale(1500, 20000)
    cases = expr_api.random_task_cases(rng, ncases)
    chunk = max(100, len(cases) // 12 + 1)
    jobs.append(("tasks", [{"kind": "tasks", "cases": cases[i:i + chunk]} for i in range(0, len(cases), chunk)]))
    # `after="<expr>"` over whole projects: several tasks sharing one string, self-matching declarers, several task orders (API level,
    # real create_dag_from_session) and several PYTHONHASHSEEDs (end to end, real pytask.build)
    acases = expr_api.after_cases(rng, ctx.scale(500, 8000))
    chunk = max(60, len(acases) // 8 + 1)
    jobs.append(("after", [{"kind": "after", "cases": acases[i:i + chunk]} for i in range(0, len(acases), chunk)]))
    ecases = expr_api.after_e2e_cases(rng, ctx.scale(12, 120), 3 if thorough else 2)
    chunk = max(2, len(ecases) // 8 + 1)
    jobs.append(("after-e2e", [{"kind": "after_e2e", "cases": ecases[i:i + chunk]} for i in range(0, len(ecases), chunk)]))
    # -k / -m at project level: which tasks stay selected (empty, full, singleton selections; both options); API level on the real
    # select_tasks_by_marks_and_expressions and end to end through pytask.build(expression=…, marker_expression=…)
    pcases = expr_api.select_project_cases(rng, ctx.scale(300, 6000))
    chunk = max(50, len(pcases) // 8 + 1)
    jobs.append(("select-project", [{"kind": "select_project", "cases": pcases[i:i + chunk]} for i in range(0, len(pcases), chunk)]))
    scases = expr_api.select_e2e_cases(rng, ctx.scale(4, 60))
    # one job per (project, ≤ 3 builds): the builds are the slow part, spread them over the pool
    split = [dict(c, queries=c["queries"][i:i + 3]) for c in scases for i in range(0, len(c["queries"]), 3)]
    chunk = max(1, len(split) // 12 + 1)
    jobs.append(("select-e2e", [{"kind": "select_e2e", "cases": split[i:i + chunk]} for i in range(0, len(split), chunk)]))
    flat = [(tag, j) for tag, js in jobs for j in js]
    # biggest jobs first so the pool stays busy
    results = expr_api.run_jobs([j for _, j in flat], ctx.use_model)
    for (tag, _), r in zip(flat, results):
        expr_api.merge(ctx, [r], tag)
    # report the shortest failing input of each kind first
    ctx.violations.sort(key=lambda v: len(str(v["replay"])))
    ctx.disagreements.sort(key=lambda v: len(str(v["replay"])))
    ctx.exhaustive = True
    ctx.extra["exhaustive_scope"] = (f"all strings of ≤ {full_len} symbols over {expr_api.SYMBOLS_FULL!r} and of ≤ {core_len} symbols over "
                                     f"{expr_api.SYMBOLS_CORE!r}, each under all truth assignments of its identifiers")
    ctx.extra["random_strings"] = nrand
    ctx.extra["task_cases"] = len(cases)
    ctx.extra["selection_projects"] = {"api": len(pcases), "end_to_end": len(scases)}
    ctx.extra["after_projects"] = {"api": len(acases), "end_to_end": len(ecases)}


def replay(ctx, obj):
    inp = obj["input"]
    if inp.get("layer") == "tasks":
        job = {"kind": "tasks", "cases": [inp["case"]]}
    elif inp.get("layer") == "select-project":
        job = {"kind": "select_project", "cases": [inp["case"]]}
    elif inp.get("layer") == "select-e2e":
        job = {"kind": "select_e2e", "cases": [inp["case"]]}
    elif inp.get("layer") == "after":
        job = {"kind": "after", "cases": [inp["case"]]}
    elif inp.get("layer") == "after-e2e":
        job = {"kind": "after_e2e", "cases": [inp["case"]]}
    else:
        job = {"kind": "list", "strings": [inp["s"]]}
    r = expr_api.run_jobs([job], ctx.use_model)[0]
    if r["violations"]:
        return False, r["violations"][0]["what"]
    if r["disagreements"]:
        return False, r["disagreements"][0]["what"]
    return True, "the stored input follows the Boolean / matcher semantics (implementation, oracle and model agree)"
