"""C18 — provisional nodes resolve at execution time; generated tasks run in the same build."""
from __future__ import annotations

import os
from concurrent.futures import ThreadPoolExecutor

from impl import builder, prov_api as pa

ASSUMPTIONS = [
    "pathlib.Path.glob, networkx, pluggy call order / firstresult trusted (hook orders and the generator hook's result are read from the source into Generated.lean)",
    "a directory pattern is modelled as the interval of file ids it can match; files outside the generated naming scheme are not generated",
    "task bodies are deterministic functions of their declared inputs, log the file lists they receive and re-glob themselves",
    "feature scope: no skip/persist marks, force, dry-run, -k/-m, max_failures (covered by the M6 campaigns)",
    "the observed protocol order of each real build (report order) is replayed in the model and must be a legal schedule; theorems quantify over all legal schedules",
    "sequential executor of the repository (pytask-parallel is outside the repo)",
]


# ------------------------------------------------------------------------------------------------
# oracle: implementation observations only (knows the property, not the Lean model)
# ------------------------------------------------------------------------------------------------

def _parse_lists(s):
    if s == "-":
        return []
    return [tuple(int(x) for x in part.split(".") if x) for part in s.split("|")]


def _parse_cont(s):
    if s == "-":
        return {}
    out = {}
    for e in s.split(","):
        k, v = e.split(":")
        out[int(k)] = None if v == "?" else int(v)
    return out


def oracle(hist, records):
    spec = hist["spec"]
    byid = {t["id"]: t for t in spec["tasks"]}
    static_ids = {t["id"] for t in spec["tasks"] if t.get("parent") is None}
    perfile = {int(g): b for g, b in spec.get("perfile", {}).items()}
    ranges = {int(pid): set(pa.pat_range(spec, pid)) for pid in spec["pats"]}
    writers = {t["id"]: set().union(*[ranges[p] for p in t["pprods"]]) for t in spec["tasks"] if t["pprods"]}
    bad = []
    last = {}      # consumer -> (tuple of frozensets per argument, {file: content}) at its last SUCCESS
    mem = {}       # consumer -> {file: content} of every file it ever succeeded with (what per-file records can know)
    kidrec = {}    # copy task -> (source content, product content) at its last SUCCESS
    for bi, rec in enumerate(records):
        if rec["step"][0] != "build":
            continue
        obs = rec["obs"]
        if obs.get("timeout"):
            bad.append(("build", f"build {bi}: the build did not terminate within {pa.BUILD_TIMEOUT:.0f} s; bodies started so far: "
                                 f"{[e[1] for e in obs['log'] if e[0] == 'S'][:12]}", None))
            continue
        if obs.get("raised") or obs.get("died") or obs.get("exit") not in (0, 1):
            bad.append(("build", f"build {bi}: build() raised / unexpected exit {obs.get('exit')!r} {obs.get('raised')!r}", None))
            continue
        log = obs["log"]
        reps = [(pa.name_to_id(r[0]), r[1]) for r in obs["reports"]]
        order = [t for t, _ in reps]
        # a failed re-creation of the DAG (e.g. two producers whose patterns overlap) is reported on the task and stops the build
        stopped = any(r[2] == "ResolvingDependenciesError" for r in obs["reports"]) or len(order) != len(set(order))
        outcome = dict(reps)
        pos = {}
        for i, t in enumerate(order):
            pos.setdefault(t, i)
        starts, ends, rline = {}, {}, {}
        for idx, e in enumerate(log):
            if e[0] == "S":
                t = int(e[1])
                if t in starts:
                    bad.append(("once", f"build {bi}: body of task {t} invoked more than once in one build", None))
                starts.setdefault(t, idx)
            elif e[0] in ("E", "X"):
                ends[int(e[1])] = idx
            elif e[0] == "R":
                t = int(e[1])
                got, seen, cont = _parse_lists(e[2]), _parse_lists(e[3]), _parse_cont(e[4])
                rline.setdefault(t, (got, seen, cont))
                # (1) what the task received = what a glob at the start of its body sees
                if got != seen:
                    bad.append(("resolve", f"build {bi}: task {t} received {got} but the files matching at its start are {seen}", None))
        # (3) the producer of the same pattern has finished before the consumer starts
        for t in order:
            spec_t = byid.get(t)
            if spec_t is None or not spec_t["pdeps"]:
                continue
            for p in spec["tasks"]:
                if p["id"] != t and set(p["pprods"]) & set(spec_t["pdeps"]) and p["id"] in pos:
                    ok = pos[p["id"]] < pos[t]
                    if t in starts and p["id"] in starts:
                        ok = ok and ends.get(p["id"], 10**9) < starts[t]
                    if not ok:
                        bad.append(("order", f"build {bi}: task {t} (depends on pattern) ran before producer {p['id']} of the same pattern had finished; reports {order}", None))
        # (10) no task of these projects carries a skip mark with a true condition (only `skipif` marks whose condition is false):
        #      nothing may be reported SKIP — neither the marked task nor a descendant, static or defined during the build
        if not stopped:
            for t, o in reps:
                if o == "SKIP":
                    marked = sorted(u["id"] for u in spec["tasks"] if u.get("skipif_false"))
                    bad.append(("skip", f"build {bi}: task {t} was reported SKIP although no task is marked to be skipped "
                                        f"(tasks with a skipif mark whose condition is false: {marked}); reports {reps}", None))
                    break
        # (8) `@task(after="<expr>")`: the task starts after every task with products whose name the expression matches —
        #     statically declared ones, and generated ones if the task was still pending when their generator defined them
        gen_of = {}
        for g, b in perfile.items():
            for n in range(1000, 1080):
                gen_of[b + n] = g
        for k in spec["tasks"]:
            if k.get("parent") is not None:
                gen_of[k["id"]] = k["parent"]
        for x in spec["tasks"]:
            if not (pa.after_idents(x) or pa.after_tasks(x)) or x["id"] not in pos:
                continue
            for k in pa.after_ids(spec, x):
                if k not in pos:
                    continue
                sk = byid.get(k)
                if sk is not None and not (sk["prods"] or sk["pprods"]):
                    continue                       # a target without products imposes no order (finding F1 of C01)
                g = gen_of.get(k)
                if g is not None and not (g in pos and pos[g] < pos[x["id"]]):
                    continue                       # defined only after x had started
                ok = pos[k] < pos[x["id"]]
                if ok and k in starts and x["id"] in starts:
                    ok = ends.get(k, 10**9) < starts[x["id"]]
                if not ok:
                    bad.append(("after", f"build {bi}: task {x['id']} is declared after={(' or '.join(pa.after_idents(x)) or [pa.tname(a) for a in pa.after_tasks(x)])!r}, which matches task {k}"
                                         f"{' (defined by generator %d before %d started)' % (g, x['id']) if g is not None else ''}, "
                                         f"but it started before {k} had finished; reports {order}", None))
        # (9) failures: dependants of a failed task do not run; nothing starts after the failure limit; exit code
        edges = set()
        pat_edges = set()
        prod_of = {}
        # collected tasks and the tasks generators always define (also those created after the failure: ee6b73e)
        statics = [u for u in spec["tasks"]]
        for u in statics:
            for pnode in u["prods"]:
                prod_of[pnode] = u["id"]
        for u in statics:
            for d in u["deps"] + ([u["cnt"]] if u.get("cnt") is not None else []):
                if d in prod_of:
                    edges.add((prod_of[d], u["id"]))
            for q in statics:
                if q["id"] != u["id"] and set(q["pprods"]) & set(u["pdeps"]):
                    edges.add((q["id"], u["id"]))
                    pat_edges.add((q["id"], u["id"]))

        def below(root, es):
            desc, stack = set(), [root]
            while stack:
                a = stack.pop()
                for (u, v) in es:
                    if u == a and v not in desc:
                        desc.add(v)
                        stack.append(v)
            return desc
        failed = [t for t, oc in reps if oc == "FAIL"]
        # former finding F42 (fixed by 501f7e1): a task skipped because an ancestor failed has its pattern dependencies resolved at its (skipped)
        # setup; the re-created DAG no longer connects it to the failed producer, and tasks a generator defines below it afterwards
        # get no mark. Class: the dependant is a generated task, and every path from the failed task to it runs through the
        # pattern dependency of a task that was reported SKIP_PREVIOUS_FAILED before the dependant's generator ran.
        cut = {u for u in byid if outcome.get(u) == "SKIP_PREVIOUS_FAILED" and byid[u]["pdeps"]}
        for f in set(failed):
            for d in byid:
                if stopped or d not in pos or pos[d] < pos[f] or f not in byid or d == f:
                    continue
                # tasks that existed when d was handed out: collected ones, and those whose generator had run
                alive = {x for x, sx in byid.items() if sx.get("parent") is None or (sx["parent"] in pos and pos[sx["parent"]] < pos[d])}
                live_edges = {e for e in edges if e[0] in alive and e[1] in alive}
                if d not in below(f, live_edges):
                    continue
                if d in starts or outcome[d] != "SKIP_PREVIOUS_FAILED":
                    gen_d = byid[d].get("parent")
                    cut_now = {u for u in cut if gen_d is not None and gen_d in pos and pos[u] < pos[gen_d]}
                    uncut = {e for e in live_edges if not (e in pat_edges and e[1] in cut_now)}
                    # (the class of the former finding F42 — every path runs through the pattern dependency of a task reported
                    # SKIP_PREVIOUS_FAILED before the dependant's generator ran — is repaired by 501f7e1: a violation like any other)
                    finding = None
                    bad.append(("failure", f"build {bi}: task {d} depends on task {f}, which FAILED earlier in this build, but it was not skipped "
                                           f"(outcome {outcome[d]}, body {'ran' if d in starts else 'did not run'}); reports {reps}", finding))
        mf = (hist.get("kw") or {}).get("max_failures")
        if mf is not None and len(failed) >= mf:
            idx = [i for i, (t, oc) in enumerate(reps) if oc == "FAIL"][int(mf) - 1]
            if idx != len(reps) - 1:
                bad.append(("failure", f"build {bi}: max_failures={mf} but {len(reps) - 1 - idx} task(s) were processed after failure number {mf}; reports {reps}", None))
        if obs["exit"] != (1 if failed else 0):
            bad.append(("failure", f"build {bi}: exit code {obs['exit']} with failed tasks {failed}", None))
        # (5) generators and what they define
        expected_kids = {}
        for g, spec_g in byid.items():
            if not spec_g.get("gen") or g not in pos:
                continue
            bad_kids = [k["id"] for k in spec["tasks"] if k.get("parent") == g and (k.get("uncollectable") or k.get("alias") is not None)]
            if bad_kids and g in starts and not spec_g.get("fails"):
                # a defined task that cannot be collected, or that takes the name of an existing task, is not dropped / merged silently:
                # the generator fails, nothing it defined runs
                fixed = [k["id"] for k in spec["tasks"] if k.get("parent") == g]
                if outcome[g] != "FAIL":
                    bad.append(("generated", f"build {bi}: generator {g} defined task(s) {bad_kids} that cannot be collected but was reported {outcome[g]}", None))
                if any(k in pos for k in fixed):
                    bad.append(("generated", f"build {bi}: generator {g} failed to collect {bad_kids} but tasks it defined were run: {[k for k in fixed if k in pos]}", None))
            if outcome[g] == "SUCCESS" and g in rline:
                kids = [k["id"] for k in spec["tasks"] if k.get("parent") == g]
                if g in perfile:
                    kids += [perfile[g] + n for l in rline[g][0] for n in l]
                expected_kids[g] = kids
                for k in kids:
                    if k not in pos:
                        if not stopped:
                            bad.append(("generated", f"build {bi}: task {k} defined by generator {g} has no report in the same build; reports {order}", None))
                        continue
                    if pos[k] < pos[g]:
                        bad.append(("generated", f"build {bi}: generated task {k} reported before its generator {g}", None))
                    if g in perfile and k >= perfile[g]:
                        # its own ancestors: the producer of the pattern the generator (and so the copy task's input) comes from
                        for w in spec["tasks"]:
                            if set(w["pprods"]) & set(spec_g["pdeps"]) and w["id"] in pos and pos[w["id"]] > pos[k]:
                                bad.append(("generated", f"build {bi}: generated task {k} ran before task {w['id']} which produces its input", None))
            elif outcome[g] == "SUCCESS":
                bad.append(("generated", f"build {bi}: generator {g} reported SUCCESS without running", None))
        allowed = static_ids | {k for ks in expected_kids.values() for k in ks}
        coll = {pa.name_to_id(n) for n in obs.get("collected", [])}
        if coll - allowed:
            bad.append(("generated", f"build {bi}: unexpected tasks collected {sorted(coll - allowed)}", None))
        # (4) re-execution of consumers when the matched set or a matched file's content changed
        for c, spec_c in byid.items():
            if spec_c.get("gen") or not spec_c["pdeps"] or c not in outcome:
                continue
            if c in rline and outcome[c] == "SUCCESS":
                got, seen, cont = rline[c]
                last[c] = (tuple(frozenset(l) for l in seen), dict(cont))
                mem.setdefault(c, {}).update(cont)
            elif outcome[c] == "SKIP_UNCHANGED" and c in last:
                crange = set().union(*[ranges[p] for p in spec_c["pdeps"]])
                late = [w for w, r in writers.items() if r & crange and w in pos and pos[w] > pos[c] and w in starts]
                if late:
                    continue     # a task writing into the pattern ran afterwards: the state at c's start is not observable
                cur_sets = tuple(frozenset(n for n in ranges[p] if n in rec["post"]) for p in spec_c["pdeps"])
                cur_cont = {n: rec["post"][n] for s in cur_sets for n in s}
                if (cur_sets, cur_cont) != last[c]:
                    known = all(mem.get(c, {}).get(n) == v for n, v in cur_cont.items())
                    what = (f"build {bi}: task {c} was skipped as unchanged although the files matching its pattern changed since its last "
                            f"successful run: then {sorted(map(sorted, last[c][0]))} {last[c][1]}, now {sorted(map(sorted, cur_sets))} {cur_cont}")
                    bad.append(("rerun", what, "F11" if known else None))
        # (7) a task whose declared inputs all exist is executed, not failed ("receives the files ... and is executed")
        if not stopped:
            for t, oc in reps:
                if oc != "FAIL":
                    continue
                st = byid.get(t)
                if st is None:                      # copy task base+n: its only input is file n
                    base = max((b for b in perfile.values() if b <= t), default=None)
                    excused = base is None or (t - base) not in rec["post"] or (t - base) not in rec["pre"]
                elif st.get("gen"):
                    nkids = len([k for k in spec["tasks"] if k.get("parent") == t])
                    got_any = t in rline and any(rline[t][0])
                    excused = st.get("fails") or (nkids == 0 and not (t in perfile and got_any)) or \
                        any(k.get("uncollectable") or k.get("alias") is not None for k in spec["tasks"] if k.get("parent") == t)
                else:
                    need = list(st["deps"]) + ([st["cnt"]] if st.get("cnt") is not None else [])
                    excused = st.get("fails") or any(d not in rec["post"] or d not in rec["pre"] and d in spec["inputs"] for d in need)
                    for k in pa.after_ids(spec, st):
                        sk = byid.get(k)
                        # `after=` makes every product of the target — ordinary, and the files a pattern product was resolved to —
                        # a dependency of the task: a missing one excuses the failure, and so does a pattern product in a
                        # directory where another producer's pattern overlaps (that producer may remove the files)
                        if sk is not None and any(p_ not in rec["post"] for p_ in sk["prods"]):
                            excused = True
                        if sk is None and k not in rec["post"]:
                            excused = True       # a copy task: its product is node k
                        if sk is not None and sk["pprods"]:
                            kr = set().union(*[ranges[p] for p in sk["pprods"]])
                            excused = excused or any(w != k and r & kr for w, r in writers.items())
                    crange = set().union(*[ranges[p] for p in st["pdeps"]]) if st["pdeps"] else set()
                    # a matched file removed by an overlapping producer between the resolution and the read
                    excused = excused or any(w in starts and r & crange for w, r in writers.items() if w != t and not set(byid[w]["pprods"]) & set(st["pdeps"]))
                if not excused:
                    bad.append(("fail", f"build {bi}: task {t} FAILED although all its declared inputs exist and its body does not raise; reports {reps}", None))
        # (6) generated copy tasks: unchanged => not executed again
        for g, base in perfile.items():
            for k in expected_kids.get(g, []):
                if k < base or k not in outcome:
                    continue
                n = k - base
                if any(n in r and w in starts and not (w in pos and pos[w] < pos[k]) for w, r in writers.items()):
                    continue     # a task writing the input ran after / unordered: the input's state at k's start is not observable
                src_now, prod_pre, prod_post = rec["post"].get(n), rec["pre"].get(k), rec["post"].get(k)
                if k in kidrec and kidrec[k] == (src_now, prod_pre) and rec["pre"].get(n) == src_now and k in starts:
                    bad.append(("generated", f"build {bi}: generated task {k} was executed again although its input and product are unchanged", None))
                if outcome[k] == "SUCCESS":
                    kidrec[k] = (src_now, prod_post)
    return bad


# ------------------------------------------------------------------------------------------------
# campaign
# ------------------------------------------------------------------------------------------------

def _t(id_, **kw):
    t = {"id": id_, "cnt": None, "deps": [], "pdeps": [], "prods": [], "pprods": [], "gen": False, "fails": False, "parent": None,
         "pstyle": "param", "dstyle": "default"}
    t.update(kw)
    return t


def corpus():
    f0 = pa.pat_id(0, "f")
    pats = {str(f0): {"dir": 0, "kind": "f"}}
    # F11 witness: consumer over f*.txt; files a,b dropped in by hand; build; delete b; build
    f11 = {"tag": "corpus-F11", "spec": {"pats": pats, "tasks": [_t(1, pdeps=[f0], prods=[200])], "perfile": {}, "inputs": {}, "version": 0},
           "steps": [["write", 1000, 5], ["write", 1001, 6], ["build"], ["delete", 1001], ["build"]]}
    # F11 variant: the set grows back by a file whose old record is still in the database
    f11b = {"tag": "corpus-F11-regrow", "spec": f11["spec"],
            "steps": [["write", 1000, 5], ["write", 1001, 6], ["build"], ["delete", 1001], ["write", 1000, 7], ["build"], ["write", 1001, 6], ["build"]]}
    # F13 witness (fixed): a generator must run once
    f13 = {"tag": "corpus-F13", "spec": {"pats": pats, "tasks": [_t(1, cnt=100, pprods=[f0]), _t(2, pdeps=[f0], gen=True)],
                                          "perfile": {"2": 20000}, "inputs": {"100": 2}, "version": 0},
           "steps": [["build"], ["build"], ["write", 100, 3], ["build"], ["write", 100, 1], ["build"]]}
    # producer / consumer / generator over one pattern, N grows, shrinks, hand edits
    mix = {"tag": "corpus-mix", "spec": {"pats": pats, "tasks": [_t(1, cnt=100, deps=[101], pprods=[f0], pstyle="return"), _t(2, pdeps=[f0], prods=[200], dstyle="annotated"),
                                                                 _t(3, pdeps=[f0], gen=True), _t(4, deps=[102], prods=[201], parent=3)],
                                         "perfile": {"3": 20000}, "inputs": {"100": 2, "101": 9, "102": 4}, "version": 0},
           "steps": [["build"], ["build"], ["write", 100, 4], ["build"], ["write", 1004, 8], ["build"], ["delete", 1004], ["build"],
                     ["write", 100, 1], ["build"], ["write", 1000, 3], ["build"], ["write", 101, 10], ["build"], ["write", 100, 0], ["build"]]}
    # outside the model's feature scope (oracle only): provisional dependencies are resolved before the persist hook looks at them
    pers = {"tag": "corpus-persist", "nomodel": True,
            "spec": {"pats": pats, "tasks": [_t(1, pdeps=[f0], prods=[200], persist=True)], "perfile": {}, "inputs": {}, "version": 0},
            "steps": [["write", 1000, 5], ["write", 1001, 6], ["build"], ["build"]]}
    # outside the model (generators with products; failure limit): a generator that raises after writing its product, and dependants
    gf_spec = {"pats": pats, "tasks": [_t(1, cnt=100, pprods=[f0]), _t(2, pdeps=[f0], gen=True, fails="late", prods=[201]),
                                       _t(3, deps=[201], prods=[202]), _t(4, deps=[202], prods=[203]), _t(5, deps=[102], prods=[204])],
               "perfile": {"2": 20000}, "inputs": {"100": 2, "102": 4}, "version": 0}
    gf1 = {"tag": "corpus-genfail", "nomodel": True, "spec": gf_spec, "steps": [["build"], ["build"]]}
    gf2 = {"tag": "corpus-genfail-limit", "nomodel": True, "kw": {"max_failures": 1}, "spec": gf_spec, "steps": [["build"], ["build"]]}
    # a task ordered only by after=<function> behind a task whose only product is a directory pattern (try_first: it would be picked first)
    aft = {"tag": "corpus-after-pattern-producer",
           "spec": {"pats": pats, "tasks": [_t(1, cnt=100, pprods=[f0]), _t(2, prods=[200], after_tasks=[1], after_style="func", try_first=True),
                                            _t(3, prods=[201], after=[pa.tname(1)], try_first=True)],
                    "perfile": {}, "inputs": {"100": 2}, "version": 0},
           "steps": [["build"], ["write", 100, 3], ["build"]]}
    # directory names with glob metacharacters, dot-files among the matches of *.txt
    al = pa.pat_id(0, "all")
    meta = {"tag": "corpus-metachar-dotfile",
            "spec": {"pats": {str(al): {"dir": 0, "kind": "all"}}, "tasks": [_t(1, pdeps=[al], prods=[200]), _t(2, pdeps=[al], gen=True)],
                     "perfile": {"2": 20000}, "inputs": {}, "version": 0, "dirnames": {"0": "d0[x]"}, "dataname": "da*ta[1]"},
            "steps": [["write", 1000, 5], ["write", 1010, 6], ["build"], ["write", 1011, 7], ["build"], ["build"]]}
    # a generator defining a task that cannot be collected (both priority marks) next to a good one: it fails, nothing is added
    unc = {"tag": "corpus-uncollectable-child",
           "spec": {"pats": pats, "tasks": [_t(1, cnt=100, pprods=[f0]), _t(2, pdeps=[f0], gen=True), _t(3, deps=[102], prods=[210], parent=2),
                                            _t(4, deps=[102], prods=[211], parent=2, uncollectable=True), _t(5, pdeps=[f0], prods=[212])],
                    "perfile": {"2": 20000}, "inputs": {"100": 2, "102": 4}, "version": 0},
           "steps": [["build"], ["build"]]}
    # a task fails (early / after writing its product); afterwards a generator defines tasks below it: they are skipped (ee6b73e)
    late = {"tag": "corpus-defined-below-failed",
            "spec": {"pats": pats, "tasks": [_t(1, deps=[102], prods=[220], fails="late"), _t(2, deps=[102], prods=[221], fails=True),
                                             _t(3, cnt=100, pprods=[f0], fails="late"), _t(4, deps=[102], gen=True),
                                             _t(5, deps=[220], prods=[222], parent=4), _t(6, deps=[221], prods=[223], parent=4),
                                             _t(7, pdeps=[f0], prods=[224], parent=4)],
                     "perfile": {}, "inputs": {"100": 2, "102": 4}, "version": 0},
            "steps": [["build"], ["build"]]}
    # F42 witness: 1 (pattern producer) fails; 2 (pattern consumer, product 101 left over) is skipped; then generator 5 defines 6 <- 101
    f38 = {"tag": "corpus-F42",
           "spec": {"pats": pats, "tasks": [_t(1, pprods=[f0], fails=True), _t(2, deps=[100], pdeps=[f0], prods=[101]), _t(5, gen=True),
                                            _t(6, deps=[101, 105], prods=[106], parent=5)],
                    "perfile": {}, "inputs": {"100": 12, "105": 17, "101": 5}, "version": 0},
           "steps": [["build"]]}
    # a generator defining a task with the name of a collected task: it fails, nothing is added (6571c4f)
    clash = {"tag": "corpus-name-clash",
             "spec": {"pats": pats, "tasks": [_t(1, deps=[102], prods=[230]), _t(2, deps=[102], gen=True), _t(3, deps=[102], prods=[231], parent=2),
                                              _t(4, deps=[102], prods=[232], parent=2, alias=1)],
                      "perfile": {}, "inputs": {"102": 4}, "version": 0},
             "steps": [["build"], ["build"]]}
    return [f11, f11b, f13, mix, pers, gf1, gf1, gf2, gf2, aft, aft, meta, unc, late, late, clash] + [f38] * 4


def gen_genfail(rng):
    """Oracle-only stream (generators with products are outside the model): a generator that raises — before or after
    writing its product — with a chain of dependants, independent tasks, optionally another failing task and a failure limit."""
    f0 = pa.pat_id(0, "f")
    pats = {str(f0): {"dir": 0, "kind": "f"}}
    tasks, inputs = [], {"100": rng.randint(1, 4)}
    with_prod = rng.random() < 0.7
    if with_prod:
        tasks.append(_t(1, cnt=100, pprods=[f0]))
    node = [200]

    def nn():
        node[0] += 1
        return node[0]
    gp = nn()
    tasks.append(_t(2, pdeps=[f0] if with_prod or rng.random() < 0.5 else [], gen=True, fails=rng.choice([True, "late", "late"]), prods=[gp]))
    prev, tid = gp, 3
    for _ in range(rng.randint(1, 3)):
        q = nn()
        tasks.append(_t(tid, deps=[prev], prods=[q]))
        prev, tid = q, tid + 1
    for _ in range(rng.randint(0, 2)):
        i = nn()
        inputs[str(i)] = rng.randint(1, 9)
        tasks.append(_t(tid, deps=[i], prods=[nn()], fails=rng.random() < 0.3))
        tid += 1
    rng.shuffle(tasks)
    h = {"tag": "genfail", "nomodel": True, "spec": {"pats": pats, "tasks": tasks, "perfile": {"2": 20000}, "inputs": inputs, "version": 0},
         "steps": [["build"], ["build"]] if with_prod else [["write", 1000, 3], ["build"], ["build"]]}
    mf = rng.choice([None, None, 1, 1, 2])
    if mf is not None:
        h["kw"] = {"max_failures": mf}
    return h


def corpus_files():
    """stored cases (corpus/C18/*.json): past false alarms and minimised disagreements; they must stay quiet"""
    import json
    import common
    out = []
    for f in sorted((common.VERIF / "corpus" / "C18").glob("*.json")):
        h = json.loads(f.read_text())
        out.append({"tag": h.get("tag", f.stem), "spec": h["spec"], "steps": h["steps"], **({"kw": h["kw"]} if h.get("kw") else {})})
    return out


def histories(ctx):
    rng = ctx.rng
    hs = corpus() + corpus_files()
    for _ in range(ctx.scale(6, 60)):
        hs.append(gen_genfail(rng))
    for _ in range(ctx.scale(50, 600)):
        spec = pa.gen_spec(rng)
        hs.append({"tag": "rand", "spec": spec, "steps": pa.gen_steps(rng, spec)})
    return hs


def _nontrivial(h, recs):
    builds = [r for r in recs if r["step"][0] == "build"]
    if len(builds) < 2:
        return False
    got_sets = set()
    for b in builds:
        for e in b["obs"]["log"]:
            if e[0] == "R" and e[2] != "-":
                got_sets.add((e[1], e[2], e[4]))
    return len(got_sets) >= 2      # some body received a non-empty file list, and lists / contents differed across invocations


def run_histories(ctx, hs, nseeds=None):
    rng = ctx.rng
    nseeds = nseeds or (8 if not ctx.thorough else 12)
    hashseeds = [rng.randrange(1, 4_000_000_000) for _ in range(nseeds)]
    ctx.extra["hash_seeds"] = hashseeds
    pool = pa.TimedPool(hashseeds)
    try:
        timeouts = []

        def one(args):
            i, h = args
            if len(timeouts) >= 3:      # builds no longer terminate: three witnesses are enough, do not wait for the rest
                return []
            recs = pa.run_history(pool.pick(i), h)
            if any(r.get("obs", {}).get("timeout") for r in recs):
                timeouts.append(i)
            return recs
        with ThreadPoolExecutor(max_workers=nseeds) as ex:
            return list(ex.map(one, enumerate(hs)))
    finally:
        pool.close()


def evaluate(ctx, hs, all_records):
    drv = ctx.driver() if ctx.use_model else None
    for h, recs in zip(hs, all_records):
        builds = [r for r in recs if r["step"][0] == "build"]
        nt = _nontrivial(h, recs)
        sample = None
        if nt:
            sample = {"tasks": [{k: v for k, v in t.items() if v not in (None, [], False) and k not in ("pstyle", "dstyle")} for t in h["spec"]["tasks"]],
                      "pats": h["spec"]["pats"], "perfile": h["spec"]["perfile"], "steps": h["steps"][:10],
                      "builds": [{"reports": [[pa.name_to_id(r[0]), r[1]] for r in b["obs"].get("reports", [])],
                                  "received": [list(e[1:3]) for e in b["obs"]["log"] if e[0] == "R" and e[2] != "-"]} for b in builds[:3]]}
        ctx.case([h["spec"], h["steps"]], nt, sample)
        ctx.dist[f"tasks={len(h['spec']['tasks'])}"] += 1
        ctx.dist[f"builds={len(builds)}"] += 1
        ctx.dist[f"generators={sum(1 for t in h['spec']['tasks'] if t.get('gen'))}"] += 1
        for b in builds:
            for r in b["obs"].get("reports", []):
                ctx.dist["outcome=" + r[1]] += 1
            ctx.dist[f"exit={b['obs'].get('exit')}"] += 1
            ctx.dist["generated_tasks"] += sum(1 for n in b["obs"].get("collected", []) if (pa.name_to_id(n) or 0) >= 20000)
        for kind, msg, finding in oracle(h, recs):
            ctx.dist["oracle:" + kind + (":" + finding if finding else "")] += 1
            ctx.violation(f"{kind}: {msg}", {"history": h, "layer": "prov-e2e"}, finding=finding)
        if drv is not None and not h.get("nomodel"):
            dis = pa.replay_in_model(drv, h, recs)
            ctx.traces_validated += 1
            for (i, what, iv, mv) in dis[:1]:
                ctx.disagreement(f"provisional model, step {i} ({h['steps'][i][0]}): {what}: implementation {iv!r}, model {mv!r}",
                                 {"history": h, "step": i, "what": what, "impl": iv, "model": mv, "layer": "prov-e2e"})


def inproc_stream(ctx):
    """The same user task objects passed to `pytask.build(tasks=[...])` several times in one process while the matching files
    change: every call receives the files matching at that moment; the user's objects keep their DirectoryNodes (oracle only)."""
    import json
    import shutil
    import subprocess
    import common
    rng = ctx.rng
    worker = str(common.VERIF / "harness" / "impl" / "prov_inproc_worker.py")
    for i in range(ctx.scale(4, 16)):
        producer = i % 2 == 1
        steps, names = [["write", "a.txt", 1]], ["a.txt"]
        steps.append(["build"])
        for _ in range(rng.randint(1, 3)):
            for _ in range(rng.randint(1, 2)):
                if producer and rng.random() < 0.5:
                    steps.append(["write", "n.txt", rng.randint(2, 4)])
                elif rng.random() < 0.7:
                    nm = f"x{len(names)}.txt"
                    names.append(nm)
                    steps.append(["write", nm, rng.randint(1, 9)])
                else:
                    steps.append(["write", rng.choice(names), rng.randint(10, 99)])
            steps.append(["build"])
        _inproc_one(ctx, steps, producer, rng.randrange(1, 10**6))


def _inproc_one(ctx, steps, producer, hashseed):
    import json
    import shutil
    import subprocess
    import common
    worker = str(common.VERIF / "harness" / "impl" / "prov_inproc_worker.py")
    if True:
        root = common.scratch_dir("provin")
        try:
            env = dict(os.environ, PYTHONHASHSEED=str(hashseed), PYTHONDONTWRITEBYTECODE="1")
            r = subprocess.run([common.PY, worker], input=json.dumps({"root": str(root), "steps": steps, "producer": producer}) + "\n",
                               capture_output=True, text=True, env=env, cwd="/", timeout=300)
        finally:
            shutil.rmtree(root, ignore_errors=True)
        if r.returncode != 0 or not r.stdout.strip():
            raise common.InfraError(f"in-process worker failed: {r.stderr[-300:]}")
        builds = json.loads(r.stdout.strip().splitlines()[-1])["builds"]
        replay = {"layer": "prov-inproc", "steps": steps, "producer": producer}
        ctx.case(["inproc", steps, producer], len(builds) >= 2, None)
        ctx.dist["inproc_histories"] += 1
        prev_files = None
        for bi, b in enumerate(builds):
            if b.get("raised") or b.get("exit") != 0:
                ctx.violation(f"build: in-process build {bi} raised / exit {b.get('exit')!r} {b.get('raised')!r}", replay)
                break
            for c in b["calls"]:
                if c["task"] == "consume" and c["got"] != c["seen"]:
                    ctx.violation(f"resolve: in-process build {bi} (same task objects as in the builds before): task_consume received "
                                  f"{c['got']} but the files matching at its start are {c['seen']}", replay)
            ran = any(c["task"] == "consume" for c in b["calls"])
            if prev_files is not None and set(b["files_now"]) - set(prev_files) and not ran:
                ctx.violation(f"rerun: in-process build {bi}: new matching files {sorted(set(b['files_now']) - set(prev_files))} but task_consume "
                              f"was not executed ({b['outcomes']})", replay)
            if any(k != "DirectoryNode" for k in b["kinds"].values()):
                ctx.violation(f"resolve: after in-process build {bi} the user's task objects no longer hold their DirectoryNode: {b['kinds']}", replay)
            prev_files = b["files_now"]


def run(ctx):
    ctx.rule = ("generated projects with tasks depending on / producing DirectoryNode patterns and @task(is_generator=True) generators (per-file copy "
                "tasks and fixed tasks), built repeatedly through pytask.build under several PYTHONHASHSEEDs while producer counts grow / shrink, "
                "contents change and matching files are dropped in / removed by hand; bodies log received lists and their own glob; every history "
                "is replayed in the Lean model M7; non-trivial = >=2 builds and >=2 distinct non-empty (task, received list, contents) observations; "
                "distinct by canonical (spec, steps)")
    hs = histories(ctx)
    recs = run_histories(ctx, hs)
    evaluate(ctx, hs, recs)
    inproc_stream(ctx)
    # self-test of the oracle: the F11 witness must still be flagged (unless the defect has been repaired)
    ctx.extra["f11_witness_detected"] = "F11" in {v["finding"] for v in ctx.violations}


def replay(ctx, obj):
    inp = obj["input"]
    if inp.get("layer") == "prov-inproc":
        _inproc_one(ctx, inp["steps"], inp["producer"], 1)
        if ctx.violations:
            return False, ctx.violations[0]["what"]
        return True, "the re-used task objects receive the files matching at each build"
    hs = [inp["history"]] * 4
    recs = run_histories(ctx, hs, nseeds=4)
    evaluate(ctx, hs, recs)
    real = [v for v in ctx.violations if not v["finding"]]
    if real:
        return False, real[0]["what"]
    if ctx.disagreements:
        return False, ctx.disagreements[0]["what"]
    if ctx.violations:
        return False, "known finding " + ctx.violations[0]["finding"] + ": " + ctx.violations[0]["what"]
    return True, "resolution, re-execution and generated-task rules hold on the stored case"
