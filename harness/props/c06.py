"""C06 — skip markers and -k/-m selections decide exactly which tasks may run."""
import copy

import common
from impl import engine, project

# Finding F1 (`after` on a task without products creates no edge) also breaks C06: the skip of such a target does not reach the
# dependant, and selecting the dependant deselects the target. These inputs are generated, and classified as F1, only when
# known_findings.json lists F1 as a *known* finding of C06 (the integrator owns that file); otherwise the campaign keeps
# after-targets with products, as stated in ASSUMPTIONS.
F1_KNOWN = any(e.get("id") == "F1" and e.get("status") == "known" for e in common.load_known("C06"))

ASSUMPTIONS = [
    "-k/-m expressions are resolved to task sets by an independent evaluator in the harness (impl/selexpr.py); the expression "
    "language itself is property C16",
    "after-targets without products (finding F1) are generated only when known_findings.json lists F1 as known for C06; a violation is "
    "classified F1 only if the task's membership in the skip closure / selection closure needs a product-less after-edge",
    "stream 'memlink' (a value-less in-memory PythonNode that is the product of one task and a dependency of another): the engine model M6 "
    "has no stateless nodes, so this stream is judged by the implementation-only oracle (same rules, dependency relation from the spec) "
    "without model replay; the theorems cover it as graph shape (taskDesc / taskAnc over whatever vertices lie between two tasks)",
    "stream 'latelink' (a DirectoryNode dependency whose pattern matches the left-over ordinary product of another task: the edge appears "
    "only when the consumer's setup resolves the pattern): implementation-only oracle, several PYTHONHASHSEEDs per project (the two tasks "
    "are unordered before the resolution); the dependency counts iff the file existed before the build; selections are judged over the "
    "statically known edges, and a consumer whose late producer is deselected is not judged",
    "stream 'objects' (the same PTask objects handed to several `pytask.build(tasks=[...])` calls of ONE interpreter, with different "
    "selections): implementation-only oracle, every build judged on its own — marks attached by an earlier build (deselected, previous "
    "task skipped) must not decide a later one; -k over task names and -m over 'skip' / 'skipif' only (hand-built objects carry no user markers)",
    "stream 'generator' (tasks created during the build by a selected task generator): the static engine model has no generators; "
    "implementation-only oracle with the eligible set computed from the spec including the generated tasks; a generated task exists only "
    "if its generator ran, so it is judged only when it is reported or executed; -m expressions of this stream do not name 'skip'/'skipif'",
]


def ext_spec(spec):
    """the spec including the tasks that its generators create (child 50+id of generator id, one product, optional markers)"""
    gens = [t for t in spec["tasks"] if t.get("gen")]
    if not gens:
        return spec, set()
    s = copy.deepcopy(spec)
    kids = set()
    for t in gens:
        kid = 50 + t["id"]
        kids.add(kid)
        s["tasks"].append({"id": kid, "module": t["module"], "deps": list(t.get("gen_child_deps", [])), "prods": [7000 + t["id"]], "after": [],
                           "marks": list(t.get("gen_marks", [])), "beh": "ok"})
    return s, kids


def oracle(hist, records):
    bad = []
    for rec in records:
        if rec["step"][0] != "build":
            continue
        spec, obs, cfg = rec["spec"], rec["obs"], rec["cfg"]
        static_spec = spec
        spec, optional = ext_spec(spec)      # generated tasks exist only if their generator ran
        late = set()
        late_edges = set()
        if any(t.get("late_deps") for t in spec["tasks"]):
            # a pattern dependency on a file that exists before the build is a dependency on the task producing that file
            spec = copy.deepcopy(spec)
            prod_of = {p: u["id"] for u in spec["tasks"] for p in u["prods"]}
            for t in spec["tasks"]:
                for n in t.get("late_deps", []):
                    if rec["pre"].get(n) is not None and prod_of.get(n) not in (None, t["id"]):
                        t.setdefault("mem_in", []).append(prod_of[n])
                        late.add(t["id"])
                        late_edges.add((prod_of[n], t["id"]))
        if obs.get("raised") or obs.get("exit") not in (0, 1):
            bad.append(("exit", f"build raised / exit {obs.get('exit')} {obs.get('raised')}", None))
            continue
        out = engine.outcomes(obs)
        ex = set(engine.executed(obs))
        usk = engine.user_skipped_closure(spec)
        usk_nof1, el_nof1 = closures_without_f1(spec, cfg)
        usk_unjudged = set()
        if late_edges:
            # a pattern is resolved only when its consumer is set up: through ONE late link the dependants of a skipped task are
            # known in time (the skip is decided statically, the link exists once the consumer resolved it); behind a second
            # unresolved pattern they are not (the farther consumer may be set up first) — such tasks are not judged
            st_edges = engine.spec_task_edges(spec) - late_edges
            s0 = set(engine.user_skipped_closure(static_spec))
            s1 = set(s0)
            for (u, v) in late_edges:
                if u in s0:
                    s1 |= {v} | engine.closure(st_edges, v, forward=True)
            usk_unjudged = usk - s1
            usk = s1
        for t in usk:
            f = "F1" if t not in usk_nof1 else None      # in the closure only through a product-less after-edge
            if t in ex:
                bad.append(("skip" + ("-F1" if f else ""), f"task {t} is skipped by marker (or depends on a skipped task) but its body ran", f))
            if out.get(t) == "FAIL":
                bad.append(("skip" + ("-F1" if f else ""), f"skipped task {t} reported FAIL", f))
        el = engine.eligible(spec, cfg)
        unjudged = set()
        if late:
            el_static = engine.eligible(static_spec, cfg)
            edges_e = engine.spec_task_edges(spec)
            lateclosed = set(late)
            for k in late:
                lateclosed |= engine.closure(edges_e, k, forward=True)
            unjudged = {k for k in lateclosed if not engine.closure(edges_e, k, forward=False) <= el_static}
            el = el_static
        if optional:
            # what a generated task needs cannot be known when the static tasks are selected: static tasks are judged by the
            # selection over the static project; a generated task that matches but needs a deselected task is not judged
            el_static = engine.eligible(static_spec, cfg)
            edges_e = engine.spec_task_edges(spec)
            unjudged = {k for k in optional if k in el and not engine.closure(edges_e, k, forward=False) <= el_static}
            el = el_static | {k for k in optional if k in el}
        for t in {x["id"] for x in spec["tasks"]} - el:
            if t in optional and t not in out and t not in ex:
                continue
            if t in ex:
                bad.append(("select", f"task {t} is not selected by k={cfg.get('k')!r} m={cfg.get('m')!r} (nor needed by a selected task) but its body ran", None))
            if out.get(t) != "SKIP":
                bad.append(("select", f"task {t} is not eligible under k={cfg.get('k')!r} m={cfg.get('m')!r} but is reported {out.get(t)}", None))
        # "exactly": SKIP is only ever reported for tasks that are deselected or in the closure of a user-skipped task
        for t in el - usk - unjudged - usk_unjudged:
            if out.get(t) == "SKIP":
                f = "F1" if t not in el_nof1 else None   # needed by a selected task only through a product-less after-edge
                bad.append(("only" + ("-F1" if f else ""), f"task {t} is eligible under k={cfg.get('k')!r} m={cfg.get('m')!r} and neither it nor anything it depends on carries a "
                                    f"skip / true skipif mark, but it is reported SKIP", f))
        if obs["exit"] == 1 and not any(o == "FAIL" for o in out.values()):
            bad.append(("exit", "exit code 1 without any failed task", None))
    return bad


def closures_without_f1(spec, cfg):
    """skip closure and eligible set computed without the product-less after-edges (what the code implements, finding F1)"""
    f1 = engine.f1_edges(spec)
    if not f1:
        return engine.user_skipped_closure(spec), engine.eligible(spec, cfg)
    edges = engine.spec_task_edges(spec) - f1
    s0 = {t["id"] for t in spec["tasks"] if {"skip", "skipif_true", "skipif_true_e", "skipif_true_kw"} & set(t.get("marks", []))}
    usk = set(s0)
    for t in s0:
        usk |= engine.closure(edges, t, forward=True)
    el = {t["id"] for t in spec["tasks"]}
    for kind in ("k", "m"):
        if cfg.get(kind):
            sel = set(engine.sel_eval(kind, cfg[kind], spec))
            cl = set(sel)
            for t in sel:
                cl |= engine.closure(edges, t, forward=False)
            el &= cl
    return usk, el


def gen_expr(rng, spec, kind):
    if kind == "k":
        atoms = [project.tname(t["id"]) for t in spec["tasks"]] + [f"task_m{m}" for m in {t["module"] for t in spec["tasks"]}] + ["markone", "TASK_T00X", "nomatch"]
    else:
        atoms = ["markone", "marktwo", "skip", "persist", "skipif", "nomatch"]

    def e(d):
        r = rng.random()
        if d == 0 or r < 0.45:
            return rng.choice(atoms)
        if r < 0.6:
            return "not " + e(d - 1)
        if r < 0.8:
            return f"{e(d-1)} or {e(d-1)}"
        if r < 0.93:
            return f"{e(d-1)} and {e(d-1)}"
        return f"({e(d-1)})"
    return e(2)


SHAPES = {
    # chain 0 -> 1 -> 2
    "chain": [(0, [100], [110], []), (1, [110], [111], []), (2, [111], [112], [])],
    # diamond 0 -> {1, 2} -> 3
    "diamond": [(0, [100], [110], []), (1, [110], [111], []), (2, [110], [112], []), (3, [111, 112], [113], [])],
    # 0 -> 1, 2 is `after` 1, 3 independent
    "after": [(0, [100], [110], []), (1, [110], [111], []), (2, [], [112], [1]), (3, [100], [113], [])],
}
PLACEMENTS = [["skip"], ["skipif_true"], ["skipif_false"], ["skipif_false", "skipif_true"], ["skipif_true_e"], ["skipif_false", "skipif_true_e"], ["skipif_true_kw"]]


def small_scope(ctx):
    """fixed shapes × every single placement of skip / skipif(True) / skipif(False) / both skipifs / skipif(True) with an empty reason × options × fresh / built state,
    and every single-task -k, -m on one marked task, both combined. Quick tier: the option sets rotate; thorough: full product."""
    full = ctx.thorough
    keep = 1 if full else (2 if ctx.budget > 1.0 else 4)      # quick: every 4th combination (rotating), intensified: every 2nd
    hs = []
    optsets = [{}, {"force": True}, {"dry": True}, {"force": True, "dry": True}]
    n = 0

    def mk(shape, marks_of):
        return {"tasks": [{"id": i, "module": i % 2, "deps": d, "prods": p, "after": a, "after_style": "expr", "marks": list(marks_of.get(i, [])),
                           "beh": "ok", "style": ["default", "annotated", "kwargs"][i % 3]} for (i, d, p, a) in SHAPES[shape]],
                "versions": {"0": 0, "1": 0}, "inputs": {"100": 5}}

    for shape, tasks in SHAPES.items():
        for (tid, *_r) in tasks:
            for pl in PLACEMENTS:
                n += 1                     # block counter: rotates which option sets / states a placement gets
                for oi, opts in enumerate(optsets):
                    for built in (False, True):
                        if (n + 2 * oi + built) % keep:
                            continue
                        spec = mk(shape, {tid: pl})
                        steps = []
                        if built:
                            # everything up to date except what the mark blocks; then change the input so that "changed" tasks exist
                            steps = [["build", {}], ["write", 100, 6]]
                        steps.append(["build", dict(opts)])
                        hs.append({"tag": "small-skip", "spec": spec, "steps": steps})
        if shape == "chain":
            # decorator stacks: {markers, @task, functools.wraps pass-through} in every order, on the first task of the chain
            for pl in (["skip"], ["skipif_true"], ["skipif_false", "skipif_true_e"]):
                for below in (False, True):
                    for wrap in ("top", "mid", "bottom"):
                        for deco in (True, False):
                            n += 1
                            if not full and (n % 2) and pl != ["skip"]:
                                continue
                            spec = mk(shape, {0: pl})
                            spec["tasks"][0].update({"marks_below": below, "wrap": wrap, "force_decorator": deco})
                            hs.append({"tag": "small-stack", "spec": spec, "steps": [["build", [{}, {"force": True}][n % 2]]]})
        ids = [t[0] for t in tasks]
        for tid in ids:
            for mid in ids:
                n += 1
                if n % min(keep, 3) and not full:
                    continue
                spec = mk(shape, {mid: ["markone"]})
                for cfg in ({"k": project.tname(tid)}, {"m": "markone"}, {"k": project.tname(tid), "m": "markone"},
                            {"k": project.tname(tid), "m": "not markone", "force": True}):
                    hs.append({"tag": "small-select", "spec": spec, "steps": [["build", dict(cfg)]]})
    return hs


def histories(ctx):
    rng = ctx.rng
    hs = []
    # corpus: the F10 witness (fixed by 0a34917) must stay fixed
    hs.append({"tag": "corpus-F10", "spec": {"tasks": [
        {"id": 0, "module": 0, "deps": [], "prods": [20], "after": [], "marks": [], "beh": "ok", "style": "default"},
        {"id": 1, "module": 0, "deps": [20], "prods": [21], "after": [], "marks": [], "beh": "ok", "style": "default"},
        {"id": 2, "module": 0, "deps": [], "prods": [22], "after": [], "marks": [], "beh": "ok", "style": "default"}],
        "versions": {"0": 0}, "inputs": {}}, "steps": [["build", {"k": "task_t00x", "m": "skip"}]]})
    if F1_KNOWN:
        # corpus: the two C06 faces of F1 — (a) skip on a product-less after-target does not reach the dependant,
        # (b) selecting the dependant deselects the product-less after-target
        f1spec = {"tasks": [
            {"id": 0, "module": 0, "deps": [], "prods": [], "after": [], "marks": ["skip"], "beh": "ok", "style": "default"},
            {"id": 1, "module": 0, "deps": [], "prods": [21], "after": [0], "after_style": "func", "marks": [], "beh": "ok", "style": "default"}],
            "versions": {"0": 0}, "inputs": {}}
        hs.append({"tag": "corpus-F1-skip", "spec": f1spec, "steps": [["build", {}]]})
        f1sel = {"tasks": [dict(f1spec["tasks"][0], marks=[]), dict(f1spec["tasks"][1])], "versions": {"0": 0}, "inputs": {}}
        hs.append({"tag": "corpus-F1-select", "spec": f1sel, "steps": [["build", {"k": "task_t01x"}]]})
    hs += small_scope(ctx)
    for i in range(ctx.scale(120, 1300)):
        spec = engine.gen_spec(rng, nt=(2, 7), after_p=0.25, after_needs_prods=not (F1_KNOWN and i % 5 == 0), user_markers=True,
                               marks=(("skip", 0.12), ("skipif_true", 0.08), ("skipif_true_e", 0.03), ("skipif_true_kw", 0.04), ("skipif_false", 0.15), ("persist", 0.08)))
        engine.vary_decorators(rng, spec)
        steps = []
        if rng.random() < 0.4:
            steps.append(["build", {}])        # some tasks already up to date
            if rng.random() < 0.5:
                steps.append(["write", int(rng.choice(list(spec["inputs"]))), rng.randint(100, 999)])
        cfg = {}
        r = rng.random()
        if r < 0.35:
            cfg["k"] = gen_expr(rng, spec, "k")
        elif r < 0.6:
            cfg["m"] = gen_expr(rng, spec, "m")
        elif r < 0.85:
            cfg["k"] = gen_expr(rng, spec, "k")
            cfg["m"] = gen_expr(rng, spec, "m")
        if rng.random() < 0.25:
            cfg["force"] = True
        if rng.random() < 0.2:
            cfg["dry"] = True
        steps.append(["build", cfg])
        hs.append({"tag": "rand", "spec": spec, "steps": steps})
    return hs


def memlink_histories(ctx):
    """Labelled stream "memlink": product→dependency links through a value-less in-memory PythonNode (`mem_out` / `mem_in`), alone or
    next to file links, in fixed shapes with every single skip placement and -k on every task, and in random projects where a
    random subset of the file links is replaced."""
    rng = ctx.rng
    hs = []

    def mk(links, n, marks_of):
        # links: (producer, consumer, kind) with kind "mem" | "file" | "both"
        tasks = [{"id": i, "module": i % 2, "deps": [100] if i == 0 else [], "prods": [110 + i], "after": [], "marks": list(marks_of.get(i, [])),
                  "beh": "ok", "style": ["default", "annotated", "kwargs"][i % 3]} for i in range(n)]
        for u, v, kind in links:
            if kind in ("file", "both"):
                tasks[v]["deps"].append(110 + u)
            if kind in ("mem", "both"):
                tasks[u]["mem_out"] = True
                tasks[v].setdefault("mem_in", []).append(u)
        return {"tasks": tasks, "versions": {"0": 0, "1": 0}, "inputs": {"100": 5}}

    shapes = [
        ([(0, 1, "mem")], 2), ([(0, 1, "mem"), (1, 2, "file")], 3), ([(0, 1, "file"), (1, 2, "mem")], 3),
        ([(0, 1, "mem"), (1, 2, "mem")], 3), ([(0, 1, "both"), (0, 2, "mem"), (1, 3, "file"), (2, 3, "mem")], 4),
    ]
    n = 0
    for links, nt in shapes:
        for tid in range(nt):
            for pl in (["skip"], ["skipif_true"], ["skipif_false"]):
                n += 1
                cfg = [{}, {"force": True}, {"dry": True}][n % 3]
                hs.append({"tag": "memlink", "spec": mk(links, nt, {tid: pl}), "steps": [["build", cfg]]})
            hs.append({"tag": "memlink", "spec": mk(links, nt, {}), "steps": [["build", {"k": project.tname(tid)}]]})
            hs.append({"tag": "memlink", "spec": mk(links, nt, {tid: ["markone"]}), "steps": [["build", {"m": "markone", "force": True}]]})
    for i in range(ctx.scale(25, 400)):
        spec = engine.gen_spec(rng, nt=(3, 7), after_p=0.15, after_needs_prods=True, user_markers=True, dens=0.8, prodless_p=0.05,
                               styles=("default", "annotated", "kwargs"),
                               marks=(("skip", 0.15), ("skipif_true", 0.08), ("skipif_true_e", 0.03), ("skipif_true_kw", 0.04), ("skipif_false", 0.1)))
        prod_of = {p: t["id"] for t in spec["tasks"] for p in t["prods"]}
        changed = False
        for t in spec["tasks"]:
            for d in list(t["deps"]):
                u = prod_of.get(d)
                if u is not None and u != t["id"] and rng.random() < 0.5:
                    byid = {x["id"]: x for x in spec["tasks"]}
                    byid[u]["mem_out"] = True
                    if u not in t.setdefault("mem_in", []):
                        t["mem_in"].append(u)
                    if rng.random() < 0.7:
                        t["deps"].remove(d)        # the in-memory node is the only link
                    changed = True
        if not changed:
            continue
        cfg = {}
        r = rng.random()
        if r < 0.3:
            cfg["k"] = gen_expr(rng, spec, "k")
        elif r < 0.5:
            cfg["m"] = gen_expr(rng, spec, "m")
        if rng.random() < 0.25:
            cfg["force"] = True
        hs.append({"tag": "memlink", "spec": spec, "steps": [["build", cfg]]})
    return hs


def latelink_histories(ctx):
    """Labelled stream "latelink": producers of ordinary files that are skipped / skipif(True) / deselected × consumers that reach those
    files through a DirectoryNode pattern × left-over files from an earlier build × several hash seeds (each project is repeated so
    that it runs under different PYTHONHASHSEEDs; producer and consumer are unordered until the pattern is resolved)."""
    rng = ctx.rng
    hs = []
    reps = 4 if not ctx.thorough else 8
    k = 0
    for mk in (["skip"], ["skipif_true"], ["skipif_true_kw"], None, ["skipif_true_e"]):
        for ids in ((0, 1, 2), (3, 1, 2), (0, 4, 2), (5, 6, 7)):
            k += 1
            if not ctx.thorough and ctx.budget == 1.0 and k % 2:
                continue
            a, b, c = ids
            base = {"tasks": [
                {"id": a, "module": 0, "deps": [100], "prods": [110], "after": [], "marks": [], "beh": "ok", "style": "default"},
                {"id": b, "module": 1, "deps": [], "late_deps": [110], "prods": [111], "after": [], "marks": [], "beh": "ok", "style": "annotated"},
                {"id": c, "module": 2, "deps": [111], "prods": [112], "after": [], "marks": [], "beh": "ok", "style": "default"}],
                "versions": {"0": 0, "1": 0, "2": 0}, "inputs": {"100": 5}}
            marked = copy.deepcopy(base)
            cfg = {}
            if mk is None:
                cfg = {"k": project.tname(b) + " or " + project.tname(c)}     # the producer is deselected
            else:
                marked["tasks"][0]["marks"] = list(mk)
            # build everything, then mark the producer; the consumer's module changed, so it is out of date
            steps = [["build", {}], ["respec", marked], ["bump", 1], ["build", cfg]]
            for _ in range(reps):
                hs.append({"tag": "latelink", "spec": base, "steps": steps})
    for i in range(ctx.scale(12, 200)):
        spec = engine.gen_spec(rng, nt=(3, 6), after_p=0.1, after_needs_prods=True, dens=0.8, prodless_p=0.05, nomods=(2, 3),
                               styles=("default", "annotated"))
        prod_of = {p: t["id"] for t in spec["tasks"] for p in t["prods"]}
        changed = False
        for t in spec["tasks"]:
            for d in list(t["deps"]):
                if d in prod_of and prod_of[d] != t["id"] and rng.random() < 0.5:
                    t["deps"].remove(d)
                    t.setdefault("late_deps", []).append(d)
                    changed = True
        if not changed:
            continue
        marked = copy.deepcopy(spec)
        prods = [t for t in marked["tasks"] if t["prods"]]
        for t in rng.sample(prods, rng.randint(1, min(2, len(prods)))):
            t["marks"].append(rng.choice(["skip", "skipif_true", "skipif_true_kw"]))
        steps = [["build", {}], ["respec", marked]] + [["bump", m] for m in sorted({t["module"] for t in spec["tasks"]})] + \
                [["build", {"force": True} if rng.random() < 0.3 else {}]]
        for _ in range(3):
            hs.append({"tag": "latelink", "spec": spec, "steps": steps})
    return hs


def run_objects_stream(ctx, given=None):
    """Labelled stream "objects": see ASSUMPTIONS. Uses the task-object renderer and the in-process worker of the C10 campaign."""
    import shutil
    from concurrent.futures import ThreadPoolExecutor
    from impl import builder, dryrun
    rng = ctx.rng
    hs = list(given or [])
    for i in range(0 if given else ctx.scale(10, 120)):
        spec = engine.gen_spec(rng, nt=(3, 5), after_p=0.0, dens=0.8, prodless_p=0.0, nomods=(1, 1), styles=("default",),
                               marks=(("skip", 0.1), ("skipif_true", 0.08), ("skipif_false", 0.1)))
        for t in spec["tasks"]:
            t["marks"] = [m for m in t["marks"] if m in dryrun.MARK_SRC]
            t["objkind"] = rng.choice(["task", "nopath"])
        names = [project.tname(t["id"]) for t in spec["tasks"]]
        cfgs = []
        for _ in range(rng.randint(3, 4)):
            r = rng.random()
            if r < 0.4:
                cfgs.append({"k": " or ".join(rng.sample(names, rng.randint(1, 2)))})
            elif r < 0.55:
                cfgs.append({"m": rng.choice(["skip", "skipif", "not skip"])})
            elif r < 0.7:
                cfgs.append({"force": True})
            else:
                cfgs.append({})
        if not any(c.get("k") for c in cfgs[:-1]):
            cfgs.insert(0, {"k": rng.choice(names)})
        hs.append({"tag": "objects", "spec": spec, "steps": [["build", c] for c in cfgs], "hashseed": rng.randrange(1, 1000)})

    def one(h):
        root = common.scratch_dir("c06o")
        try:
            spec = h["spec"]
            clock = project.Clock()
            (root / "pyproject.toml").write_text("[tool.pytask.ini_options]\n")
            (root / "_verif_rt.py").write_text(project.RT)
            (root / "data").mkdir(exist_ok=True)
            project.write_file(root / "verif_objs.py", dryrun.render_objects_module(spec), clock)
            for n, c in spec.get("inputs", {}).items():
                project.write_file(project.node_path(root, int(n)), str(c), clock)
            obs = dryrun.inproc_builds(root, [builder.cfg_to_kw(s[1]) for s in h["steps"]], h["hashseed"], objects=True)
            return [{"step": s, "cfg": s[1], "obs": o, "spec": spec, "pre": {}, "post": {}} for s, o in zip(h["steps"], obs)]
        finally:
            shutil.rmtree(root, ignore_errors=True)

    with ThreadPoolExecutor(max_workers=8) as ex:
        allrecs = list(ex.map(one, hs))
    for h, recs in zip(hs, allrecs):
        outs = [set(engine.outcomes(r["obs"]).values()) for r in recs]
        nt = any("SKIP" in o and len(o) >= 2 for o in outs) and len(recs) >= 3
        ctx.case([h["spec"], h["steps"]], nt, None)
        ctx.dist["stream=objects"] += 1
        for kind, msg, finding in oracle(h, recs):
            ctx.violation(f"{kind}: {msg} [objects stream, builds {[s[1] for s in h['steps']]} in one interpreter]",
                          {"history": h, "layer": "objects-inprocess"}, finding=finding)


def generator_histories(ctx):
    """Labelled stream "generator": a selected task generator creates a task during the build; the selection must apply to it."""
    rng = ctx.rng
    hs = []
    # fixed shape: a (skipped | skipif(True) | unmarked) task s, and a generator (± try_last) whose child consumes s's product
    for mk in (["skip"], ["skipif_true"], []):
        for last in (True, False):
            for built in (False, True):
                spec = {"tasks": [
                    {"id": 0, "module": 0, "deps": [100], "prods": [110], "after": [], "marks": list(mk), "beh": "ok", "style": "default"},
                    {"id": 1, "module": 1, "deps": [], "prods": [111], "after": [], "marks": ["try_last"] if last else [], "beh": "ok",
                     "style": "default", "gen": True, "gen_child_deps": [110]}],
                    "versions": {"0": 0, "1": 0}, "inputs": {"100": 5}}
                steps = [["build", {}]]
                if built and mk:      # the product of the skipped task exists from an earlier build without the mark
                    unmarked = copy.deepcopy(spec)
                    unmarked["tasks"][0]["marks"] = []
                    # … and the generator's module changed since, so that the generated task is out of date
                    steps = [["build", {}], ["respec", spec], ["bump", 1], ["build", {}]]
                    spec = unmarked
                hs.append({"tag": "generator", "spec": spec, "steps": steps})
    for i in range(ctx.scale(40, 500)):
        spec = engine.gen_spec(rng, nt=(2, 5), after_p=0.15, after_needs_prods=True, user_markers=True, prodless_p=0.1,
                               styles=("default", "annotated", "kwargs"), marks=(("skip", 0.12), ("skipif_true", 0.06), ("skipif_false", 0.1)))
        for t in rng.sample(spec["tasks"], rng.randint(1, min(2, len(spec["tasks"])))):
            t["gen"] = True
            t["gen_marks"] = [mk for mk in ("markone", "marktwo") if rng.random() < 0.4]
            # the generated task may consume products of other tasks (which may be skipped / deselected and may have been
            # processed before the generator runs) — never of its own generator's descendants
            edges = engine.spec_task_edges(spec)
            below = engine.closure(edges, t["id"], forward=True) | {t["id"]}
            pool = [p for u in spec["tasks"] if u["id"] not in below for p in u["prods"]]
            if pool and rng.random() < 0.6:
                t["gen_child_deps"] = sorted(rng.sample(pool, rng.randint(1, min(2, len(pool)))))
            if rng.random() < 0.5 and "try_last" not in t["marks"]:
                t["marks"].append("try_last")          # generators tend to run after the tasks whose products their children use
        se, kids = ext_spec(spec)
        names = [project.tname(t["id"]) for t in se["tasks"]]
        gens = [project.tname(t["id"]) for t in spec["tasks"] if t.get("gen")]
        cfg = {}
        r = rng.random()
        if r < 0.25:
            pass              # no selection: skip marks and generated dependants only
        elif r < 0.5:     # the generator plus something else, so that the generator runs and its child may or may not be selected
            cfg["k"] = " or ".join([rng.choice(gens)] + rng.sample(names, rng.randint(0, 2)))
        elif r < 0.6:
            cfg["k"] = gen_expr(rng, se, "k")
        elif r < 0.9:
            cfg["m"] = rng.choice(["markone", "marktwo", "not markone", "not marktwo", "markone or marktwo", "not markone and not marktwo",
                                   "markone and not marktwo", "nomatch or not markone"])
        else:
            cfg["k"] = rng.choice(gens) + " or " + rng.choice(names)
            cfg["m"] = rng.choice(["not markone", "not marktwo", "markone or not marktwo"])
        if rng.random() < 0.2:
            cfg["force"] = True
        steps = [["build", cfg]]
        if rng.random() < 0.3:
            steps.append(["build", dict(cfg)])
        hs.append({"tag": "generator", "spec": spec, "steps": steps})
    return hs


def nontrivial_gen(h, recs):
    """a generated task was reported, and the build reports both SKIP and something else"""
    kids = {50 + t["id"] for t in h["spec"]["tasks"] if t.get("gen")}
    for r in recs:
        if r["step"][0] == "build":
            out = engine.outcomes(r["obs"])
            if kids & set(out) and "SKIP" in out.values() and len(set(out.values())) >= 2:
                return True
    return False


def nontrivial(h, recs):
    b = [r for r in recs if r["step"][0] == "build"]
    last = b[-1]
    outs = set(engine.outcomes(last["obs"]).values())
    return "SKIP" in outs and len(outs) >= 2


def run(ctx):
    ctx.rule = ("generated projects with skip / skipif(True|False) / persist / user markers × -k, -m, both, none × force × dry-run × fresh or "
                "partially built state; non-trivial = the selecting build reports SKIP for some task and something else for another; distinct by (spec, steps)")
    engine.run_campaign(ctx, histories(ctx), oracle, nontrivial=nontrivial, sel_eval=engine.sel_eval)
    # labelled streams without model replay (see ASSUMPTIONS)
    before = len(ctx.nontrivial)
    engine.run_campaign(ctx, memlink_histories(ctx), oracle, nontrivial=nontrivial, compare_model=False)
    ctx.extra["memlink_stream_nontrivial"] = len(ctx.nontrivial) - before
    before = len(ctx.nontrivial)
    engine.run_campaign(ctx, latelink_histories(ctx), oracle, nontrivial=nontrivial, compare_model=False)
    ctx.extra["latelink_stream_nontrivial"] = len(ctx.nontrivial) - before
    before = len(ctx.nontrivial)
    engine.run_campaign(ctx, generator_histories(ctx), oracle, nontrivial=nontrivial_gen, compare_model=False)
    ctx.extra["generator_stream_nontrivial"] = len(ctx.nontrivial) - before
    before = len(ctx.nontrivial)
    run_objects_stream(ctx)
    ctx.extra["objects_stream_nontrivial"] = len(ctx.nontrivial) - before


def replay(ctx, obj):
    h = obj["input"]["history"]
    if h.get("tag") == "objects":
        run_objects_stream(ctx, [h] * 2)
        return (False, ctx.violations[0]["what"]) if ctx.violations else (True, "skip/selection semantics hold on the stored in-process history")
    engine.run_campaign(ctx, [h] * 4, oracle, sel_eval=engine.sel_eval, compare_model=h.get("tag") not in ("memlink", "generator", "latelink"))
    if ctx.violations:
        return False, ctx.violations[0]["what"]
    if ctx.disagreements:
        return False, ctx.disagreements[0]["what"]
    return True, "skip/selection semantics hold on the stored history"
