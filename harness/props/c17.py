"""C17 — persisted tasks are not executed while products exist and stay quiet afterwards."""
import copy
from collections import Counter

from impl import engine, project

STATS = Counter()      # how often each oracle rule's antecedent held (reported in the evidence)

ASSUMPTIONS = [
    "ground truth of 'what exists / what changed' is kept by the harness, which made the edits: per task the contents of its dependencies, "
    "products of after-targets, module text and products at its last SUCCESS / PERSISTENCE in a real (non-dry) build",
    "edits are honest (new mtime with every write; the mtime-preserving edit of finding F4 is scoped to C02/C12)",
    "after-targets always have products in this campaign (finding F1 is scoped to C01)",
    "a dry run reports PERSISTENCE but records nothing (fix 8d652c5), so 'quiet afterwards' is only demanded after real builds; in a dry run a "
    "persist task below a task that would be executed must be announced WOULD_BE_EXECUTED, not PERSISTENCE (fix dbf5519, finding F20)",
    "observed schedule replayed in the Lean engine; theorems hold for every legal schedule",
]

NOT_REACHED = {"FAIL", "SKIP_PREVIOUS_FAILED"}


def tracked_nodes(spec, t):
    byid = {x["id"]: x for x in spec["tasks"]}
    after_prods = sorted(p for a in t.get("after", []) if a in byid and a != t["id"] for p in byid[a]["prods"])
    return sorted(set(t["deps"]) | set(after_prods)), list(t["prods"])


def view(spec, t, rec):
    """what the task sees when its turn comes: inputs as the build left them (only producers write them, and they ran before),
    own products as they were before the build (a persisted / skipped task does not write them)"""
    ins, prods = tracked_nodes(spec, t)
    v = {("in", n): rec["post"].get(n) for n in ins}
    v.update({("prod", n): rec["pre"].get(n) for n in prods})
    v["module"] = project.module_content(spec, t["module"])
    return v


def oracle(hist, records):
    bad = []
    snap = {}            # task -> view recorded at its last SUCCESS / PERSISTENCE (real build)
    quiet = {}           # task -> view: persisted in the build just before; must be SKIP_UNCHANGED now if nothing moved
    for rec in records:
        if rec["step"][0] != "build":
            quiet = {}
            continue
        spec, obs, cfg = rec["spec"], rec["obs"], rec["cfg"]
        if obs.get("raised") or obs.get("exit") not in (0, 1):
            bad.append(("exit", f"build raised / exit {obs.get('exit')} {obs.get('raised')}", None))
            quiet = {}
            continue
        out = engine.outcomes(obs)
        ex = set(engine.executed(obs))
        edges = engine.spec_task_edges(spec)
        usk = engine.user_skipped_closure(spec)
        el = engine.eligible(spec, cfg)
        new_quiet = {}
        # no failure limit is used in this campaign: the loop never stops early, so every task is reported exactly once,
        # and a failing exit code needs a failed task
        order = [engine.name_to_id(r[0]) for r in obs["reports"]]
        if sorted(order) != sorted(t["id"] for t in spec["tasks"]):
            bad.append(("report", f"not every task has exactly one report: reported {order}, exit {obs['exit']} "
                                  f"(persist tasks {[t['id'] for t in spec['tasks'] if 'persist' in t.get('marks', [])]})", None))
        if obs["exit"] == 1 and "FAIL" not in out.values():
            bad.append(("exit", f"exit code 1 without any failed task (reports {obs['reports']})", None))
        for t in spec["tasks"]:
            tid = t["id"]
            anc = engine.closure(edges, tid, forward=False)
            otherwise = tid in usk or tid not in el or any(out.get(a) in NOT_REACHED for a in anc)
            v = view(spec, t, rec)
            present = all(x is not None for x in v.values())
            ins_present = all(x is not None for k, x in v.items() if k == "module" or k[0] == "in")
            # changed = some CURRENT neighbour differs from what was recorded for it (or was never recorded); a neighbour that the
            # task no longer has does not count
            sn = snap.get(tid)
            changed = sn is None or any(sn.get(k, "<none>") != val for k, val in v.items())
            # dry run: a task below a task that would be executed carries the would_be_executed mark; whether its nodes will
            # still be changed once the ancestors really ran cannot be known, so it must be announced WOULD_BE_EXECUTED and
            # never PERSISTENCE (repair of F20)
            below_wbe = bool(cfg.get("dry")) and any(out.get(a) == "WOULD_BE_EXECUTED" for a in anc)
            if "persist" in t.get("marks", []) and not otherwise and below_wbe:
                STATS["dry-below-would-be-executed"] += 1
                if tid in ex:
                    bad.append(("dry", f"persist task {tid} was executed in a dry run", None))
                if out.get(tid) != "WOULD_BE_EXECUTED":
                    bad.append(("dry", f"dry run: persist task {tid} depends on a task that would be executed but is announced {out.get(tid)} "
                                       f"instead of WOULD_BE_EXECUTED", None))
            elif "persist" in t.get("marks", []) and not otherwise:
                if present and changed:
                    STATS["persist-antecedent" + ("-force" if cfg.get("force") else "-dry" if cfg.get("dry") else "")] += 1
                    if tid in ex:
                        bad.append(("persist", f"persist task {tid}: dependencies and products all exist, something changed, but its body was executed", None))
                    if out.get(tid) != "PERSISTENCE":
                        bad.append(("persist", f"persist task {tid}: dependencies and products all exist and something changed, reported {out.get(tid)} instead of PERSISTENCE", None))
                    elif not cfg.get("dry"):
                        new_quiet[tid] = v
                if not ins_present:
                    # "whose dependencies and products all exist": with a missing dependency the mark must not fire
                    STATS["missing-dependency-antecedent"] += 1
                    if out.get(tid) == "PERSISTENCE":
                        bad.append(("missingdep", f"persist task {tid} has a missing dependency but is reported PERSISTENCE", None))
                if ins_present and not present and not cfg.get("dry"):
                    STATS["missing-product-antecedent"] += 1
                    if tid not in ex:
                        bad.append(("missing", f"persist task {tid} has a missing product and is not otherwise skipped, but was not executed (reported {out.get(tid)})", None))
                    if out.get(tid) == "PERSISTENCE":
                        bad.append(("missing", f"persist task {tid} has a missing product but is reported PERSISTENCE", None))
            if otherwise and "persist" in t.get("marks", []):
                STATS["otherwise-skipped-persist-task"] += 1
                if tid in ex:
                    bad.append(("wins", f"persist task {tid} is skipped / deselected / behind a failed task but its body ran", None))
                if out.get(tid) == "PERSISTENCE":
                    bad.append(("wins", f"persist task {tid} is skipped / deselected / behind a failed task but is reported PERSISTENCE", None))
            if tid in quiet and not otherwise and not cfg.get("force") and not cfg.get("dry") and quiet[tid] == v:
                STATS["quiet-antecedent"] += 1
                if out.get(tid) != "SKIP_UNCHANGED" or tid in ex:
                    bad.append(("quiet", f"task {tid} was persisted by the previous build and nothing changed since, but is now reported {out.get(tid)}"
                                         f"{' and executed' if tid in ex else ''}", None))
        if not cfg.get("dry"):
            for t in spec["tasks"]:
                if out.get(t["id"]) in ("SUCCESS", "PERSISTENCE"):
                    v = view(spec, t, rec)
                    if out[t["id"]] == "SUCCESS":   # the task wrote its products: record what it left
                        for n in t["prods"]:
                            v[("prod", n)] = rec["post"].get(n)
                    snap[t["id"]] = v
        quiet = new_quiet
    return bad


# ------------------------------------------------------------------------------------------------

CFGS = [{}, {}, {}, {"force": True}, {"force": True}, {"dry": True}, {"force": True, "dry": True}, {"k": "task_t00x"}, {"k": "task_t01x or task_t02x"}, {"m": "persist"},
        {"m": "not persist"}, {"m": "markone"}, {"k": "task_t01x", "m": "persist or markone"}]


def rand_edit(rng, spec):
    ins = [int(x) for x in spec["inputs"]]
    prods = [p for t in spec["tasks"] for p in t["prods"]]
    pprods = [p for t in spec["tasks"] if "persist" in t["marks"] for p in t["prods"]]
    pmods = sorted({t["module"] for t in spec["tasks"] if "persist" in t["marks"]})
    mods = sorted({t["module"] for t in spec["tasks"]})
    r = rng.random()
    if r < 0.22 and ins:
        return ["write", rng.choice(ins), rng.randint(100, 999)]
    if r < 0.40 and (pmods or mods):
        return ["bump", rng.choice(pmods or mods)]
    if r < 0.58 and (pprods or prods):
        return ["write", rng.choice(pprods or prods), rng.randint(1000, 9999)]     # tampered product
    if r < 0.80 and (pprods or prods):
        return ["delete", rng.choice(pprods if pprods and rng.random() < 0.7 else prods)]
    if r < 0.86 and prods:
        return ["touch", rng.choice(prods + ins)]
    hashed = {n for t in spec["tasks"] for n in t.get("pyhash_deps", [])}
    pins = [d for t in spec["tasks"] if "persist" in t["marks"] for d in t["deps"] if d in ins and d not in hashed]
    if r < 0.93 and pins:
        return ["delete", rng.choice(pins)]          # a dependency of a persist task vanishes
    if ins:
        return ["write", rng.choice(ins), rng.randint(100, 999)]
    return None


def small_scope(ctx):
    """chain 0 -> 1 (-> 2): every persist subset × one edit × one option set, each followed by an immediate plain build."""
    hs = []
    base = {"tasks": [
        {"id": 0, "module": 0, "deps": [100], "prods": [110], "after": [], "marks": [], "beh": "ok", "style": "default"},
        {"id": 1, "module": 1, "deps": [101, 110], "pyhash_deps": [101], "prods": [111, 112], "after": [], "marks": [], "beh": "ok", "style": "annotated"},
        {"id": 2, "module": 1, "deps": [], "prods": [113], "after": [1], "after_style": "expr", "marks": [], "beh": "ok", "style": "default"},
        {"id": 3, "module": 0, "deps": [110], "prods": [], "after": [], "marks": [], "beh": "ok", "style": "kwargs"}],
        "versions": {"0": 0, "1": 0}, "inputs": {"100": 7, "101": 3}}      # node 101 is a hashed Python value (PythonNode(hash=True)) of task 1
    edits = [[["write", 100, 8]], [["delete", 100]], [["write", 101, 4]], [["bump", 1]], [["write", 111, 4242]], [["delete", 112]], [["write", 110, 4343]], [["delete", 110]],
             [["write", 113, 4444]], [["touch", 111]], [["delete", 111], ["write", 100, 9]], []]
    cfgs = [{}, {"force": True}, {"dry": True}, {"force": True, "dry": True}, {"k": "task_t00x"}, {"m": "persist"}]
    extra = [(), ((0, "skip"),), ((0, "early"),)]
    subsets = [(1, 3), (0, 1), (1, 2), (0, 1, 2, 3), (2,), (3,)]
    if not ctx.thorough and ctx.budget == 1.0:
        subsets = subsets[:3]
    for sub in subsets:
        for ed in edits:
            for cfg in cfgs:
                for ex in extra:
                    if ex and (cfg or len(ed) != 1):
                        continue      # skip / failing upstream only with the plain option set and single edits
                    spec = copy.deepcopy(base)
                    for i in sub:
                        spec["tasks"][i]["marks"].append("persist")
                    steps = [["build", {}]]
                    for tid, what in ex:
                        if what == "skip":        # the mark is added after the first build, so products exist
                            ns = copy.deepcopy(spec)
                            ns["tasks"][tid]["marks"].append("skip")
                            steps.append(["respec", ns])
                        else:
                            steps.append(["setbeh", tid, "early"])
                    steps += copy.deepcopy(ed)
                    # a dry run is followed by its real counterpart (what it announced), everything else by a plain build
                    follow = {k: v for k, v in cfg.items() if k != "dry"} if cfg.get("dry") else {}
                    steps += [["build", dict(cfg)], ["build", follow]]
                    hs.append({"tag": "small", "spec": spec, "steps": steps})
    return hs


def stack_scope(ctx):
    """decorator stacks on the persist task: {persist marker, @task, functools.wraps pass-through} in every order × an edit of a
    dependency / of the product × plain or forced build, each followed by a plain build"""
    hs = []
    n = 0
    for below in (False, True):
        for wrap in ("top", "mid", "bottom"):
            for deco in (True, False):
                for ed in (["write", 100, 8], ["write", 111, 4242]):
                    n += 1
                    spec = {"tasks": [
                        {"id": 0, "module": 0, "deps": [100], "prods": [110], "after": [], "marks": [], "beh": "ok", "style": "default"},
                        {"id": 1, "module": 1, "deps": [110], "prods": [111], "after": [], "marks": ["persist"], "beh": "ok",
                         "style": ["default", "annotated", "kwargs"][n % 3], "marks_below": below, "wrap": wrap, "force_decorator": deco}],
                        "versions": {"0": 0, "1": 0}, "inputs": {"100": 7}}
                    hs.append({"tag": "stack", "spec": spec, "steps": [["build", {}], ed, ["build", [{}, {"force": True}][n % 2]], ["build", {}]]})
    return hs


def dirprod_scope(ctx):
    """persist tasks that also have a DirectoryNode product (a provisional node: it has no state before the task ran), declared
    before ("a") or after ("z") the file products × an edit of a dependency / the source / a product / a deleted product ×
    plain, forced, dry-run builds, each followed by a plain build"""
    hs = []
    n = 0
    for where in ("a", "z"):
        for sub in ((1,), (0, 1)):
            for ed in ([["write", 100, 8]], [["bump", 1]], [["write", 111, 4242]], [["delete", 111]], []):
                for cfg in ({}, {"force": True}, {"dry": True}):
                    n += 1
                    if not ctx.thorough and ctx.budget == 1.0 and cfg and n % 2:
                        continue
                    spec = {"tasks": [
                        {"id": 0, "module": 0, "deps": [100], "prods": [110], "after": [], "marks": [], "beh": "ok", "style": "default"},
                        {"id": 1, "module": 1, "deps": [110], "prods": [111], "after": [], "marks": [], "beh": "ok", "style": "annotated", "dirprod": where},
                        {"id": 2, "module": 1, "deps": [111], "prods": [112], "after": [], "marks": [], "beh": "ok", "style": "default"}],
                        "versions": {"0": 0, "1": 0}, "inputs": {"100": 7}}
                    for i in sub:
                        spec["tasks"][i]["marks"].append("persist")
                        if i == 0:
                            spec["tasks"][0]["dirprod"] = where
                    follow = {k: v for k, v in cfg.items() if k != "dry"} if cfg.get("dry") else {}
                    hs.append({"tag": "dirprod", "spec": spec, "steps": [["build", {}]] + copy.deepcopy(ed) + [["build", dict(cfg)], ["build", follow]]})
    return hs


def newpred_scope(ctx):
    """A persist task gets a NEW neighbour without any of its recorded neighbours or its own module changing: it is declared
    `after="t0 or t3"`, and task 3 (own module, one or two products) is added to the project later — its products become
    predecessors of the persist task. (Also: the new task is removed again.)"""
    hs = []
    for nprod in (1, 2):
        for style in ("default", "annotated"):
            for cfg in ({}, {"force": True}):
                base = {"tasks": [
                    {"id": 0, "module": 0, "deps": [100], "prods": [110], "after": [], "marks": [], "beh": "ok", "style": "default"},
                    {"id": 2, "module": 1, "deps": [], "prods": [113], "after": [0, 3], "after_style": "expr", "marks": ["persist"], "beh": "ok", "style": style}],
                    "versions": {"0": 0, "1": 0, "2": 0}, "inputs": {"100": 7}}
                more = copy.deepcopy(base)
                more["tasks"].append({"id": 3, "module": 2, "deps": [100], "prods": [115, 116][:nprod], "after": [], "marks": [], "beh": "ok", "style": "default"})
                hs.append({"tag": "newpred", "spec": base,
                           "steps": [["build", {}], ["respec", more], ["build", dict(cfg)], ["build", {}], ["respec", base], ["build", {}], ["build", {}]]})
    return hs


def histories(ctx):
    rng = ctx.rng
    hs = small_scope(ctx) + stack_scope(ctx) + dirprod_scope(ctx) + newpred_scope(ctx)
    for i in range(ctx.scale(60, 900)):
        spec = engine.gen_spec(rng, nt=(2, 6), after_p=0.25, after_needs_prods=True, user_markers=True, prodless_p=0.15,
                               behs=("ok",) * 7 + ("early",),
                               marks=(("persist", 0.45), ("skip", 0.06), ("skipif_true", 0.04), ("skipif_false", 0.08)))
        if not any("persist" in t["marks"] for t in spec["tasks"]):
            rng.choice(spec["tasks"])["marks"].append("persist")
        engine.vary_decorators(rng, spec)
        for t in spec["tasks"]:          # some persist tasks also have a directory-pattern product
            if "persist" in t["marks"] and t["prods"] and t["beh"] == "ok" and t["style"] != "return" and rng.random() < 0.3:
                t["dirprod"] = rng.choice(["a", "z"])
        ins = {int(k) for k in spec["inputs"]}
        for t in spec["tasks"]:           # some dependencies on inputs are hashed Python values instead of files
            hv = [d for d in t["deps"] if d in ins and rng.random() < 0.3]
            if hv:
                t["pyhash_deps"] = hv
                if t["style"] == "return":
                    t["style"] = "default"
        steps = [["build", {}]]
        for _ in range(rng.randint(1, 3)):
            for _ in range(rng.randint(0, 2)):
                e = rand_edit(rng, spec)
                if e:
                    steps.append(e)
            if rng.random() < 0.15:
                fails = [t for t in spec["tasks"] if t["beh"] == "early"]
                if fails:
                    steps.append(["setbeh", rng.choice(fails)["id"], "ok"])
            steps.append(["build", dict(rng.choice(CFGS))])
            if rng.random() < 0.8:
                steps.append(["build", {}])
        hs.append({"tag": "rand", "spec": spec, "steps": steps})
    return hs


def nontrivial(h, recs):
    """some build reports PERSISTENCE for a task, and a later build reports that task again"""
    seen = set()
    for r in recs:
        if r["step"][0] != "build":
            continue
        out = engine.outcomes(r["obs"])
        if any(t in seen for t in out):
            return True
        seen |= {t for t, o in out.items() if o == "PERSISTENCE"}
    return False


def run(ctx):
    ctx.rule = ("chains with every persist subset × {edit of input / source / product, deleted product, deleted dependency, touch, nothing} × "
                "{plain, force, dry-run, force + dry-run, -k, -m, skipped upstream, failing upstream}, incl. a dependency that is a hashed Python value "
                "(PythonNode(hash=True)) and a persist task without products + random projects (≤ 6 tasks, persist on ~45 % of the tasks, skip / skipif / "
                "failing tasks, user markers) with 1–3 rounds of edits and builds, each mostly followed by an immediate plain build; non-trivial = a task is "
                "reported PERSISTENCE and reported again by a later build; distinct by (spec, steps)")
    STATS.clear()
    engine.run_campaign(ctx, histories(ctx), oracle, nontrivial=nontrivial, sel_eval=engine.sel_eval)
    ctx.extra["oracle_rule_hits"] = dict(STATS)


def replay(ctx, obj):
    engine.run_campaign(ctx, [obj["input"]["history"]] * 4, oracle, sel_eval=engine.sel_eval)
    if ctx.violations:
        return False, ctx.violations[0]["what"]
    if ctx.disagreements:
        return False, ctx.disagreements[0]["what"]
    return True, "persist semantics hold on the stored history"
