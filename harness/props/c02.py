"""C02 — an incremental build leaves what a from-scratch build would leave."""
from impl import engine, histgen

ASSUMPTIONS = [
    "task bodies are deterministic functions of their declared inputs and module text and write only their declared products",
    "edits are honest: every content change comes with a new mtime (the stale-memo class F4 is exercised by the C12 check)",
    "static dependency sets: directory patterns (finding F11) are exercised by the C18 check",
    "sha256 collision freedom (contents are compared as integers in the model)",
    "persist-marked tasks are outside the claim and are not generated here",
    "Lean side (Properties/C02.lean): WF P (unique task ids, a task lists a product once, module files are not products) and BodiesTotal P "
    "(a body that returns has written all its products) are hypotheses; the project is static along a History (edits = arbitrary changes of "
    "file contents incl. module files and products, loss of the state table); add/remove/rewire-task edits are covered by the differential "
    "campaign only",
]
EDITS = ["write", "write", "revert", "rewrite_same", "touch", "delete_input", "bump", "revert_module", "tamper", "delete_product",
         "rewire", "add_task", "remove_task"]
CFGS = [{}, {}, {}, {"force": True}, {"dry": True}, {"maxfail": 1}, {"k": "task_t00x"}, {"k": "task_t01x or task_t02x"}, {"m": "markone"}]


def oracle(hist, records):
    bad = []
    for rec in records:
        if rec["step"][0] != "build":
            continue
        spec, obs, cfg = rec["spec"], rec["obs"], rec["cfg"]
        if obs.get("raised"):
            bad.append(("returns", f"build raised {obs['raised']}", None))
            continue
        if obs.get("exit") != 0 or cfg.get("dry"):
            continue
        prods = {p for t in spec["tasks"] for p in t["prods"]}
        inputs = {n: v for n, v in rec["post"].items() if n not in prods}
        want = engine.scratch_contents(spec, inputs)
        skipc = engine.user_skipped_closure(spec)
        el = engine.eligible(spec, cfg)
        for t in spec["tasks"]:
            if t["id"] in skipc or t["id"] not in el:
                continue
            for p in t["prods"]:
                if rec["post"].get(p) != want.get(p):
                    out = engine.outcomes(obs).get(t["id"])
                    bad.append(("scratch", f"build reported success but product n{p} of task {t['id']} ({out}) holds {rec['post'].get(p)}; "
                                           f"a from-scratch build gives {want.get(p)} (steps {[s[:3] if s[0] != 'respec' else ['respec'] for s in hist['steps']]})", None))
    return bad


def histories(ctx):
    rng = ctx.rng
    hs = []
    for i in range(ctx.scale(70, 800)):
        spec = engine.gen_spec(rng, nt=(2, 7), after_p=0.2, after_needs_prods=True, user_markers=True, marks=(("skip", 0.05),))
        hs.append(histgen.random_history(rng, spec, rng.randint(4, 10), EDITS, CFGS, final_build={}))
    return hs


def nontrivial(h, recs):
    b = [r for r in recs if r["step"][0] == "build"]
    edits = [r for r in recs if r["step"][0] != "build"]
    return len(b) >= 2 and len(edits) >= 1 and any(x["obs"].get("exit") == 0 and engine.executed(x["obs"]) for x in b[1:])


def run(ctx):
    ctx.rule = ("histories of 4-10 steps over generated projects: builds (plain, forced, dry, max_failures=1, -k, -m) interleaved with edits (write / revert / "
                "identical rewrite / touch / delete input, bump / revert module, tamper / delete product, rewire dependency, add / remove task), final plain build; "
                "oracle = product bytes vs F evaluated from scratch along the DAG; non-trivial = ≥2 builds, ≥1 edit and a later successful build that executed something")
    engine.run_campaign(ctx, histories(ctx), oracle, nontrivial=nontrivial, sel_eval=engine.sel_eval)


def replay(ctx, obj):
    engine.run_campaign(ctx, [obj["input"]["history"]] * 2, oracle, sel_eval=engine.sel_eval)
    if ctx.violations:
        return False, ctx.violations[0]["what"]
    if ctx.disagreements:
        return False, ctx.disagreements[0]["what"]
    return True, "products equal the from-scratch result on the stored history"
