"""C02 — an incremental build leaves what a from-scratch build would leave."""
import json
import shutil
import subprocess

import common
from impl import engine, histgen

ASSUMPTIONS = [
    "task bodies are deterministic functions of their declared inputs and module text and write only their declared products",
    "edits are honest: every content change comes with a new mtime (the stale-memo class F4 is exercised by the C12 check)",
    "static dependency sets: directory patterns (finding F11) are exercised by the C18 check",
    "sha256 collision freedom (contents are compared as integers in the model)",
    "persist-marked tasks are outside the claim and are not generated here",
    "Lean side (Properties/C02.lean): WF P (unique task ids, a task lists a product once, module files are not products) and BodiesTotal P "
    "(a body that returns has written all its products) are hypotheses; the project is static along a History (edits = arbitrary changes of "
    "file contents incl. module files and products, loss of the state table); add/remove/rewire-task edits are covered by the differential "
    "campaign only for the static History; Properties/C02.lean additionally proves C02_history_structural over HistoryP (add / remove / rewire-task edits) "
    "under DeclChangeTouchesSrc (a declaration change changes the module content) — true of the generated projects by construction, false for F11b",
    "generated projects also contain: input nodes that are symbolic links edited through their target (model: state = content the spelling denotes), "
    "a DirectoryNode product declared before / after the ordinary file products of some tasks (its files are implementation-only and never edited; "
    "model replay and oracle cover the ordinary products), a constant hashed PythonNode dependency; successive builds of one history run under different PYTHONHASHSEEDs",
    "generated projects also pass some dependencies inside one dict / list / tuple argument together with plain Python values (same dependency set), "
    "and place some task modules in sub-directories that carry a pyproject.toml without a pytask section",
]
EDITS = ["write", "write", "revert", "rewrite_same", "touch", "delete_input", "bump", "revert_module", "tamper", "delete_product",
         "rewire", "add_task", "remove_task", "flag", "flag", "swap", "swap"]
CFGS = [{}, {}, {}, {"force": True}, {"dry": True}, {"maxfail": 1}, {"k": "task_t00x"}, {"k": "task_t01x or task_t02x"}, {"m": "markone"}]


def oracle(hist, records):
    bad = []
    for rec in records:
        if rec["step"][0] != "build":
            continue
        spec, obs, cfg = rec["spec"], rec["obs"], rec["cfg"]
        if obs.get("raised"):
            bad.append(("returns", f"build raised {obs['raised']}", None))
            continue
        if obs.get("exit") != 0 or cfg.get("dry") or cfg.get("sub"):
            continue
        prods = {p for t in spec["tasks"] for p in t["prods"]}
        inputs = {n: v for n, v in rec["post"].items() if n not in prods}
        want = engine.scratch_contents(spec, inputs)
        skipc = engine.user_skipped_closure(spec)
        el = engine.eligible(spec, cfg)
        for t in spec["tasks"]:
            if t["id"] in skipc or t["id"] not in el:
                continue
            for p in t["prods"]:
                if rec["post"].get(p) != want.get(p):
                    out = engine.outcomes(obs).get(t["id"])
                    bad.append(("scratch", f"build reported success but product n{p} of task {t['id']} ({out}) holds {rec['post'].get(p)}; "
                                           f"a from-scratch build gives {want.get(p)} (steps {[s[:3] if s[0] != 'respec' else ['respec'] for s in hist['steps']]})", None))
    return bad


# --------------------------------------------------------------------------------------------------
# finding F11b: a dependency that disappears from a task WITHOUT a change of the module text (dependency list computed by a
# glob at import time) is not noticed: the task is SKIP_UNCHANGED and its product stays stale. Same root cause as F11 (the
# set of tracked neighbours is not recorded). Lean: C02_full_false (witness shP -> shP').  The witness is replayed on the
# real code on every run; it is reported as KNOWN-FINDING once known_findings.json lists F11b for C02 (integrator), until then
# it is recorded in the evidence only.  Any other stale product found by the campaign stays a VIOLATION.
# --------------------------------------------------------------------------------------------------
F11B_MODULE = '''from pathlib import Path
from pytask import task
HERE = Path(__file__).parent
@task(kwargs={"deps": sorted((HERE / "data").glob("*.txt"))})
def task_concat(deps, produces=HERE / "out.txt"):
    produces.write_text(",".join(p.read_text().strip() for p in deps))
'''
F11B_RUN = ("import json, sys, pytask\nfrom pathlib import Path\ns = pytask.build(paths=[Path(sys.argv[1])])\n"
            "print('@@' + json.dumps({'exit': int(s.exit_code), 'reports': [[r.task.name.split('::')[-1], r.outcome.name] for r in s.execution_reports]}))\n")


def _f11b_build(root):
    r = subprocess.run([common.PY, "-c", F11B_RUN, str(root)], capture_output=True, text=True, cwd="/", timeout=300)
    for line in r.stdout.splitlines():
        if line.startswith("@@"):
            return json.loads(line[2:])
    raise common.InfraError("F11b witness build produced no result: " + (r.stdout + r.stderr)[-300:])


def f11b_witness(ctx):
    root = common.scratch_dir("c02w")
    try:
        (root / "data").mkdir()
        (root / "data" / "a.txt").write_text("A")
        (root / "data" / "b.txt").write_text("B")
        (root / "task_x.py").write_text(F11B_MODULE)
        o1 = _f11b_build(root)
        out1 = (root / "out.txt").read_text() if (root / "out.txt").exists() else None
        (root / "data" / "b.txt").unlink()
        o2 = _f11b_build(root)
        out2 = (root / "out.txt").read_text() if (root / "out.txt").exists() else None
    finally:
        shutil.rmtree(root, ignore_errors=True)
    ctx.case(["f11b-witness"], True, {"witness": "F11b", "build1": o1, "out1": out1, "build2": o2, "out2": out2})
    ctx.dist["f11b_witness"] += 1
    if o1.get("exit") != 0 or out1 != "A,B":
        ctx.violation(f"scratch: F11b witness project: first build gives exit {o1.get('exit')} / product {out1!r}, expected 0 / 'A,B'", {"witness": "F11b", "layer": "engine-e2e"})
        return
    stale = o2.get("exit") == 0 and out2 != "A"     # from scratch: only data/a.txt is left
    if ctx.use_model:
        # the same two builds in the model: one task, dependency list [10, 11] -> [10], module content unchanged
        drv = ctx.driver()
        for ln in ["engine.reset", "engine.task id=0 src=9000 deps=10,11 prods=20 after= flags= prio=0 beh=ok", "engine.fs set=10:1,11:2,9000:7 del=",
                   "engine.cleardb"]:
            drv.ask(ln)
        a1 = drv.ask("engine.build force=0 dry=0 maxfail=inf selk=none selm=none picks=0")
        drv.ask("engine.task id=0 src=9000 deps=10 prods=20 after= flags= prio=0 beh=ok")
        drv.ask("engine.fs set= del=11")
        a2 = drv.ask("engine.build force=0 dry=0 maxfail=inf selk=none selm=none picks=0")
        m2 = "SKIP_UNCHANGED" if "reports=0:SKIP_UNCHANGED" in a2 else ("SUCCESS" if "reports=0:SUCCESS" in a2 else a2)
        i2 = o2["reports"][0][1] if o2.get("reports") else None
        ctx.traces_validated += 1
        if "reports=0:SUCCESS" not in a1 or m2 != i2:
            ctx.disagreement(f"engine model, F11b witness: second build: implementation {i2!r}, model {m2!r}", {"witness": "F11b", "impl": o2, "model": a2})
    if stale:
        what = ("scratch: dependency data/b.txt disappeared from task_concat (glob at import time, module text unchanged): build reported "
                f"{o2['reports']} with exit 0 but out.txt still holds {out2!r}; a from-scratch build gives 'A'")
        if any(e.get("id") == "F11b" and e.get("status") == "known" for e in common.load_known("C02")):
            ctx.violation(what, {"witness": "F11b", "layer": "engine-e2e"}, finding="F11b")
        else:
            ctx.extra["finding_pending_registration"] = {"id": "F11b", "what": what}
            print("FINDING (not yet in known_findings.json, see findings/F11b.json): property=C02 F11b: " + what[:200])


def histories(ctx):
    rng = ctx.rng
    hs = []
    for i in range(ctx.scale(70, 800)):
        spec = engine.gen_spec(rng, nt=(2, 7), after_p=0.2, after_needs_prods=True, user_markers=True, marks=(("skip", 0.05),),
                               link_p=0.3, dirprod_p=0.3, hashed_p=0.25, bag_p=0.3, subdir_p=0.3, pygroup_p=0.4)
        hs.append(histgen.random_history(rng, spec, rng.randint(4, 10), EDITS, CFGS, final_build={}))
    return hs


def nontrivial(h, recs):
    b = [r for r in recs if r["step"][0] == "build"]
    edits = [r for r in recs if r["step"][0] != "build"]
    return len(b) >= 2 and len(edits) >= 1 and any(x["obs"].get("exit") == 0 and engine.executed(x["obs"]) for x in b[1:])


def run(ctx):
    ctx.rule = ("histories of 4-10 steps over generated projects: builds (plain, forced, dry, max_failures=1, -k, -m) interleaved with edits (write / revert / "
                "identical rewrite / touch / delete input, bump / revert module, tamper / delete product, rewire dependency, add / remove task), final plain build; "
                "oracle = product bytes vs F evaluated from scratch along the DAG; non-trivial = ≥2 builds, ≥1 edit and a later successful build that executed something")
    f11b_witness(ctx)
    engine.run_campaign(ctx, histories(ctx), oracle, nontrivial=nontrivial, sel_eval=engine.sel_eval, rotate_seeds=True)


def replay(ctx, obj):
    if obj.get("input", {}).get("witness") == "F11b":
        f11b_witness(ctx)
        if ctx.violations:
            return False, ctx.violations[0]["what"]
        if "finding_pending_registration" in ctx.extra:
            return False, ctx.extra["finding_pending_registration"]["what"]
        return True, "the F11b witness no longer fails"
    engine.run_campaign(ctx, [obj["input"]["history"]] * 2, oracle, sel_eval=engine.sel_eval)
    if ctx.violations:
        return False, ctx.violations[0]["what"]
    if ctx.disagreements:
        return False, ctx.disagreements[0]["what"]
    return True, "products equal the from-scratch result on the stored history"
