"""C02 — an incremental build leaves what a from-scratch build would leave."""
import json
import shutil
import subprocess

import common
from impl import engine, histgen, nodekinds

ASSUMPTIONS = [
    "task bodies are deterministic functions of their declared inputs and module text and write only their declared products",
    "edits are honest: every content change comes with a new mtime (the stale-memo class F4 is exercised by the C12 check)",
    "static dependency sets: directory patterns (finding F11) are exercised by the C18 check",
    "sha256 collision freedom (contents are compared as integers in the model)",
    "persist-marked tasks are outside the claim and are not generated here",
    "Lean side (Properties/C02.lean): WF P (unique task ids, a task lists a product once, module files are not products) and BodiesTotal P "
    "(a body that returns has written all its products) are hypotheses; the project is static along a History (edits = arbitrary changes of "
    "file contents incl. module files and products, loss of the state table); add/remove/rewire-task edits are covered by the differential "
    "campaign only for the static History; Properties/C02.lean additionally proves C02_history_structural over HistoryP (add / remove / rewire-task edits) "
    "under DeclChangeTouchesSrc (a declaration change changes the module content) — true of the generated projects by construction, false for F11b",
    "generated projects also contain: input nodes that are symbolic links edited through their target (model: state = content the spelling denotes), "
    "a DirectoryNode product declared before / after the ordinary file products of some tasks (its files are implementation-only and never edited; "
    "model replay and oracle cover the ordinary products), a constant hashed PythonNode dependency; successive builds of one history run under different PYTHONHASHSEEDs",
    "generated projects also pass some dependencies inside one dict / list / tuple argument together with plain Python values (same dependency set), "
    "and place some task modules in sub-directories that carry a pyproject.toml without a pytask section",
    "generated projects also contain hashed Python values built from several input files read at import (tuple / list / positions [0][1],[1][0] of one "
    "container) with edits that exchange the files' contents (equal digit counts: the separator-less join of finding F3 is replayed as its own witness), "
    "an untracked fail-flag file that makes a body raise before writing, and a stream of projects passing a value through a hashed in-memory node",
    "some histories drive the generated project through the programmatic interface build(tasks=[all task functions]) with tasks that declare "
    "dependencies as parameter defaults, in @task(kwargs=…), or both on one function; stream nodekinds: dependencies / products declared as Path, "
    "PathNode, plain UPath and UPath('file://…') under fixed and changing PYTHONHASHSEED (oracle only; findings F61 / F62 are repaired, their witnesses are replayed from corpus/)",
]
EDITS = ["write", "write", "revert", "rewrite_same", "touch", "delete_input", "bump", "revert_module", "tamper", "delete_product",
         "rewire", "add_task", "remove_task", "flag", "flag", "swap", "swap"]
CFGS = [{}, {}, {}, {"force": True}, {"dry": True}, {"maxfail": 1}, {"k": "task_t00x"}, {"k": "task_t01x or task_t02x"}, {"m": "markone"}]


def _group_values(t, rec):
    g = t.get("pyhash_group") or {}
    if g.get("kind") not in ("tuple", "list"):
        return None
    deps = [n for n in g.get("deps", []) if n in t["deps"]]
    if len(deps) < 2:
        return None
    return tuple(rec["pre"].get(n) for n in deps)


def oracle(hist, records):
    bad = []
    seen_groups = {}     # task id -> value tuples its hashed group held at earlier builds
    for rec in records:
        if rec["step"][0] == "build":
            for t in rec["spec"]["tasks"]:
                gv = _group_values(t, rec)
                if gv is not None and None not in gv:
                    rec.setdefault("_gv", {})[t["id"]] = gv
    last_gv = {}
    for rec in records:
        if rec["step"][0] != "build":
            continue
        for tid, gv in last_gv.items():          # group values seen at the builds before this one
            seen_groups.setdefault(tid, set()).add(gv)
        last_gv = rec.get("_gv", {})
        spec, obs, cfg = rec["spec"], rec["obs"], rec["cfg"]
        if obs.get("raised"):
            bad.append(("returns", f"build raised {obs['raised']}", None))
            continue
        if obs.get("exit") != 0 or cfg.get("dry") or cfg.get("sub"):
            continue
        prods = {p for t in spec["tasks"] for p in t["prods"]}
        inputs = {n: v for n, v in rec["post"].items() if n not in prods}
        want = engine.scratch_contents(spec, inputs)
        skipc = engine.user_skipped_closure(spec)
        el = engine.eligible(spec, cfg)
        for t in spec["tasks"]:
            if t["id"] in skipc or t["id"] not in el:
                continue
            for p in t["prods"]:
                if rec["post"].get(p) != want.get(p):
                    out = engine.outcomes(obs).get(t["id"])
                    # finding F3 (C12) seen from C02: the items of a hashed tuple / list are joined without separator, so a change of
                    # numeric items that keeps the concatenated digits (4,44 -> 44,4) keeps the state: narrow class = the task is
                    # reported unchanged, owns such a group, and an earlier build saw other group values with the same digit string
                    gv = rec.get("_gv", {}).get(t["id"])
                    f3 = (out == "SKIP_UNCHANGED" and gv is not None and
                          any(o != gv and "".join(map(str, o)) == "".join(map(str, gv)) for o in seen_groups.get(t["id"], ())))
                    if f3:
                        bad.append(("scratch-F3", f"hashed {t['pyhash_group']['kind']} {gv} has the state of an earlier {sorted(seen_groups[t['id']])}: task {t['id']} "
                                                  f"reported unchanged, product n{p} holds {rec['post'].get(p)}, from scratch {want.get(p)}", "F3"))
                        continue
                    bad.append(("scratch", f"build reported success but product n{p} of task {t['id']} ({out}) holds {rec['post'].get(p)}; "
                                           f"a from-scratch build gives {want.get(p)} (steps {[s[:3] if s[0] != 'respec' else ['respec'] for s in hist['steps']]})", None))
    return bad


# --------------------------------------------------------------------------------------------------
# finding F11b: a dependency that disappears from a task WITHOUT a change of the module text (dependency list computed by a
# glob at import time) is not noticed: the task is SKIP_UNCHANGED and its product stays stale. Same root cause as F11 (the
# set of tracked neighbours is not recorded). Lean: C02_full_false (witness shP -> shP').  The witness is replayed on the
# real code on every run; it is reported as KNOWN-FINDING once known_findings.json lists F11b for C02 (integrator), until then
# it is recorded in the evidence only.  Any other stale product found by the campaign stays a VIOLATION.
# --------------------------------------------------------------------------------------------------
F11B_MODULE = '''from pathlib import Path
from pytask import task
HERE = Path(__file__).parent
@task(kwargs={"deps": sorted((HERE / "data").glob("*.txt"))})
def task_concat(deps, produces=HERE / "out.txt"):
    produces.write_text(",".join(p.read_text().strip() for p in deps))
'''
F11B_RUN = ("import json, sys, pytask\nfrom pathlib import Path\ns = pytask.build(paths=[Path(sys.argv[1])])\n"
            "print('@@' + json.dumps({'exit': int(s.exit_code), 'reports': [[r.task.name.split('::')[-1], r.outcome.name] for r in s.execution_reports]}))\n")


def _f11b_build(root):
    r = subprocess.run([common.PY, "-c", F11B_RUN, str(root)], capture_output=True, text=True, cwd="/", timeout=300)
    for line in r.stdout.splitlines():
        if line.startswith("@@"):
            return json.loads(line[2:])
    raise common.InfraError("F11b witness build produced no result: " + (r.stdout + r.stderr)[-300:])


def f11b_witness(ctx):
    root = common.scratch_dir("c02w")
    try:
        (root / "data").mkdir()
        (root / "data" / "a.txt").write_text("A")
        (root / "data" / "b.txt").write_text("B")
        (root / "task_x.py").write_text(F11B_MODULE)
        o1 = _f11b_build(root)
        out1 = (root / "out.txt").read_text() if (root / "out.txt").exists() else None
        (root / "data" / "b.txt").unlink()
        o2 = _f11b_build(root)
        out2 = (root / "out.txt").read_text() if (root / "out.txt").exists() else None
    finally:
        shutil.rmtree(root, ignore_errors=True)
    ctx.case(["f11b-witness"], True, {"witness": "F11b", "build1": o1, "out1": out1, "build2": o2, "out2": out2})
    ctx.dist["f11b_witness"] += 1
    if o1.get("exit") != 0 or out1 != "A,B":
        ctx.violation(f"scratch: F11b witness project: first build gives exit {o1.get('exit')} / product {out1!r}, expected 0 / 'A,B'", {"witness": "F11b", "layer": "engine-e2e"})
        return
    stale = o2.get("exit") == 0 and out2 != "A"     # from scratch: only data/a.txt is left
    if ctx.use_model:
        # the same two builds in the model: one task, dependency list [10, 11] -> [10], module content unchanged
        drv = ctx.driver()
        for ln in ["engine.reset", "engine.task id=0 src=9000 deps=10,11 prods=20 after= flags= prio=0 beh=ok", "engine.fs set=10:1,11:2,9000:7 del=",
                   "engine.cleardb"]:
            drv.ask(ln)
        a1 = drv.ask("engine.build force=0 dry=0 maxfail=inf selk=none selm=none picks=0")
        drv.ask("engine.task id=0 src=9000 deps=10 prods=20 after= flags= prio=0 beh=ok")
        drv.ask("engine.fs set= del=11")
        a2 = drv.ask("engine.build force=0 dry=0 maxfail=inf selk=none selm=none picks=0")
        m2 = "SKIP_UNCHANGED" if "reports=0:SKIP_UNCHANGED" in a2 else ("SUCCESS" if "reports=0:SUCCESS" in a2 else a2)
        i2 = o2["reports"][0][1] if o2.get("reports") else None
        ctx.traces_validated += 1
        if "reports=0:SUCCESS" not in a1 or m2 != i2:
            ctx.disagreement(f"engine model, F11b witness: second build: implementation {i2!r}, model {m2!r}", {"witness": "F11b", "impl": o2, "model": a2})
    if stale:
        what = ("scratch: dependency data/b.txt disappeared from task_concat (glob at import time, module text unchanged): build reported "
                f"{o2['reports']} with exit 0 but out.txt still holds {out2!r}; a from-scratch build gives 'A'")
        if any(e.get("id") == "F11b" and e.get("status") == "known" for e in common.load_known("C02")):
            ctx.violation(what, {"witness": "F11b", "layer": "engine-e2e"}, finding="F11b")
        else:
            ctx.extra["finding_pending_registration"] = {"id": "F11b", "what": what}
            print("FINDING (not yet in known_findings.json, see findings/F11b.json): property=C02 F11b: " + what[:200])


# --------------------------------------------------------------------------------------------------
# stream "memhash" (implementation-only oracle; the engine model has no in-memory nodes): a value travels from a producer task to
# consumer tasks through ONE hashed in-memory node, `PythonNode(name=..., hash=True)`, declared as product of the producer
# (saved through the node or returned) and as dependency of the consumers. Inputs of the producer are edited between builds while
# the consumers' modules stay as they are. After every build that reports success, every consumer's file must hold what a
# from-scratch build computes from the current inputs.
# --------------------------------------------------------------------------------------------------
MEMHASH_RUN = ("import json, sys\nfrom pathlib import Path\nroot = Path(sys.argv[1])\nsys.path.insert(0, str(root))\nimport pytask\n"
               "s = pytask.build(paths=[root])\n"
               "print('@@' + json.dumps({'exit': int(s.exit_code), 'reports': [[r.task.name.split('::')[-1], r.outcome.name] for r in s.execution_reports]}))\n")


def _memhash_project(rng):
    nin = rng.randint(1, 2)
    ncons = rng.randint(1, 2)
    style = rng.choice(["save", "return"])
    same_module = rng.random() < 0.4
    coef = [rng.randint(2, 9) for _ in range(nin)]
    mul = [rng.randint(2, 9) for _ in range(ncons)]
    head = "from pathlib import Path\nfrom typing import Annotated\nfrom pytask import Product\nfrom _shared import NODE\nHERE = Path(__file__).parent\n"
    ins = ", ".join(f"i{k}: Path = HERE / 'in{k}.txt'" for k in range(nin))
    expr = " + ".join(f"{coef[k]} * int(i{k}.read_text())" for k in range(nin))
    if style == "save":
        prod = f"def task_make(*, {ins}, node: Annotated[object, NODE, Product]):\n    node.save({expr})\n"
    else:
        prod = f"def task_make(*, {ins}) -> Annotated[int, NODE]:\n    return {expr}\n"
    cons = [f"def task_use{j}(*, val: Annotated[int, NODE], out: Annotated[Path, Product] = HERE / 'out{j}.txt'):\n    out.write_text(str(val * {mul[j]} + {j}))\n"
            for j in range(ncons)]
    files = {"_shared.py": "from pytask import PythonNode\nNODE = PythonNode(name='shared-value', hash=True)\n"}
    if same_module:
        files["task_all.py"] = head + "\n\n" + prod + "\n\n" + "\n\n".join(cons)
    else:
        files["task_make.py"] = head + "\n\n" + prod
        for j, c in enumerate(cons):
            files[f"task_use{j}.py"] = head + "\n\n" + c
    inputs = [rng.randint(1, 50) for _ in range(nin)]
    steps = ["build"]
    for _ in range(rng.randint(2, 4)):
        r = rng.random()
        steps.append(["edit", rng.randrange(nin), rng.randint(51, 999)] if r < 0.55 else (["touch", rng.randrange(nin)] if r < 0.7 else "build"))
    steps.append("build")
    steps = [x for i, x in enumerate(steps) if not (x == "build" and i and steps[i - 1] == "build" and rng.random() < 0.5)]
    return {"files": files, "inputs": inputs, "coef": coef, "mul": mul, "steps": steps, "style": style}


def _memhash_run(proj):
    root = common.scratch_dir("c02m")
    obs = []
    try:
        for name, text in proj["files"].items():
            (root / name).write_text(text)
        cur = list(proj["inputs"])
        t = 1_600_000_000
        for k, v in enumerate(cur):
            (root / f"in{k}.txt").write_text(str(v))
        for st in proj["steps"]:
            if st == "build":
                r = subprocess.run([common.PY, "-c", MEMHASH_RUN, str(root)], capture_output=True, text=True, cwd="/", timeout=300)
                res = next((json.loads(l[2:]) for l in r.stdout.splitlines() if l.startswith("@@")), None)
                if res is None:
                    raise common.InfraError("memhash build produced no result: " + (r.stdout + r.stderr)[-300:])
                outs = [((root / f"out{j}.txt").read_text() if (root / f"out{j}.txt").exists() else None) for j in range(len(proj["mul"]))]
                obs.append({"inputs": list(cur), "res": res, "outs": outs})
            else:
                k = st[1]
                if st[0] == "edit":
                    cur[k] = st[2]
                t += 7
                import os
                (root / f"in{k}.txt").write_text(str(cur[k]))
                os.utime(root / f"in{k}.txt", (t, t))
    finally:
        shutil.rmtree(root, ignore_errors=True)
    return obs


def memhash_prepare(ctx):
    return [_memhash_project(ctx.rng) for _ in range(ctx.scale(6, 60))]


def memhash_execute(projs):
    from concurrent.futures import ThreadPoolExecutor
    with ThreadPoolExecutor(max_workers=6) as ex:
        return list(ex.map(_memhash_run, projs))


def memhash_stream(ctx, projs=None, allobs=None):
    if projs is None:
        projs = memhash_prepare(ctx)
    if allobs is None:
        allobs = memhash_execute(projs)
    for proj, obs in zip(projs, allobs):
        edited = any(isinstance(s, list) and s[0] == "edit" for s in proj["steps"])
        ctx.case(["memhash", proj["files"], proj["inputs"], proj["steps"]], edited and len(obs) >= 2,
                 {"stream": "memhash", "style": proj["style"], "steps": proj["steps"], "builds": [[o["res"]["exit"], o["res"]["reports"]] for o in obs]})
        ctx.dist["memhash"] += 1
        for o in obs:
            if o["res"].get("exit") != 0:
                ctx.violation(f"returns: memhash project: build exits with {o['res'].get('exit')} {o['res'].get('reports')}", {"memhash": proj, "layer": "engine-e2e"})
                break
            val = sum(c * v for c, v in zip(proj["coef"], o["inputs"]))
            want = [str(val * m + j) for j, m in enumerate(proj["mul"])]
            if o["outs"] != want:
                ctx.violation(f"scratch: value passed through a hashed in-memory node: build reported {o['res']['reports']} with exit 0 but the consumers' files hold "
                              f"{o['outs']}; a from-scratch build of inputs {o['inputs']} gives {want} (steps {proj['steps']})", {"memhash": proj, "layer": "engine-e2e"})
                break


# --------------------------------------------------------------------------------------------------
# finding F3 (C12) seen from C02: hash_value joins the items of a tuple / list without separator, so the hashed tuple (4, 44) read
# from two input files keeps its state when the files exchange their contents (44, 4): the consumer is SKIP_UNCHANGED and its
# product stale. The witness is replayed on the real code on every run (oracle only: the model's state is the content).
# --------------------------------------------------------------------------------------------------
F3_HISTORY = {"tag": "F3-witness", "spec": {"tasks": [{"id": 0, "module": 0, "deps": [100, 101], "prods": [110], "after": [], "marks": [], "beh": "ok",
                                                       "style": "default", "pyhash_group": {"kind": "tuple", "deps": [100, 101]}}],
                                            "versions": {"0": 0}, "inputs": {"100": 4, "101": 44}, "nodelete": [100, 101]},
              "steps": [["build", {}], ["write", 100, 44], ["write", 101, 4], ["build", {}]]}


def f3_witness(ctx):
    from impl import builder
    pool = builder.Pool([ctx.rng.randrange(1, 4_000_000_000)])
    try:
        recs = engine.run_history(pool.pick(0), F3_HISTORY)
    finally:
        pool.close()
    ctx.case(["F3-witness"], True, {"witness": "F3", "builds": [[r["obs"].get("exit"), r["obs"].get("reports")] for r in recs if r["step"][0] == "build"]})
    ctx.dist["f3_witness"] += 1
    for kind, msg, finding in oracle(F3_HISTORY, recs):
        ctx.violation(f"{kind}: {msg}", {"history": F3_HISTORY, "layer": "engine-e2e"}, finding=finding)


def histories(ctx):
    rng = ctx.rng
    hs = []
    for i in range(ctx.scale(58, 680)):
        spec = engine.gen_spec(rng, nt=(2, 7), after_p=0.2, after_needs_prods=True, user_markers=True, marks=(("skip", 0.05),),
                               link_p=0.3, dirprod_p=0.3, hashed_p=0.25, bag_p=0.3, subdir_p=0.3, pygroup_p=0.25, kwsplit_p=0.4)
        hs.append(histgen.random_history(rng, spec, rng.randint(4, 10), EDITS, CFGS, final_build={}))
    # the same kind of project driven through the PROGRAMMATIC interface: every build of the history is
    # pytask.build(tasks=[all task functions of the imported task modules]); declaration styles per task: parameter defaults only,
    # @task(kwargs=…) only, or both on one function (kw_split)
    for i in range(ctx.scale(14, 140)):
        spec = engine.gen_spec(rng, nt=(2, 6), after_p=0.15, after_needs_prods=True, user_markers=True, dens=0.9,
                               styles=("default", "kwargs", "kwargs", "annotated", "return"),
                               link_p=0.2, hashed_p=0.2, bag_p=0.2, pygroup_p=0.15, kwsplit_p=0.8)
        h = histgen.random_history(rng, spec, rng.randint(4, 9), EDITS, CFGS, final_build={})
        h["as_tasks"] = True
        h["tag"] = "prog"
        hs.append(h)
    return hs


def nontrivial(h, recs):
    b = [r for r in recs if r["step"][0] == "build"]
    edits = [r for r in recs if r["step"][0] != "build"]
    return len(b) >= 2 and len(edits) >= 1 and any(x["obs"].get("exit") == 0 and engine.executed(x["obs"]) for x in b[1:])


def run(ctx):
    ctx.rule = ("histories of 4-10 steps over generated projects: builds (plain, forced, dry, max_failures=1, -k, -m) interleaved with edits (write / revert / "
                "identical rewrite / touch / delete input, bump / revert module, tamper / delete product, rewire dependency, add / remove task), final plain build; "
                "oracle = product bytes vs F evaluated from scratch along the DAG; non-trivial = ≥2 builds, ≥1 edit and a later successful build that executed something")
    f11b_witness(ctx)
    from concurrent.futures import ThreadPoolExecutor
    mh, nk = memhash_prepare(ctx), nodekinds.prepare(ctx)
    with ThreadPoolExecutor(max_workers=2) as ex:          # the two oracle-only streams build their projects side by side
        f_mh, f_nk = ex.submit(memhash_execute, mh), ex.submit(nodekinds.execute, nk)
        f3_witness(ctx)
        mh_obs, nk_obs = f_mh.result(), f_nk.result()
    memhash_stream(ctx, mh, mh_obs)
    nodekinds.stream(ctx, "C02", nk, nk_obs)
    engine.run_campaign(ctx, histories(ctx), oracle, nontrivial=nontrivial, sel_eval=engine.sel_eval, rotate_seeds=True)


def replay(ctx, obj):
    if obj.get("input", {}).get("nodekinds"):
        return nodekinds.replay("C02", obj["input"]["nodekinds"])
    if obj.get("input", {}).get("memhash"):
        proj = obj["input"]["memhash"]
        obs = _memhash_run(proj)
        for o in obs:
            val = sum(c * v for c, v in zip(proj["coef"], o["inputs"]))
            want = [str(val * m + j) for j, m in enumerate(proj["mul"])]
            if o["res"].get("exit") != 0 or o["outs"] != want:
                return False, f"memhash project: build {o['res']} leaves {o['outs']}, from scratch {want}"
        return True, "consumers of the hashed in-memory value hold the from-scratch contents after every build"
    if obj.get("input", {}).get("witness") == "F11b":
        f11b_witness(ctx)
        if ctx.violations:
            return False, ctx.violations[0]["what"]
        if "finding_pending_registration" in ctx.extra:
            return False, ctx.extra["finding_pending_registration"]["what"]
        return True, "the F11b witness no longer fails"
    engine.run_campaign(ctx, [obj["input"]["history"]] * 2, oracle, sel_eval=engine.sel_eval)
    if ctx.violations:
        return False, ctx.violations[0]["what"]
    if ctx.disagreements:
        return False, ctx.disagreements[0]["what"]
    return True, "products equal the from-scratch result on the stored history"
