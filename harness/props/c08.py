"""C08 — reported outcomes and exit codes are truthful; build() always returns.

Fault-injection campaign through the programmatic entry point `pytask.build`: user-code faults in every phase
(configuration, collection, graph, execution), singly and in pairs, × {force, dry-run, -k selection, max_failures}.
Every real build runs in a fresh forked child of a build server; the harness records whether `build` raised, the
exit code, the reports, the log written by the generated bodies / fault nodes, and the product files.

Oracle (implementation observations only): build returned; exit code per phase table; at most one report per task and
exactly one unless stopped early; SUCCESS ⇔ logged exactly once, ran to completion, products exist; non-run outcomes ⇔ not
logged; FAIL ⇔ an injected fault fired for that task, or a dependency / product is missing.
Model: the same case is replayed through `engine.top` (BuildTop.buildTop over the engine M6).
"""
from __future__ import annotations

import copy
import shutil
from concurrent.futures import ThreadPoolExecutor

import common
from impl import builder, engine, project

ASSUMPTIONS = [
    "user-code faults are ordinary exceptions (Exception subclasses) or SystemExit raised in a task body; KeyboardInterrupt, "
    "GeneratorExit and bare BaseException are not user-code errors and are not injected; interpreter-level failures (MemoryError, "
    "recursion limit, signals) are not injected",
    "a node whose state()/hash callable raises and a marker whose evaluation raises (skipif() without condition) are replayed in "
    "the model as a private dependency that can never be found: all three raise inside pytask_execute_task_setup before the body; "
    "bad markers are only placed on tasks without task-ancestors (the marker is evaluated before skip_ancestor_failed is looked at)",
    "exception classes raised by the configuration phase are not observable from outside (only exit code 2); the model is fed the "
    "catch-all class",
    "observed schedule replayed in the Lean model; theorems hold for every legal schedule",
    "stream 'provisional' (directory-pattern products / dependencies and task generators from the C18 project generator, producers that "
    "write 0 … n files, counts edited between builds): checked by the implementation-only report / exit-code clauses; the M7 replay of "
    "such projects is C18's",
]

CONFIG_FAULTS = {
    "bad_capture": {"capture": "bogus"},
    "task_files_not_list": {"task_files": 5},
    "bad_database_url": {"database_url": "not a url ::"},
}
COLLECT_FAULTS = {
    "syntax_error": ("task_zsyn.py", "def task_broken(:\n    pass\n"),
    "import_error": ("task_zimp.py", "import nonexistent_module_xyz_verif\n\ndef task_broken():\n    pass\n"),
    # F28 (fixed in 5ec9965): sys.exit() while a task module is imported is a collection failure like any other
    "sysexit_import": ("task_zexit.py", "import sys\nsys.exit(3)\n\ndef task_never():\n    pass\n"),
}
IMPORT_EXC = {"syntax_error": "SyntaxError", "import_error": "ModuleNotFoundError", "sysexit_import": "BASE!SystemExit"}
SYSEXIT_IMPORT = COLLECT_FAULTS["sysexit_import"]
DAG_FAULTS = ("bad_k", "bad_m", "bad_after", "cycle", "self_cycle", "duplicate_product")
TASK_FAULTS = ("early", "late", "omit", "sysexit", "loadfail", "savefail", "state", "hash", "marker", "missing_input", "deldep")
FINDING_DELDEP = None    # F29 fixed in ed849b4: the pattern below is an ordinary violation again


# ------------------------------------------------------------------------------------------------
# case generation
# ------------------------------------------------------------------------------------------------

def apply_task_fault(rng, spec, kind, steps):
    """mutates spec / steps; returns a description or None if not applicable"""
    tasks = spec["tasks"]
    produced = {p for t in tasks for p in t["prods"]}
    cands = [t for t in tasks if t["beh"] == "ok" and not t.get("setup_fault")]
    rng.shuffle(cands)
    for t in cands:
        if kind in ("early", "late", "sysexit"):
            t["beh"] = kind
        elif kind == "omit":
            if not t["prods"]:
                continue
            t["beh"] = f"omit:{rng.randrange(len(t['prods']))}"
        elif kind == "loadfail":
            if not t["deps"]:
                continue
            t["beh"] = "loadfail"
        elif kind == "savefail":
            if not t["prods"]:
                continue
            t["beh"] = "savefail"
        elif kind == "state":
            # the DAG keeps ONE node object per path: the failing node must be an input no other task declares
            n = max([int(k) for k in spec["inputs"]] + list(produced) + [d for u in tasks for d in u["deps"]] + [100]) + 1
            spec["inputs"][str(n)] = rng.randint(1, 50)
            t["deps"] = sorted(t["deps"] + [n])
            t["faulty_dep"] = n
            t["setup_fault"] = "state"
        elif kind == "deldep":
            # the body deletes a dependency file of its own (an input no other task declares) after writing its products
            n = max([int(k) for k in spec["inputs"]] + list(produced) + [d for u in tasks for d in u["deps"]] + [100]) + 1
            spec["inputs"][str(n)] = rng.randint(1, 50)
            t["deps"] = sorted(t["deps"] + [n])
            t["faulty_dep"] = n
            t["beh"] = "deldep"
        elif kind == "hash":
            t["setup_fault"] = "hash"
        elif kind == "marker":
            if any(d in produced for d in t["deps"]) or t.get("after"):
                continue
            t["setup_fault"] = "marker"
        elif kind == "missing_input":
            ins = [d for d in t["deps"] if d not in produced]
            if not ins:
                continue
            steps.insert(0, ["delete", rng.choice(ins)])
            return {"kind": kind, "task": t["id"]}
        if t["beh"] != "ok" or t.get("setup_fault"):
            if t.get("style") == "return" and t["beh"] not in ("ok", "early", "savefail", "sysexit"):
                t["style"] = "default"
            return {"kind": kind, "task": t["id"]}
    return None


def apply_dag_fault(rng, spec, kind, cfg):
    tasks = spec["tasks"]
    if kind == "bad_k":
        cfg["k"] = project.tname(0) + " and ("
    elif kind == "bad_m":
        cfg["m"] = "markone or or"
    elif kind == "bad_after":
        t = rng.choice(tasks)
        t["bad_after"] = project.tname(0) + " and ("
    elif kind == "self_cycle":
        ts = [t for t in tasks if t["prods"]]
        if not ts:
            return None
        t = rng.choice(ts)
        t["deps"] = sorted(set(t["deps"]) | {t["prods"][0]})
        if t.get("style") == "return":
            t["style"] = "default"
    elif kind == "cycle":
        edges = [(u, t) for t in tasks for u in tasks if u["id"] != t["id"] and set(u["prods"]) & set(t["deps"]) and t["prods"]]
        if not edges:
            return None
        u, t = rng.choice(edges)
        u["deps"] = sorted(set(u["deps"]) | {t["prods"][0]})
    elif kind == "duplicate_product":
        ts = [t for t in tasks if t["prods"]]
        if len(tasks) < 2 or not ts:
            return None
        a = rng.choice(ts)
        b = rng.choice([t for t in tasks if t["id"] != a["id"]])
        if a["prods"][0] in b["prods"] or a["prods"][0] in b["deps"]:
            return None
        b["prods"] = b["prods"] + [a["prods"][0]]
        if b.get("style") == "return":
            b["style"] = "default"
        if b["beh"].startswith("omit"):
            b["beh"] = "ok"
    return {"kind": kind}


def irrelevant_options(rng):
    """build options that must not influence outcomes, reports or the exit code"""
    kw = {}
    if rng.random() < 0.6:
        for k, vals in (("show_traceback", [True, False]), ("show_locals", [True, False]), ("verbose", [0, 1, 2]),
                        ("capture", ["fd", "sys", "no", "tee-sys"]), ("show_errors_immediately", [True, False]),
                        ("editor_url_scheme", ["file", "no_link", "vscode", "pycharm"]), ("n_entries_in_table", [1, 15, 1000]),
                        ("sort_table", [True, False]), ("show_capture", ["no", "stdout", "stderr", "all"])):
            if rng.random() < 0.35:
                kw[k] = rng.choice(vals)
    return kw


# damage to pytask's own state files between builds. What the unchanged code does (probed, accepted exactly):
#   .pytask/file_hashes.json truncated / empty / not UTF-8 / JSON of another shape: tolerated, the build is as without the damage;
#   .pytask removed, or an EMPTY pytask.sqlite3: nothing is recorded any more, every task is due again;
#   a TRUNCATED (corrupt) pytask.sqlite3: the database cannot be opened — configuration phase fails, exit code 2, no reports, for
#   every build until the file is repaired.
STATE_FAULTS = ("cache_trunc", "cache_empty", "cache_garbage", "cache_list", "cache_dict", "cache_scalar", "rm_state_dir", "db_empty", "db_trunc")


def apply_state_fault(root, kind):
    """returns True if something was damaged (False: the file did not exist yet)"""
    d = root / ".pytask"
    if kind == "rm_state_dir":
        if not d.exists():
            return False
        shutil.rmtree(d)
        return True
    if kind.startswith("cache_"):
        f = d / "file_hashes.json"
        if not f.exists():
            return False
        data = f.read_bytes()
        f.write_bytes({"cache_trunc": data[:max(1, len(data) // 2)], "cache_empty": b"", "cache_garbage": b"\x00\xff\xfenot json",
                       "cache_list": b"[1, 2]", "cache_dict": b'{"a": {"b": 1}}', "cache_scalar": b'{"a": 5}'}[kind])
        return True
    f = d / "pytask.sqlite3"
    if not f.exists():
        return False
    data = f.read_bytes()
    f.write_bytes(b"" if kind == "db_empty" else data[:max(100, len(data) // 4)])
    return True


def limit_source(rng, cfg):
    """where the failure limit comes from: kwarg max_failures / kwarg stop_after_first_failure / config file / both (same value)"""
    n = cfg.get("maxfail")
    if n is not None:
        cfg["maxfail_src"] = rng.choice(["kwarg", "kwarg", "config", "both"] + (["kwarg_stop", "config_stop"] if n == 1 else []))
    return cfg


def gen_prog_case(rng):
    """programmatic-tasks stream: the task functions of a one-module project are handed to build(tasks=[…]) as objects — once each,
    with one of them twice, or next to `paths` that collect the same functions again"""
    spec = engine.gen_spec(rng, nt=(2, 5), after_p=0.0, nomods=(1, 1), behs=("ok", "ok", "ok", "late", "early"), prodless_p=0.1,
                           styles=("default", "annotated"))
    names = [project.tname(t["id"]) for t in spec["tasks"]]
    mode = rng.choice(["once", "once", "twice", "paths_and_tasks", "paths_other"])
    faults = [{"kind": t["beh"], "task": t["id"], "phase": "execute"} for t in spec["tasks"] if t["beh"] != "ok"]
    prog = {"names": list(names), "with_paths": False, "module": "prog_m0"}
    if mode == "twice":
        prog["names"].insert(rng.randrange(len(names) + 1), rng.choice(names))
        faults.append({"kind": "duplicate_task", "phase": "collect"})
    elif mode == "paths_and_tasks":
        # the module is also collected through `paths`: every function passed programmatically is collected a second time
        prog = {"names": rng.sample(names, rng.randint(1, len(names))), "with_paths": True, "module": "task_m0"}
        faults.append({"kind": "duplicate_task", "phase": "collect"})
    elif mode == "paths_other":
        prog["with_paths"] = True              # `paths` given, but the module is not a task module: nothing is collected twice
    rng.shuffle(prog["names"]) if mode == "once" else None
    cfg = {}
    if rng.random() < 0.2:
        cfg["force"] = True
    if rng.random() < 0.25:
        cfg["maxfail"] = rng.choice([1, 2])
        limit_source(rng, cfg)
    steps = [["build", cfg, {}, irrelevant_options(rng)]]
    if rng.random() < 0.5:
        steps.append(["build", dict(cfg), {}, irrelevant_options(rng)])
    return {"tag": "prog", "spec": spec, "steps": steps, "faults": faults, "prog": prog}


def gen_case(rng, shape=None):
    spec = engine.gen_spec(rng, nt=(2, 6), after_p=0.2, after_needs_prods=True, behs=("ok",), prodless_p=0.1)
    cfg = {}
    steps = []
    faults = []
    shape = shape or rng.choice(["task", "task", "task", "phase", "phase", "pair", "pair", "clean"])
    r = rng.random()
    if r < 0.2:
        cfg["force"] = True
    if rng.random() < 0.15:
        cfg["dry"] = True
    if rng.random() < 0.25:
        cfg["maxfail"] = rng.choice([1, 2])
        limit_source(rng, cfg)
    if rng.random() < 0.2:
        cfg["k"] = " or ".join(project.tname(t["id"]) for t in rng.sample(spec["tasks"], rng.randint(1, 2)))
    kw_extra = {}
    # legal but unusual declarations (no fault): an `after` expression that also matches the declaring task's own name (a task
    # is never scheduled after itself), and products that are not path-like nodes
    names = [project.tname(t["id"]) for t in spec["tasks"]]
    for t in spec["tasks"]:
        if t.get("after") and rng.random() < 0.6:
            parts = [project.tname(a) for a in t["after"]] + [project.tname(t["id"])]
            rng.shuffle(parts)
            t["after_expr"] = " or ".join(parts)
    last = spec["tasks"][-1]
    if not last.get("after") and len(spec["tasks"]) <= 9 and rng.random() < 0.25:
        # a substring of every task name: matches all tasks, the declaring one included
        last["after"] = sorted(u["id"] for u in spec["tasks"][:-1])
        last["after_expr"] = rng.choice(["task_t0", "TASK_T", "t0"])
    consumed = {d for t in spec["tasks"] for d in t["deps"]}
    for t in spec["tasks"]:
        if t["prods"] and not (set(t["prods"]) & consumed) and rng.random() < 0.3:
            t["blob_prods"] = True

    def add_phase_fault():
        ph = rng.choice(["config", "collect", "dag", "dag"])
        if ph == "config":
            k = rng.choice(sorted(CONFIG_FAULTS))
            kw_extra.update(CONFIG_FAULTS[k])
            faults.append({"kind": k, "phase": "config"})
        elif ph == "collect":
            k = rng.choice(sorted(COLLECT_FAULTS))
            name, text = COLLECT_FAULTS[k]
            spec.setdefault("extra_modules", {})[name] = text
            faults.append({"kind": k, "phase": "collect"})
        else:
            k = rng.choice(DAG_FAULTS)
            d = apply_dag_fault(rng, spec, k, cfg)
            if d:
                d["phase"] = "dag"
                faults.append(d)

    def add_task_fault():
        k = rng.choice(TASK_FAULTS)
        d = apply_task_fault(rng, spec, k, steps)
        if d:
            d["phase"] = "execute"
            faults.append(d)

    if shape == "task":
        for _ in range(rng.randint(1, 3)):
            add_task_fault()
    elif shape == "phase":
        add_phase_fault()
        if rng.random() < 0.5:
            add_task_fault()
    elif shape == "pair":
        add_phase_fault()
        add_phase_fault()
    # persist marks (legal, no fault by themselves), combined below with missing / changed / tampered neighbours
    persist = []
    if rng.random() < 0.35:
        cands = [t for t in spec["tasks"] if t["prods"] and not t.get("gen")]
        for t in rng.sample(cands, min(len(cands), rng.randint(1, 2))):
            t["marks"] = sorted(set(t.get("marks", [])) | {"persist"})
            persist.append(t)
    steps.append(["build", cfg, kw_extra, irrelevant_options(rng)])
    if persist and rng.random() < 0.8:
        produced = {p for t in spec["tasks"] for p in t["prods"]}
        for t in persist:
            ins = [d for d in t["deps"] if d not in produced]
            k = rng.random()
            if k < 0.45 and ins:
                steps.append(["delete", rng.choice(ins)])                      # a dependency of the persist task goes missing
            elif k < 0.65 and ins:
                steps.append(["write", rng.choice(ins), rng.randint(100, 999)])  # a dependency changes: PERSISTENCE
            elif k < 0.85:
                steps.append(["write", rng.choice(t["prods"]), rng.randint(1000, 9999)])   # a product was edited by hand: PERSISTENCE
            else:
                steps.append(["delete", rng.choice(t["prods"])])               # a product is gone: the task runs again
        steps.append(["build", dict(cfg), kw_extra, irrelevant_options(rng)])
    if rng.random() < 0.5:
        steps.append(["build", dict(cfg), kw_extra, irrelevant_options(rng)])
    if rng.random() < 0.3:
        # pytask's OWN state damaged between two builds of the project (an interrupted write, a cleaned checkout, …)
        steps.append(["state", rng.choice(STATE_FAULTS)])
        steps.append(["build", dict(cfg), kw_extra, irrelevant_options(rng)])
        if rng.random() < 0.4:
            steps.append(["build", dict(cfg), kw_extra, irrelevant_options(rng)])
    return {"tag": shape, "spec": spec, "steps": steps, "faults": faults}


def corpus():
    """fixed witnesses, run before anything random"""
    def t(i, deps, prods, **kw):
        return dict({"id": i, "module": 0, "deps": deps, "prods": prods, "after": [], "marks": [], "beh": "ok", "style": "default"}, **kw)
    out = []
    base = {"tasks": [t(0, [100], [101]), t(1, [101], [102]), t(2, [100], [103])], "versions": {"0": 0}, "inputs": {"100": 5}}
    # F15 (fixed): SystemExit in a body
    s = copy.deepcopy(base); s["tasks"][0]["beh"] = "sysexit"
    out.append({"tag": "corpus-F15", "spec": s, "steps": [["build", {}, {}]], "faults": [{"kind": "sysexit", "task": 0, "phase": "execute"}]})
    # F14 (fixed): force + missing dependency
    s = copy.deepcopy(base)
    out.append({"tag": "corpus-F14", "spec": s, "steps": [["delete", 100], ["build", {"force": True}, {}]],
                "faults": [{"kind": "missing_input", "task": 0, "phase": "execute"}]})
    # F28 (fixed): SystemExit while importing a task module must give a session with exit code 3
    s = copy.deepcopy(base); s["extra_modules"] = {SYSEXIT_IMPORT[0]: SYSEXIT_IMPORT[1]}
    out.append({"tag": "corpus-sysexit-import", "spec": s, "steps": [["build", {}, {}]],
                "faults": [{"kind": "sysexit_import", "phase": "collect"}]})
    # F29 (fixed): the body deletes its own (private) dependency after writing its product: FAIL, dependant skipped, sibling runs
    s = copy.deepcopy(base); s["inputs"]["104"] = 9
    s["tasks"][0].update({"deps": [100, 104], "faulty_dep": 104, "beh": "deldep"})
    out.append({"tag": "corpus-F29", "spec": s, "steps": [["build", {}, {}], ["build", {}, {}]],
                "faults": [{"kind": "deldep", "task": 0, "phase": "execute"}]})
    # one of each phase
    for k in sorted(CONFIG_FAULTS):
        out.append({"tag": "corpus-" + k, "spec": copy.deepcopy(base), "steps": [["build", {}, dict(CONFIG_FAULTS[k])]],
                    "faults": [{"kind": k, "phase": "config"}]})
    for k in sorted(COLLECT_FAULTS):
        s = copy.deepcopy(base); s["extra_modules"] = {COLLECT_FAULTS[k][0]: COLLECT_FAULTS[k][1]}
        out.append({"tag": "corpus-" + k, "spec": s, "steps": [["build", {}, {}]], "faults": [{"kind": k, "phase": "collect"}]})
    return out


# ------------------------------------------------------------------------------------------------
# running a case on the real code
# ------------------------------------------------------------------------------------------------

def run_case(server, case):
    root = common.scratch_dir("c08")
    clock = project.Clock()
    spec = copy.deepcopy(case["spec"])
    recs = []
    try:
        project.materialise(root, spec, clock)
        prog = case.get("prog")
        if prog and prog["module"].startswith("prog_"):
            for p in root.glob("task_m*.py"):
                p.rename(root / p.name.replace("task_", "prog_", 1))     # not a task module: only build(tasks=…) sees the functions
        for step in case["steps"]:
            if step[0] == "delete":
                project.node_path(root, step[1]).unlink(missing_ok=True)
                recs.append({"step": step})
                continue
            if step[0] == "write":
                project.write_file(project.node_path(root, step[1]), str(step[2]), clock)
                recs.append({"step": step})
                continue
            if step[0] == "state":
                recs.append({"step": step, "applied": apply_state_fault(root, step[1])})
                continue
            cfg, kw_extra = step[1], step[2]
            project.clear_log(root)
            project.write_config_file(root, cfg)
            pre = project.snapshot_nodes(root, spec)
            kw = builder.cfg_to_kw(cfg)
            kw.update(step[3] if len(step) > 3 else {})      # options that must be irrelevant
            kw.update(kw_extra)
            opts = {"tasks_from": prog} if prog else {}
            obs = server.build(root, kw, **opts)
            obs["log"] = project.read_log(root)
            post = project.snapshot_nodes(root, spec)
            recs.append({"step": step, "cfg": cfg, "obs": obs, "pre": pre, "post": post, "hashseed": server.hashseed})
        return recs
    finally:
        shutil.rmtree(root, ignore_errors=True)


# ------------------------------------------------------------------------------------------------
# oracle
# ------------------------------------------------------------------------------------------------

def expected_phase(case):
    phases = {f["phase"] for f in case["faults"]}
    for ph in ("config", "collect", "dag"):
        if ph in phases:
            return ph
    return "execute"


def oracle(case, recs):
    bad = []
    spec = case["spec"]
    byid = {t["id"]: t for t in spec["tasks"]}
    deldep_tasks = {t["id"] for t in spec["tasks"] if t.get("beh") == "deldep"}
    phase0 = expected_phase(case)
    db_broken = False
    for rec in recs:
        if rec["step"][0] == "state" and rec["step"][1] == "db_trunc" and rec.get("applied"):
            db_broken = True
        if rec["step"][0] == "state" and rec["step"][1] in ("rm_state_dir", "db_empty") and rec.get("applied"):
            db_broken = False
        if rec["step"][0] != "build":
            continue
        phase = "config" if db_broken else phase0
        obs, cfg, pre, post = rec["obs"], rec["cfg"], rec["pre"], rec["post"]
        # (1) build() returned
        if obs.get("died") or obs.get("raised"):
            bad.append(("returns", f"pytask.build raised {obs.get('raised')} (died={obs.get('died')}) instead of returning a session; faults {case['faults']}", None))
            continue
        reports = obs["reports"]
        order = [engine.name_to_id(r[0]) for r in reports]
        out = {engine.name_to_id(r[0]): r[1] for r in reports}
        log = obs["log"]
        starts = [int(e[1]) for e in log if e[0] == "S"]
        ends = [int(e[1]) for e in log if e[0] == "E"]
        raised_in_body = [int(e[1]) for e in log if e[0] == "X"]
        node_faults = {}          # task id -> kinds fired (L load, V save, T state, H hash)
        for e in log:
            if e[0] in ("L", "V", "T", "H"):
                node_faults.setdefault(int(e[1].split(":")[0]), set()).add(e[0])
        failed = [t for t in order if out[t] == "FAIL"]
        deleted = [int(e[1]) for e in log if e[0] == "D"]
        # F29 (fixed in ed849b4; kept as a recogniser for the replay): a task whose body deleted its own dependency ran to completion and then has NO report
        # (update_states_in_database raised IntegrityError inside process_report), the loop was aborted right there (every
        # other task either has a report or never started) and the exit code is 1
        f29 = [t for t in deleted if t in deldep_tasks and t in ends and t not in out]
        f29_hit = (len(f29) == 1 and obs["exit"] == 1 and starts and starts[-1] == f29[0]
                   and all(t in out for t in starts if t != f29[0]))
        rec["f29"] = bool(f29_hit)
        f29_tag = FINDING_DELDEP if f29_hit else None
        # (2) exit code per phase
        want = {"config": 2, "collect": 3, "dag": 4}.get(phase)
        if want is None:
            want = 1 if failed else 0
        if obs["exit"] != want:
            bad.append(("exit", f"exit code {obs['exit']}, expected {want} (first failing phase: {phase}; failed tasks {failed}; faults {case['faults']})",
                        f29_tag if (phase == "execute" and not failed) else None))
        if phase != "execute":
            if reports or log:
                bad.append(("exit", f"a {phase} fault was injected but tasks were processed: reports {reports}, log {log}", None))
            continue
        # (3) one report per task
        if len(order) != len(set(order)) or any(t is None for t in order):
            bad.append(("one_report", f"a task has more than one report: {order}", None))
        mf = cfg.get("maxfail")
        stopped = mf is not None and len(failed) >= mf
        collected = [engine.name_to_id(n) for n in (obs.get("collected") or [])]
        if not stopped and sorted(collected) != sorted(order):
            bad.append(("one_report", f"collected tasks {sorted(collected)} but reports for {sorted(order)}: a collected task without report "
                                      f"(or a report without task)", None))
        if not stopped and set(order) != set(byid):
            bad.append(("one_report", f"not stopped early, but reports {sorted(order)} != collected tasks {sorted(byid)}; log {log}", f29_tag))
        if stopped and failed and order and order[-1] != failed[int(mf) - 1]:
            bad.append(("one_report", f"tasks were processed after failure #{mf}: {order}", None))
        # (4)-(6) truthfulness per task
        for t, o in out.items():
            spec_t = byid.get(t)
            if spec_t is None:
                bad.append(("one_report", f"report for an unknown task {t}", None))
                continue
            ns, ne = starts.count(t), ends.count(t)
            prods_exist = all(post.get(p) is not None for p in spec_t["prods"])
            if o == "SUCCESS":
                if not (ns == 1 and ne == 1 and t not in raised_in_body and t not in node_faults and prods_exist):
                    bad.append(("success", f"task {t} reported SUCCESS but starts={ns} completions={ne} raised={t in raised_in_body} "
                                           f"node faults={node_faults.get(t)} products exist={prods_exist}", None))
            elif o in engine.OUTCOMES_NOT_RUN:
                if ns or ne or t in raised_in_body or ("L" in node_faults.get(t, ())) or ("V" in node_faults.get(t, ())):
                    bad.append(("not_run", f"task {t} reported {o} but its function (or a load/save for it) ran: log {log}", None))
            elif o == "FAIL":
                # files are never deleted during a build: a dependency missing at setup is still missing afterwards
                missing_dep = any(post.get(d) is None for d in spec_t["deps"])
                missing_prod = ns == 1 and not prods_exist
                justified = (t in raised_in_body or t in node_faults or spec_t.get("setup_fault") == "marker" or missing_dep or missing_prod)
                if not justified:
                    bad.append(("fail_iff", f"task {t} reported FAIL but no injected fault fired for it, no dependency was missing before the build "
                                            f"and its products {'exist' if prods_exist else 'are missing without the body having run'}: log {log}", None))
                if ns > 1:
                    bad.append(("success", f"task {t} started {ns} times", None))
            else:
                bad.append(("one_report", f"unknown outcome {o}", None))
        # a fired fault must be reported as FAIL
        for t in set(raised_in_body) | set(node_faults):
            if out.get(t) != "FAIL":
                bad.append(("fail_iff", f"a fault fired for task {t} (log {log}) but its outcome is {out.get(t)}", None))
        for t in set(starts):
            if t not in ends and t not in raised_in_body and out.get(t) != "FAIL":
                bad.append(("fail_iff", f"body of task {t} did not complete but its outcome is {out.get(t)}", None))
        for t, spec_t in byid.items():
            if spec_t.get("setup_fault") == "marker" and t in out and out[t] not in ("FAIL", "SKIP"):
                bad.append(("fail_iff", f"task {t} has a marker whose evaluation raises but is reported {out[t]}", None))
        for t in deleted:
            if t in out and out[t] != "FAIL":
                bad.append(("fail_iff", f"task {t} deleted its own dependency (it is missing afterwards) but is reported {out[t]}", None))
        # a dependency that no task produces and that was missing before the build is missing at the task's setup:
        # the task fails there, its function is not invoked
        producedn = {p for u in spec["tasks"] for p in u["prods"]}
        for t, spec_t in byid.items():
            gone_before = [d for d in spec_t["deps"] if d not in producedn and pre.get(d) is None]
            if gone_before and t in starts:
                bad.append(("fail_iff", f"dependency {gone_before} of task {t} was missing before the build, yet its function was invoked "
                                        f"(outcome {out.get(t)}; log {log})", None))
            if gone_before and out.get(t) in ("SUCCESS", "PERSISTENCE", "SKIP_UNCHANGED"):
                bad.append(("fail_iff", f"dependency {gone_before} of task {t} is missing but the task is reported {out.get(t)}", None))
        # dry-run: nothing runs
        if cfg.get("dry") and (starts or any(e[0] in ("L", "V") for e in log)):
            bad.append(("not_run", f"dry-run executed something: {log}", None))
        # a logged body belongs to a reported task
        for t in starts:
            if t not in out:
                bad.append(("one_report", f"body of task {t} ran but the task has no report", f29_tag if t in f29 else None))
    return bad


# ------------------------------------------------------------------------------------------------
# model replay
# ------------------------------------------------------------------------------------------------

def model_faults(case, step):
    conf, ph = "", []
    kw_extra = step[2]
    if kw_extra:
        conf = "Exception"
    kinds = {f["kind"] for f in case["faults"]}
    imp = ""
    for k in sorted(kinds & set(COLLECT_FAULTS)):
        # what importing the broken module raises; whether that becomes a failed collection report is decided by the model
        # from Generated.collectFileCatches
        imp = IMPORT_EXC[k]
    if "duplicate_task" in kinds:
        ph.append("collect:CollectionError")       # two collected tasks with one signature: a failed collection report
    if kinds & {"bad_k", "bad_m", "bad_after"}:
        ph.append("dag:ValueError")
    return conf, ",".join(ph), imp


def replay_in_model(drv, case, recs):
    out = []
    spec = case["spec"]
    for ln in project.model_lines(spec):
        drv.ask(ln)
    drv.ask(project.model_fs_line(spec, {int(k): v for k, v in spec["inputs"].items()}))
    drv.ask("engine.cleardb")
    db_broken = False
    for i, rec in enumerate(recs):
        step = rec["step"]
        if step[0] == "delete":
            drv.ask(f"engine.fs set= del={step[1]}")
            continue
        if step[0] == "write":
            drv.ask(f"engine.fs set={step[1]}:{step[2]} del=")
            continue
        if step[0] == "state":
            if rec.get("applied") and step[1] in ("rm_state_dir", "db_empty"):
                drv.ask("engine.cleardb")           # nothing is recorded any more
            if rec.get("applied") and step[1] == "db_trunc":
                db_broken = True
            if rec.get("applied") and step[1] in ("rm_state_dir", "db_empty"):
                db_broken = False
            continue                                # the hash cache is not part of the model: damage there changes nothing
        obs, cfg = rec["obs"], dict(rec["cfg"])
        conf, ph, imp = model_faults(case, step)
        if db_broken:
            conf = "Exception"                      # the database cannot be opened: configuration fails
        if rec.get("f29"):
            break    # F29 pattern (an oracle violation): the model has no behaviour "body deletes a dependency" in the unrepaired code
        if "dag:ValueError" in ph:
            # the unparsable expression never selects anything in the model: do not try to evaluate it
            for key in ("k", "m"):
                if key in cfg and (cfg[key].endswith("(") or cfg[key].endswith("or or")):
                    cfg.pop(key)
        raised = bool(obs.get("raised") or obs.get("died"))
        picks = [] if raised else engine.derive_picks(obs)[0]
        ans = drv.ask(f"engine.top {engine.cfg_model_args(cfg, spec, engine.sel_eval)} picks={','.join(map(str, picks))} conf={conf} ph={ph} imp={imp}")
        if not ans.startswith("ok "):
            out.append((i, "model rejects the observed schedule", f"picks={picks}", ans))
            break
        kv = dict(p.split("=", 1) for p in ans[3:].split(" "))
        if kv["raised"] != ("1" if raised else "0"):
            out.append((i, "whether build() raised", obs.get("raised"), kv["raised"]))
            break
        if raised:
            continue
        impl_reports = ",".join(f"{engine.name_to_id(r[0])}:{r[1]}" for r in obs["reports"])
        impl_log = ",".join(x[1] for x in obs["log"] if x[0] == "S")
        if kv["exit"] != str(obs["exit"]):
            out.append((i, "exit code", obs["exit"], kv["exit"]))
        if kv["reports"] != impl_reports:
            out.append((i, "outcomes", impl_reports, kv["reports"]))
        if kv["log"] != impl_log:
            out.append((i, "executed bodies", impl_log, kv["log"]))
        if kv["complete"] != "1":
            out.append((i, "model expects more picks (build loop ended early in the implementation)", impl_reports, ans))
        mfs = dict(e.split(":") for e in kv["fs"].split(",") if e)
        # files deleted by a "deldep" body are not part of the model's body function: mirrored into the model's world below
        gone = [t["faulty_dep"] for t in spec["tasks"] if t.get("beh") == "deldep" and ("D", str(t["id"])) in [tuple(e) for e in obs["log"]]]
        for g_ in gone:
            mfs.pop(str(g_), None)
        for n in sorted(rec["post"]):
            iv = rec["post"][n]
            if (None if iv is None else str(iv)) != mfs.get(str(n)):
                out.append((i, f"content of node {n}", iv, mfs.get(str(n))))
                break
        if out:
            break
        if gone:
            drv.ask(f"engine.fs set= del={','.join(map(str, gone))}")
    return out


# ------------------------------------------------------------------------------------------------
# campaign
# ------------------------------------------------------------------------------------------------

# ------------------------------------------------------------------------------------------------
# stream "provisional": directory-pattern (DirectoryNode) products and dependencies, task generators — the C18 project
# generator (impl/prov_api.py), judged by this property's report / exit-code clauses (implementation-only)
# ------------------------------------------------------------------------------------------------

def prov_histories(ctx):
    """projects whose producers often have ONLY a directory-pattern product; the number of files a producer writes into its
    directory is the content of an input file (0 … 6) and is edited between builds (n files, then 0 files, then n again), consumers
    depend on the directories, generators define tasks per received file"""
    from impl import prov_api
    rng = ctx.rng
    hs = []
    for i in range(ctx.scale(18, 250)):
        spec = prov_api.gen_spec(rng, overlap_p=0.0, fail_p=0.08)   # graphs that stay well-formed when resolved (C08 quantifier)
        steps = prov_api.gen_steps(rng, spec, rounds=(1, 3))
        cnts = [t["cnt"] for t in spec["tasks"] if t.get("cnt") is not None and t["pprods"]]
        if cnts and rng.random() < 0.7:
            # an empty match on the path where the producer runs: the count goes to 0 (first build, or after a build with files)
            c = rng.choice(cnts)
            if rng.random() < 0.4:
                spec["inputs"][str(c)] = 0
            steps += [["write", c, 0], ["build"], ["write", c, rng.randint(1, 4)], ["build"]]
        hs.append({"tag": "provisional", "spec": spec, "steps": steps})
    return hs


def prov_oracle(hist, recs):
    from impl import prov_api
    bad = []
    for bi, rec in enumerate(recs):
        if rec["step"][0] != "build":
            continue
        obs = rec["obs"]
        if obs.get("raised") or obs.get("died") or obs.get("timeout"):
            bad.append(("returns", f"build {bi}: pytask.build raised {obs.get('raised')} / died / did not terminate", None))
            continue
        order = [prov_api.name_to_id(r[0]) for r in obs["reports"]]
        out = {prov_api.name_to_id(r[0]): r[1] for r in obs["reports"]}
        collected = [prov_api.name_to_id(n) for n in obs.get("collected", [])]
        failed = [t for t in order if out[t] == "FAIL"]
        starts = [int(e[1]) for e in obs["log"] if e[0] == "S"]
        ends = [int(e[1]) for e in obs["log"] if e[0] == "E"]
        if len(order) != len(set(order)):
            bad.append(("one_report", f"build {bi}: a task has more than one report: {order}", None))
        if sorted(collected) != sorted(order):
            bad.append(("one_report", f"build {bi}: collected tasks {sorted(collected)} but reports for {sorted(order)} (no failure limit was set); "
                                      f"log {obs['log'][:12]}", None))
        if obs["exit"] != (1 if failed else 0):
            bad.append(("exit", f"build {bi}: exit code {obs['exit']} with failed tasks {failed}; reports {obs['reports']}", None))
        for t, o in out.items():
            if o == "SUCCESS" and not (starts.count(t) == 1 and ends.count(t) == 1):
                bad.append(("success", f"build {bi}: task {t} reported SUCCESS but started {starts.count(t)}x / completed {ends.count(t)}x", None))
            if o in engine.OUTCOMES_NOT_RUN and t in starts:
                bad.append(("not_run", f"build {bi}: task {t} reported {o} but its function ran", None))
        for t in starts:
            if t not in out:
                bad.append(("one_report", f"build {bi}: body of task {t} ran but the task has no report", None))
    return bad


def run_prov_stream(ctx):
    from impl import prov_api
    hs = prov_histories(ctx)
    nseeds = 6
    pool = prov_api.TimedPool([ctx.rng.randrange(1, 4_000_000_000) for _ in range(nseeds)])
    try:
        with ThreadPoolExecutor(max_workers=nseeds) as ex:
            all_recs = list(ex.map(lambda a: prov_api.run_history(pool.pick(a[0]), a[1]), enumerate(hs)))
    finally:
        pool.close()
    for h, recs in zip(hs, all_recs):
        builds = [r for r in recs if r["step"][0] == "build"]
        zero = any(r["step"][0] == "write" and r["step"][2] == 0 for r in recs)
        ctx.case([h["spec"], h["steps"]], zero or any(b["obs"].get("exit") for b in builds),
                 {"stream": "provisional", "tasks": len(h["spec"]["tasks"]), "builds": len(builds),
                  "first_build": {k: builds[0]["obs"].get(k) for k in ("exit", "reports")} if builds else None})
        ctx.dist["shape=provisional"] += 1
        for b in builds:
            ctx.dist[f"prov-exit={b['obs'].get('exit')}"] += 1
        for kind, msg, finding in prov_oracle(h, recs):
            ctx.violation(f"{kind}: {msg}", {"history": h, "layer": "provisional"}, finding=finding)


def cases(ctx):
    rng = ctx.rng
    cs = corpus()
    shapes = ["task", "phase", "pair", "clean"]
    for i in range(ctx.scale(110, 1500)):
        cs.append(gen_case(rng, shapes[i % 4] if i < 40 else None))
    for i in range(ctx.scale(24, 300)):
        cs.append(gen_prog_case(rng))
    return cs


def run_cases(ctx, cs):
    nseeds = 8 if not ctx.thorough else 16
    hashseeds = [ctx.rng.randrange(1, 4_000_000_000) for _ in range(nseeds)]
    ctx.extra["hash_seeds"] = hashseeds
    pool = builder.Pool(hashseeds)
    try:
        with ThreadPoolExecutor(max_workers=nseeds) as ex:
            all_recs = list(ex.map(lambda a: run_case(pool.pick(a[0]), a[1]), enumerate(cs)))
    finally:
        pool.close()
    drv = ctx.driver() if ctx.use_model else None
    for case, recs in zip(cs, all_recs):
        builds = [r for r in recs if r["step"][0] == "build"]
        fired = any(r["obs"].get("exit") not in (0, None) or r["obs"].get("raised") for r in builds)
        sample = {"faults": case["faults"], "cfg": builds[0]["cfg"] if builds else None,
                  "tasks": [{k: t[k] for k in ("id", "deps", "prods", "beh", "setup_fault", "marks") if t.get(k)} for t in case["spec"]["tasks"]],
                  "first_build": {k: builds[0]["obs"].get(k) for k in ("raised", "exit", "reports")} if builds else None}
        ctx.case([case["spec"], case["steps"]], fired, sample)
        ctx.dist[f"shape={case['tag'].split('-')[0]}"] += 1
        for f in case["faults"]:
            ctx.dist["fault=" + f["kind"]] += 1
        for r_ in recs:
            if r_["step"][0] == "state":
                ctx.dist["state=" + r_["step"][1] + ("" if r_.get("applied") else "(n/a)")] += 1
        for b in builds:
            ctx.dist[f"exit={b['obs'].get('exit')}"] += 1
            if b["obs"].get("raised"):
                ctx.dist["raised=" + str(b["obs"]["raised"])] += 1
            for r in b["obs"].get("reports") or []:
                ctx.dist["outcome=" + r[1]] += 1
            for k_ in (b["step"][3] if len(b["step"]) > 3 else {}):
                ctx.dist["irrelevant=" + k_] += 1
            for opt in ("force", "dry", "maxfail", "k"):
                if b["cfg"].get(opt):
                    ctx.dist["opt=" + opt] += 1
        for kind, msg, finding in oracle(case, recs):
            ctx.violation(f"{kind}: {msg}", {"case": case, "layer": "build-top"}, finding=finding)
        if drv is not None:
            dis = replay_in_model(drv, case, recs)
            ctx.traces_validated += 1
            for (i, what, iv, mv) in dis[:1]:
                ctx.disagreement(f"build-top model, step {i}: {what}: implementation {iv!r}, model {mv!r}; faults {case['faults']}",
                                 {"case": case, "step": i, "what": what, "impl": iv, "model": mv, "layer": "build-top"})
    return all_recs


def run(ctx):
    ctx.rule = ("generated projects with injected user-code faults (config: bad capture / task_files / database_url; collection: syntax / import "
                "error; graph: unparsable -k / -m / after expression, cycle, duplicate product; execution: exception before/after writing, omitted "
                "product, SystemExit, failing load / save / state / hash callable of custom nodes, bad marker call, missing input), singly and in "
                "pairs × {force, dry-run, -k, max_failures}, 1-2 builds each; non-trivial = some build ends with a non-zero exit code or raises; "
                "distinct by (spec, steps)")
    run_cases(ctx, cases(ctx))
    run_prov_stream(ctx)


def replay(ctx, obj):
    if obj["input"].get("layer") == "provisional":
        from impl import prov_api
        srv = prov_api.TimedServer(obj.get("seed", 0) + 1)
        try:
            recs = prov_api.run_history(srv, obj["input"]["history"])
        finally:
            srv.close()
        bad = prov_oracle(obj["input"]["history"], recs)
        return (False, bad[0][1]) if bad else (True, "reports and exit codes are truthful on the stored provisional history")
    run_cases(ctx, [obj["input"]["case"]] * 2)
    fresh = [v for v in ctx.violations if not v["finding"]]
    if fresh:
        return False, fresh[0]["what"]
    if ctx.disagreements:
        return False, ctx.disagreements[0]["what"]
    if ctx.violations:
        return False, "known finding: " + ctx.violations[0]["what"]
    return True, "outcomes and exit code are truthful on the stored case"
