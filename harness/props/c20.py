"""C20 — data catalog entries are stable, isolated and round-trip values."""
from impl import catalog_api

ASSUMPTIONS = [
    "hashlib.sha256 is collision free (hypothesis sha_inj of the theorems); pickle fidelity is trusted and only sampled",
    "case-sensitive file system; symlinks inside .pytask are not created by pytask and are out of scope",
    "a documented name longer than the file system's 255-byte component limit fails with OSError(ENAMETOOLONG): counted as accepted by the validator",
    "names containing NUL are rejected by the operating system (ValueError), not by the validator: excluded from the model comparison only",
    "entry names are arbitrary str without lone surrogates (str.encode() must succeed)",
    "values: None/bool/int/float (nan, inf, -0.0)/complex/str/bytes/list/tuple/dict/frozenset nests; compared by a canonical text (type-exact)",
]


def run(ctx):
    ctx.rule = ("(1) DataCatalog(name=n) for all n of ≤3 symbols over {a Z 0 - _ / . space é \\n} and seeded random unicode/long/separator/"
                "case-variant names, each in 2-3 fresh interpreter sessions with different PYTHONHASHSEED, entry paths recorded; "
                "(2) save/load traces over 2-4 fresh sessions and several catalogs at the node API; (3) pytask.build projects whose tasks return "
                "random picklable values into entries consumed in the same and in two later builds. non-trivial = name of ≥2 symbols whose "
                "documented status differs from its first symbol's or documented name of ≥2 symbols or F5-shaped name; location class; trace with ≥2 "
                "sessions and ≥1 load after a save; every e2e project. distinct by canonical input.")
    catalog_api.campaign(ctx)


def replay(ctx, obj):
    catalog_api.replay_one(ctx, obj["input"])
    fresh = [v for v in ctx.violations if not v["finding"]]
    known = [v for v in ctx.violations if v["finding"]]
    if fresh:
        return False, fresh[0]["what"]
    if ctx.disagreements:
        return False, ctx.disagreements[0]["what"]
    if known:
        return False, f"(known finding {known[0]['finding']}) " + known[0]["what"]
    return True, "catalog property holds on the stored input"
