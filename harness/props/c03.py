"""C03 — nothing is re-executed unless something it depends on changed."""
from impl import engine, histgen, nodekinds, tracker

ASSUMPTIONS = [
    "ground truth of 'what changed' is kept by the harness, which made the edits",
    "forced builds, generators and in-memory products are outside the claim and are not generated / not judged",
    "products of after-targets count as tracked (pytask records them as neighbours); NaN-like hashed values are not generated",
    "Lean side (Properties/C03.lean): state = content id (time stamps are not part of the model: the (path, mtime) memo, finding F4, is C12's subject); "
    "WF P (unique task ids, a task lists a product once, module files are not products) is a hypothesis of C03_repeat",
    "generated projects also contain symlinked inputs, DirectoryNode products next to file products and a constant hashed PythonNode dependency "
    "(tuple with str and Path); successive builds of one history run in fresh processes under different PYTHONHASHSEEDs",
    "generated projects also pass some dependencies inside one dict / list / tuple argument together with plain values; some task modules live in "
    "sub-directories with a section-less pyproject.toml and histories mix builds of the whole project with builds of one sub-directory "
    "(model: the project restricted to the tasks collected there, same world)",
    "histories also address the unchanged project through other spellings (../name from a sibling directory, a symlink alias), switch an untracked "
    "fail-flag file on and off, and exchange the contents of inputs that form one hashed Python value",
    "stream nodekinds: dependencies / products declared as Path, PathNode, plain UPath and UPath('file://…'), touch-only and identical-rewrite edits, "
    "fixed and changing PYTHONHASHSEED (oracle only; findings F61 / F62 are repaired, their witnesses are replayed from corpus/)",
]
EDITS = ["touch", "touch", "rewrite_same", "rewrite_same", "write", "revert", "bump", "revert_module", "tamper", "delete_product", "add_task", "flag", "swap"]
CFGS = [{}, {}, {}, {"k": "task_t00x"}, {"k": "task_t01x or task_t02x"}, {"dry": True}, {"force": True}, {"sub": "?"}, {"sub": "?"}, {"via": "rel"}, {"via": "link"}]


def oracle(hist, records):
    bad = []
    tr = tracker.Tracker()
    prev_quiet_expected = False
    for rec in records:
        if rec["step"][0] != "build":
            prev_quiet_expected = False
            continue
        spec, obs, cfg = rec["spec"], rec["obs"], rec["cfg"]
        if obs.get("raised") or obs.get("exit") not in (0, 1):
            continue
        tr.forget_removed(spec)
        for t in tr.needless_runs(rec):
            bad.append(("needless", f"task {t} was executed although its dependencies, module and products have the content recorded at its last "
                                    f"successful run (steps {[s[:3] if s[0] != 'respec' else ['respec'] for s in hist['steps']]})", None))
        if prev_quiet_expected and not cfg.get("force") and not cfg.get("dry") and engine.executed(obs):
            bad.append(("repeat", f"immediately repeated build executed {engine.executed(obs)}", None))
        if not cfg.get("dry"):
            tr.update(rec)
        plain = not any(cfg.get(k) for k in ("dry", "k", "m", "maxfail", "sub"))
        prev_quiet_expected = plain and obs["exit"] == 0 and not engine.user_skipped_closure(spec)
    return bad


def histories(ctx):
    rng = ctx.rng
    hs = []
    for i in range(ctx.scale(70, 800)):
        spec = engine.gen_spec(rng, nt=(2, 7), after_p=0.2, after_needs_prods=True, link_p=0.3, dirprod_p=0.3, hashed_p=0.25, bag_p=0.3, subdir_p=0.35, pygroup_p=0.25)
        h = histgen.random_history(rng, spec, rng.randint(4, 10), EDITS, CFGS, final_build={})
        h["steps"] = [["build", {}]] + h["steps"] + [["build", {}]]
        hs.append(h)
    return hs


def nontrivial(h, recs):
    b = [r for r in recs if r["step"][0] == "build"]
    return len(b) >= 3 and any(r["step"][0] in ("touch", "write", "bump", "setver") for r in recs)


def run(ctx):
    ctx.rule = ("histories as in C02 with the edit mix shifted to touch-only, identical rewrites, edit-then-revert, unrelated edits, selections; oracle = harness "
                "ground truth of tracked contents at each task's last SUCCESS/PERSISTENCE; non-trivial = ≥3 builds and ≥1 content-preserving or content-changing edit")
    nodekinds.stream(ctx, "C03")
    engine.run_campaign(ctx, histories(ctx), oracle, nontrivial=nontrivial, sel_eval=engine.sel_eval, rotate_seeds=True)


def replay(ctx, obj):
    if obj.get("input", {}).get("nodekinds"):
        return nodekinds.replay("C03", obj["input"]["nodekinds"])
    engine.run_campaign(ctx, [obj["input"]["history"]] * 2, oracle, sel_eval=engine.sel_eval)
    if ctx.violations:
        return False, ctx.violations[0]["what"]
    if ctx.disagreements:
        return False, ctx.disagreements[0]["what"]
    return True, "no needless re-execution on the stored history"
