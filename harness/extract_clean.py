"""Translator section for M8 (`pytask clean`): constants and call shapes of clean.py / git.py / config.py.

`section()` returns Lean lines for `PytaskModel/Generated.lean` (namespace Pytask.Generated). Fail-closed:
anything unrecognised raises `extract.ExtractError(reason)`.

Emitted (consumed by `PytaskModel/Clean.lean`):
  cleanDefaultExclude      : List String   -- `_DEFAULT_EXCLUDE`
  cleanRootExcludeTemplate : List String   -- components joined onto config["root"] for the cache-folder exclude
  cleanExcludeOrder        : List String   -- order of the three summands of config["exclude"]
  cleanCacheDir            : String        -- directory created below root by config.pytask_parse_config
  cleanCacheGitignore      : String        -- file created in it at configuration time
  cleanModes               : List String, cleanDefaultMode : String
  gitLsFilesArgs           : List String   -- arguments of `git ls-files` in git.get_all_files
  gitLsFilesFullName       : Bool          -- "--full-name" among them (output relative to the repo top instead of cwd)
  gitLsFilesCwd            : String        -- "root" | "git_root": directory `get_all_files` is run in by clean.py
  gitJoinBase              : String        -- "git_root" | "root": what the ls-files output is joined onto in clean.py
  gitRootArgs              : List String   -- arguments of `git rev-parse` in git.get_root
  gitRootResolved          : Bool          -- whether get_root normalises `cwd / cdup` (resolve()/normpath)
  gitOutputDecoding        : String        -- "strict" | "surrogateescape": cmd_output keeps distinct byte names distinct (else fail-closed)
  gitKnownExtra            : List String   -- extra component(s) added below git_root to the known paths (".git")
  cleanKnowsProvisional    : Bool          -- whether _yield_paths_from_task also yields what a provisional node collects
  rootStopRules            : List (String × String)  -- config_utils.find_project_root_and_config: per directory, in order,
                                                     -- (entry name, test): ("pyproject.toml", "section") = exists and has the
                                                     -- pytask section -> root and config; (".git", "exists"|"is_dir"|"is_file") -> root
  rootStartsAtParentOfFile : Bool          -- a common ancestor that is a file is replaced by its directory
  configSection            : List String   -- the table a pyproject.toml must have to be the configuration ("section" above):
                                           -- read_config subscripts every level (KeyError = not a pytask configuration)
"""
from __future__ import annotations

import ast
import sys


def _host():
    """The running translator module: `__main__` when extract.py is the script (so that ExtractError is the class
    its `main()` catches), else the imported `extract` module."""
    m = sys.modules.get("__main__")
    if m is not None and hasattr(m, "ExtractError") and hasattr(m, "_parse") and hasattr(m, "EXTRA_SECTIONS"):
        return m
    import extract
    return extract


class _Lazy:
    def __getattr__(self, name):
        return getattr(_host(), name)


extract = _Lazy()


def ExtractError(msg):  # noqa: N802 - constructs the host's exception class
    return _host().ExtractError(msg)


def lean_bool(b):
    return _host().lean_bool(b)


def lean_list(xs, f=str):
    return _host().lean_list(xs, f)


def lean_str(s):
    return _host().lean_str(s)


def _assign_value(mod: ast.Module, name: str) -> ast.AST:
    for n in mod.body:
        if isinstance(n, ast.AnnAssign) and isinstance(n.target, ast.Name) and n.target.id == name and n.value is not None:
            return n.value
        if isinstance(n, ast.Assign) and any(isinstance(t, ast.Name) and t.id == name for t in n.targets):
            return n.value
    raise ExtractError(f"clean.py: module-level {name} not found")


def _flatten_add(e: ast.AST) -> list[ast.AST]:
    if isinstance(e, ast.BinOp) and isinstance(e.op, ast.Add):
        return _flatten_add(e.left) + _flatten_add(e.right)
    return [e]


def _root_expr_kind(e: ast.AST) -> str | None:
    """'root' for session.config["root"] / config["root"]; 'git_root' for the local variable."""
    s = ast.unparse(e)
    if s in ("session.config['root']", "config['root']"):
        return "root"
    if s == "git_root":
        return "git_root"
    return None


def section() -> list[str]:
    clean = extract._parse("clean.py")
    git = extract._parse("git.py")
    config = extract._parse("config.py")

    # --- _DEFAULT_EXCLUDE
    try:
        default_exclude = ast.literal_eval(_assign_value(clean, "_DEFAULT_EXCLUDE"))
    except ValueError as e:
        raise ExtractError(f"_DEFAULT_EXCLUDE is not a literal: {e}") from None
    if not (isinstance(default_exclude, list) and all(isinstance(x, str) for x in default_exclude)):
        raise ExtractError("_DEFAULT_EXCLUDE is not a list of strings")

    # --- config["exclude"] = to_list(config["exclude"]) + _DEFAULT_EXCLUDE + [config["root"].joinpath(".pytask", "*").as_posix()]
    fn = None
    for n in clean.body:
        if isinstance(n, ast.FunctionDef) and n.name == "pytask_parse_config":
            fn = n
    if fn is None:
        raise ExtractError("clean.py: pytask_parse_config not found")
    stmts = [s for s in fn.body if not (isinstance(s, ast.Expr) and isinstance(s.value, ast.Constant))]
    if len(stmts) != 1 or not isinstance(stmts[0], ast.Assign) or ast.unparse(stmts[0].targets[0]) != "config['exclude']":
        raise ExtractError("clean.pytask_parse_config: expected the single statement config['exclude'] = ...")
    order, template = [], None
    for term in _flatten_add(stmts[0].value):
        s = ast.unparse(term)
        if s == "to_list(config['exclude'])":
            order.append("user")
        elif s == "_DEFAULT_EXCLUDE":
            order.append("default")
        elif isinstance(term, ast.List) and len(term.elts) == 1:
            c = term.elts[0]
            ok = (isinstance(c, ast.Call) and isinstance(c.func, ast.Attribute) and c.func.attr == "as_posix" and not c.args
                  and isinstance(c.func.value, ast.Call) and isinstance(c.func.value.func, ast.Attribute)
                  and c.func.value.func.attr == "joinpath" and ast.unparse(c.func.value.func.value) == "config['root']"
                  and all(isinstance(a, ast.Constant) and isinstance(a.value, str) for a in c.func.value.args))
            if not ok:
                raise ExtractError(f"clean.pytask_parse_config: unrecognised exclude term {s!r}")
            template = [a.value for a in c.func.value.args]
            order.append("cache")
        else:
            raise ExtractError(f"clean.pytask_parse_config: unrecognised exclude term {s!r}")
    if sorted(order) != ["cache", "default", "user"] or template is None:
        raise ExtractError(f"clean.pytask_parse_config: exclude summands are {order}, expected user+default+cache")
    for comp in template:
        if "/" in comp or comp in ("", ".", ".."):
            raise ExtractError(f"cache exclude component {comp!r} is not a single path component")

    # --- config.py creates <root>/.pytask and <root>/.pytask/.gitignore at configuration time
    cfn = None
    for n in config.body:
        if isinstance(n, ast.FunctionDef) and n.name == "pytask_parse_config":
            cfn = n
    if cfn is None:
        raise ExtractError("config.py: pytask_parse_config not found")
    cache_dir = gitignore = None
    for n in ast.walk(cfn):
        if (isinstance(n, ast.Call) and isinstance(n.func, ast.Attribute) and n.func.attr == "joinpath"
                and ast.unparse(n.func.value) == "config['root']"
                and all(isinstance(a, ast.Constant) and isinstance(a.value, str) for a in n.args)):
            args = [a.value for a in n.args]
            if len(args) == 1:
                cache_dir = args[0]
            elif len(args) == 2:
                gitignore = args
    if cache_dir is None or gitignore is None or gitignore[0] != cache_dir:
        raise ExtractError("config.pytask_parse_config: creation of <root>/.pytask(/.gitignore) not recognised")
    if "mkdir" not in ast.unparse(cfn) or "write_text" not in ast.unparse(cfn):
        raise ExtractError("config.pytask_parse_config: cache folder / .gitignore are no longer created")
    if template[0] != cache_dir:
        raise ExtractError(f"cache exclude {template} does not start with the cache folder {cache_dir!r}")

    # --- modes
    modes = None
    for n in clean.body:
        if isinstance(n, ast.ClassDef) and n.name == "_CleanMode":
            modes = [(b.targets[0].id, b.value.value) for b in n.body
                     if isinstance(b, ast.Assign) and isinstance(b.value, ast.Constant) and isinstance(b.value.value, str)]
    if not modes:
        raise ExtractError("_CleanMode not found")
    default_mode = None
    for n in ast.walk(clean):
        if isinstance(n, ast.Call) and ast.unparse(n.func) == "click.option" and n.args and isinstance(n.args[0], ast.Constant) and n.args[0].value == "--mode":
            for kw in n.keywords:
                if kw.arg == "default":
                    s = ast.unparse(kw.value)
                    if not s.startswith("_CleanMode."):
                        raise ExtractError(f"--mode default {s!r} not a _CleanMode member")
                    default_mode = dict(modes).get(s.split(".", 1)[1])
    if default_mode is None:
        raise ExtractError("--mode default not found")

    # --- git.get_all_files / get_root
    gaf = extract._func(git, "get_all_files")
    ls_args = None
    for n in ast.walk(gaf):
        if isinstance(n, ast.Call) and ast.unparse(n.func) == "cmd_output":
            vals = [a.value for a in n.args if isinstance(a, ast.Constant) and isinstance(a.value, str)]
            if len(vals) != len(n.args) or vals[:2] != ["git", "ls-files"]:
                raise ExtractError(f"get_all_files: unrecognised command {ast.unparse(n)!r}")
            if [kw.arg for kw in n.keywords] != ["cwd"] or ast.unparse(n.keywords[0].value) != "cwd":
                raise ExtractError("get_all_files: cmd_output is not called with cwd=cwd")
            ls_args = vals[1:]
    if ls_args is None:
        raise ExtractError("get_all_files: git call not found")
    allowed = {"ls-files", "-z", "--full-name", "--cached", "-c"}
    if not set(ls_args) <= allowed or "-z" not in ls_args:
        raise ExtractError(f"get_all_files: unsupported ls-files arguments {ls_args}")
    if "Path(x) for x in str_paths" not in ast.unparse(gaf):
        raise ExtractError("get_all_files: result is not [Path(x) for x in str_paths]")

    # --- cmd_output: how git's bytes become text. File names are bytes; the model has abstract names, so only decodings that keep
    #     the bytes apart are accepted: strict (aborts on a name that is not valid UTF-8) or surrogateescape / os.fsdecode.
    co = extract._func(git, "cmd_output")
    decodings = set()
    for n in ast.walk(co):
        if isinstance(n, ast.Call) and isinstance(n.func, ast.Attribute) and n.func.attr == "decode" and "stdout" in ast.unparse(n.func.value):
            kw = {k.arg: ast.unparse(k.value) for k in n.keywords}
            pos = [ast.unparse(a) for a in n.args]
            if len(pos) > 1:
                kw["errors"] = pos[1]
            decodings.add(kw.get("errors", "'strict'").strip("'\""))
        if isinstance(n, ast.Call) and ast.unparse(n.func) == "os.fsdecode" and "stdout" in ast.unparse(n):
            decodings.add("surrogateescape")
    if not decodings or not decodings <= {"strict", "surrogateescape"}:
        raise ExtractError(f"git.cmd_output: the output of git is decoded with errors={sorted(decodings)}: names that are not valid "
                           f"UTF-8 would be altered (the model compares names as they are)")
    git_decoding = sorted(decodings)[0] if len(decodings) == 1 else "mixed"

    gr = extract._func(git, "get_root")
    gr_args = None
    for n in ast.walk(gr):
        if isinstance(n, ast.Call) and ast.unparse(n.func) == "cmd_output":
            vals = [a.value for a in n.args if isinstance(a, ast.Constant) and isinstance(a.value, str)]
            if len(vals) != len(n.args) or vals[:2] != ["git", "rev-parse"]:
                raise ExtractError(f"get_root: unrecognised command {ast.unparse(n)!r}")
            gr_args = vals[1:]
    if gr_args != ["rev-parse", "--show-cdup"]:
        raise ExtractError(f"get_root: expected rev-parse --show-cdup, got {gr_args}")
    root_assign = None
    for n in ast.walk(gr):
        if isinstance(n, ast.Assign) and ast.unparse(n.targets[0]) == "root" and "cwd" in ast.unparse(n.value):
            root_assign = ast.unparse(n.value)
    if root_assign == "Path(cwd) / stdout.strip()":
        resolved = False
    elif root_assign in ("(Path(cwd) / stdout.strip()).resolve()", "Path(cwd).joinpath(stdout.strip()).resolve()",
                         "Path(os.path.normpath(Path(cwd) / stdout.strip()))"):
        resolved = True
    else:
        raise ExtractError(f"get_root: unrecognised root expression {root_assign!r}")

    # --- the git block of _collect_all_paths_known_to_pytask (local variable names are free)
    ck = extract._func(clean, "_collect_all_paths_known_to_pytask")
    src = ast.unparse(ck)
    if "is_git_installed()" not in src:
        raise ExtractError("_collect_all_paths_known_to_pytask: is_git_installed() is no longer consulted")
    git_root_var = ls_var = None
    for n in ast.walk(ck):
        if isinstance(n, ast.Assign) and len(n.targets) == 1 and isinstance(n.targets[0], ast.Name) and isinstance(n.value, ast.Call):
            f = ast.unparse(n.value.func)
            if f == "get_root":
                if [ast.unparse(x) for x in n.value.args] != ["session.config['root']"] or n.value.keywords:
                    raise ExtractError("get_root is not called with session.config['root']")
                git_root_var = n.targets[0].id
            elif f == "get_all_files":
                ls_var = n.targets[0].id
    if git_root_var is None:
        raise ExtractError("_collect_all_paths_known_to_pytask: `<var> = get_root(session.config['root'])` not found")
    guarded = any(isinstance(n, ast.If) and ast.unparse(n.test) in (f"{git_root_var} is not None", f"{git_root_var} is not None and is_git_installed()")
                  for n in ast.walk(ck))
    if not guarded:
        raise ExtractError("_collect_all_paths_known_to_pytask: the git block is not guarded by `<git_root> is not None`")

    def root_kind(e: ast.AST) -> str | None:
        u = ast.unparse(e)
        if u in ("session.config['root']", "config['root']"):
            return "root"
        if u == git_root_var:
            return "git_root"
        return None

    ls_cwd = join_base = None
    joined_var = None
    joined_comp = None
    extra = []
    for n in ast.walk(ck):
        if isinstance(n, ast.Call) and ast.unparse(n.func) == "get_all_files":
            if len(n.args) != 1 or n.keywords:
                raise ExtractError("get_all_files call shape changed")
            ls_cwd = root_kind(n.args[0])
        if isinstance(n, (ast.ListComp, ast.SetComp, ast.GeneratorExp)) and len(n.generators) == 1:
            g = n.generators[0]
            it = ast.unparse(g.iter)
            if (ls_var is not None and it == ls_var) or it.startswith("get_all_files("):
                e = n.elt
                tgt = ast.unparse(g.target)
                if g.ifs:
                    raise ExtractError("the git paths are filtered before they are joined")
                if (isinstance(e, ast.Call) and isinstance(e.func, ast.Attribute) and e.func.attr == "joinpath"
                        and len(e.args) == 1 and ast.unparse(e.args[0]) == tgt):
                    join_base = root_kind(e.func.value)
                elif isinstance(e, ast.BinOp) and isinstance(e.op, ast.Div) and ast.unparse(e.right) == tgt:
                    join_base = root_kind(e.left)
                joined_comp = ast.unparse(n)
        if (isinstance(n, ast.Call) and isinstance(n.func, ast.Attribute) and n.func.attr == "add" and len(n.args) == 1
                and isinstance(n.args[0], ast.BinOp) and isinstance(n.args[0].op, ast.Div)
                and ast.unparse(n.args[0].left) == git_root_var and isinstance(n.args[0].right, ast.Constant)):
            extra.append(n.args[0].right.value)
    for n in ast.walk(ck):
        if isinstance(n, ast.Assign) and len(n.targets) == 1 and isinstance(n.targets[0], ast.Name) and joined_comp is not None \
                and ast.unparse(n.value) == joined_comp:
            joined_var = n.targets[0].id
    if ls_cwd is None or join_base is None:
        raise ExtractError("_collect_all_paths_known_to_pytask: ls-files cwd / join base not recognised")
    added = any(isinstance(n, ast.Call) and isinstance(n.func, ast.Attribute) and n.func.attr == "update" and len(n.args) == 1
                and ast.unparse(n.args[0]) in (joined_var, joined_comp) for n in ast.walk(ck))
    if not added:
        raise ExtractError("_collect_all_paths_known_to_pytask: the joined git paths are not added to the known paths")
    ret = [n for n in ast.walk(ck) if isinstance(n, ast.Return)]
    if len(ret) != 1 or not isinstance(ret[0].value, ast.Name):
        raise ExtractError("_collect_all_paths_known_to_pytask: expected a single `return <set>`")
    kp = ret[0].value.id
    calls = {ast.unparse(n) for n in ast.walk(ck) if isinstance(n, ast.Call)}
    for needle, why in ((f"{kp}.add(session.config['root'])", "the root"), (f"{kp}.add(session.config['config'])", "the configuration file")):
        if needle not in calls:
            raise ExtractError(f"_collect_all_paths_known_to_pytask: {why} is no longer added to the returned set ({needle})")
    if not any(c.endswith(".update(_yield_paths_from_task(task))") for c in calls):
        raise ExtractError("_collect_all_paths_known_to_pytask: task paths are no longer collected with _yield_paths_from_task")
    if not any(c.endswith(".parents)") and ".update(" in c for c in calls):
        raise ExtractError("_collect_all_paths_known_to_pytask: parents of the known files are no longer added")

    # --- config_utils.find_project_root_and_config: where the upward search stops
    cu = extract._parse("config_utils.py")
    fr = extract._func(cu, "find_project_root_and_config")
    fsrc = ast.unparse(fr)
    loops = [n for n in ast.walk(fr) if isinstance(n, ast.For)]
    if len(loops) != 1 or not isinstance(loops[0].target, ast.Name) or loops[0].orelse:
        raise ExtractError("find_project_root_and_config: expected one loop over the parent directories")
    loop = loops[0]
    par = loop.target.id
    it = ast.unparse(loop.iter)
    seq = None
    for n in ast.walk(fr):
        if isinstance(n, ast.Assign) and len(n.targets) == 1 and ast.unparse(n.targets[0]) == it:
            seq = ast.unparse(n.value)
    if seq != "[common_ancestor, *list(common_ancestor.parents)]" and it != "[common_ancestor, *common_ancestor.parents]" \
            and seq != "[common_ancestor, *common_ancestor.parents]":
        raise ExtractError(f"find_project_root_and_config: the search does not go from the common ancestor upwards ({seq or it})")
    local: dict[str, str] = {}
    stop_rules: list[tuple[str, str]] = []

    def joined(e):
        """name of the entry `parent.joinpath(<name>)` / `parent / <name>` (through a local), else None"""
        u = ast.unparse(e)
        u = local.get(u, u)
        for pre, post in ((f"{par}.joinpath('", "')"), (f"{par} / '", "'")):
            if u.startswith(pre) and u.endswith(post):
                return u[len(pre):-len(post)]
        return None

    for st in loop.body:
        if isinstance(st, ast.Assign) and len(st.targets) == 1 and isinstance(st.targets[0], ast.Name):
            local[st.targets[0].id] = ast.unparse(st.value)
            continue
        if isinstance(st, ast.Expr) and isinstance(st.value, ast.Constant):
            continue
        if not (isinstance(st, ast.If) and not st.orelse and isinstance(st.test, ast.Call) and isinstance(st.test.func, ast.Attribute)
                and not st.test.args and st.test.func.attr in ("exists", "is_dir", "is_file")):
            raise ExtractError(f"find_project_root_and_config: statement in the search loop not recognised: {ast.unparse(st)[:80]}")
        entry = joined(st.test.func.value)
        if entry is None:
            raise ExtractError(f"find_project_root_and_config: test not about an entry of the directory: {ast.unparse(st.test)}")
        body = [b for b in st.body if not (isinstance(b, ast.Expr) and isinstance(b.value, ast.Constant))]
        if len(body) == 1 and isinstance(body[0], ast.Try):
            tr = body[0]
            ok = ([ast.unparse(x) for x in tr.body] == [f"read_config({ast.unparse(st.test.func.value)})"]
                  and any(ast.unparse(h.type) == "KeyError" and [ast.unparse(x) for x in h.body] == ["pass"] for h in tr.handlers if h.type)
                  and tr.orelse and isinstance(tr.orelse[-1], ast.Break) and not tr.finalbody
                  and "root = config_path.parent" in [ast.unparse(x) for x in tr.orelse]
                  and f"config_path = {ast.unparse(st.test.func.value)}" in [ast.unparse(x) for x in tr.orelse]
                  and st.test.func.attr == "exists")
            if not ok:
                raise ExtractError("find_project_root_and_config: the configuration-file rule is not recognised")
            stop_rules.append((entry, "section"))
        elif [ast.unparse(b) for b in body] == [f"root = {par}", "break"]:
            stop_rules.append((entry, st.test.func.attr))
        else:
            raise ExtractError(f"find_project_root_and_config: stop rule not recognised: {ast.unparse(st)[:100]}")
    # WHICH table makes a pyproject.toml the configuration: read_config(path) with the default `sections`, every level subscripted
    rc = extract._func(cu, "read_config")
    rparams = [a.arg for a in rc.args.args]
    if rparams != ["path", "sections"] or len(rc.args.defaults) != 1 or not isinstance(rc.args.defaults[0], ast.Constant) \
            or not isinstance(rc.args.defaults[0].value, str):
        raise ExtractError("read_config: expected (path, sections='<dotted table>')")
    config_section = rc.args.defaults[0].value.split(".")
    rsrc = ast.unparse(rc)
    split_var = None
    for n in ast.walk(rc):
        if isinstance(n, ast.Assign) and len(n.targets) == 1 and isinstance(n.targets[0], ast.Name) and ast.unparse(n.value) == "sections.split('.')":
            split_var = n.targets[0].id
    descends = [n for n in ast.walk(rc) if isinstance(n, ast.For) and split_var is not None and ast.unparse(n.iter) == split_var
                and [ast.unparse(b) for b in n.body] == [f"config = config[{ast.unparse(n.target)}]"] and not n.orelse]
    if split_var is None or len(descends) != 1 or ".get(" in rsrc or "except" in rsrc or "config = tomllib.loads(" not in rsrc:
        raise ExtractError("read_config: the configuration table is no longer reached by subscripting every level of "
                           "`sections` (a missing level must raise KeyError: the file is then not a pytask configuration)")
    if not any(isinstance(n, ast.Call) and ast.unparse(n.func) == "read_config" and len(n.args) == 1 and not n.keywords for n in ast.walk(fr)):
        raise ExtractError("find_project_root_and_config: read_config is not called with the default table")

    if "if root is None:\n        root = common_ancestor" not in fsrc or "return (root, config_path)" not in fsrc:
        raise ExtractError("find_project_root_and_config: fallback `root = common_ancestor` / return not recognised")
    start_parent = "if common_ancestor.is_file():\n        common_ancestor = common_ancestor.parent" in fsrc

    # --- control structure of from_path / listing / known paths / command loop (namespace Cln); the arms of
    #     _yield_paths_from_task decide whether provisional nodes are resolved
    import extract_cleangen
    gen, knows_provisional = extract_cleangen.gen_lines(clean, modes)

    strs = lambda xs: lean_list(xs, lean_str)  # noqa: E731
    return [
        "/-- M8 (`pytask clean`): constants and call shapes of clean.py / git.py / config.py. -/",
        f"def cleanDefaultExclude : List String := {strs(default_exclude)}",
        f"def cleanRootExcludeTemplate : List String := {strs(template)}",
        f"def cleanExcludeOrder : List String := {strs(order)}",
        f"def cleanCacheDir : String := {lean_str(cache_dir)}",
        f"def cleanCacheGitignore : String := {lean_str(gitignore[1])}",
        f"def cleanModes : List String := {strs([v for _, v in modes])}",
        f"def cleanDefaultMode : String := {lean_str(default_mode)}",
        f"def gitLsFilesArgs : List String := {strs(ls_args)}",
        f"def gitLsFilesFullName : Bool := {lean_bool('--full-name' in ls_args)}",
        f"def gitLsFilesCwd : String := {lean_str(ls_cwd)}",
        f"def gitJoinBase : String := {lean_str(join_base)}",
        f"def gitRootArgs : List String := {strs(gr_args)}",
        f"def gitRootResolved : Bool := {lean_bool(resolved)}",
        f"def gitOutputDecoding : String := {lean_str(git_decoding)}",
        f"def gitKnownExtra : List String := {strs(extra)}",
        f"def cleanKnowsProvisional : Bool := {lean_bool(knows_provisional)}",
        "def rootStopRules : List (String × String) := [" + ", ".join(f"({lean_str(a)}, {lean_str(b)})" for a, b in stop_rules) + "]",
        f"def rootStartsAtParentOfFile : Bool := {lean_bool(start_parent)}",
        f"def configSection : List String := {strs(config_section)}",
        "",
    ] + gen


if __name__ == "__main__":
    print("\n".join(section()))
