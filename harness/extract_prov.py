"""Translator section for M7 (provisional nodes / task generators): facts read from src/_pytask/provisional.py,
provisional_utils.py and execute.py. Data only; fail-closed (ExtractError on anything unrecognised)."""
from __future__ import annotations

import ast
import sys


def _host():
    """The running translator module: `__main__` when extract.py is the script (so that ExtractError is the class its
    `main()` catches), else the imported `extract` module."""
    m = sys.modules.get("__main__")
    if m is not None and hasattr(m, "ExtractError") and hasattr(m, "_parse") and hasattr(m, "EXTRA_SECTIONS"):
        return m
    import extract
    return extract


def _is_call_to(node, name: str) -> bool:
    return isinstance(node, ast.Call) and isinstance(node.func, ast.Name) and node.func.id == name


def _truthy_const_return(st) -> bool | None:
    """True: `return <truthy constant>`; False: `return None` / bare `return`; None: not a return statement."""
    if not isinstance(st, ast.Return):
        return None
    if st.value is None:
        return False
    if isinstance(st.value, ast.Constant):
        return bool(st.value.value) and st.value.value is not None
    raise _err(f"unrecognised return value {ast.unparse(st.value)!r}")


def _err(msg):
    return _host().ExtractError("provisional: " + msg)


def _generator_branch(fn: ast.FunctionDef) -> ast.If:
    ifs = [n for n in fn.body if isinstance(n, ast.If) and _is_call_to(n.test, "is_task_generator")]
    if len(ifs) != 1:
        raise _err(f"{fn.name}: expected exactly one top-level `if is_task_generator(task):`")
    return ifs[0]


def section() -> list[str]:
    X = _host()
    _func, _parse, lean_bool = X._func, X._parse, X.lean_bool

    prov = _parse("provisional.py")

    # (1) pytask_execute_task: does the generator branch end by returning a non-None result (so that the
    #     firstresult chain stops before execute.py's default implementation)?
    fn = _func(prov, "pytask_execute_task")
    br = _generator_branch(fn)
    if br.orelse:
        raise _err("pytask_execute_task: generator branch has an else")
    calls = [n for n in ast.walk(br) if isinstance(n, ast.Call) and isinstance(n.func, ast.Attribute) and n.func.attr == "execute"]
    if len(calls) != 1:
        raise _err("pytask_execute_task: generator branch does not call task.execute exactly once")
    inner_returns = [n for st in br.body[:-1] for n in ast.walk(st) if isinstance(n, ast.Return)]
    if inner_returns:
        raise _err("pytask_execute_task: early return inside the generator branch")
    last = _truthy_const_return(br.body[-1])
    gen_result = bool(last)   # no return statement at the end -> falls through to the function's tail
    tail = [st for st in fn.body if st is not br and not (isinstance(st, ast.Expr) and isinstance(st.value, ast.Constant))]
    if last is None:
        # falls out of the `if`: the result is whatever the tail returns
        if len(tail) == 0:
            gen_result = False
        elif len(tail) == 1 and _truthy_const_return(tail[0]) is not None:
            gen_result = bool(_truthy_const_return(tail[0]))
        else:
            raise _err("pytask_execute_task: unrecognised tail")
    else:
        if not (len(tail) == 0 or (len(tail) == 1 and _truthy_const_return(tail[0]) is False)):
            raise _err("pytask_execute_task: non-generator path returns a result")
    if "recreate_dag" not in ast.unparse(br) or "session.tasks.extend" not in ast.unparse(br):
        raise _err("pytask_execute_task: generator branch does not extend session.tasks / recreate the DAG")

    # (2) pytask_execute_task_process_report: successful generators stop the chain (no states recorded)
    fn = _func(prov, "pytask_execute_task_process_report")
    src = ast.unparse(fn)
    keeps = None
    for n in fn.body:
        if isinstance(n, ast.If):
            t = ast.unparse(n.test)
            if "is_task_generator(task)" in t and "TaskOutcome.SUCCESS" in t and " and " in t and len(n.body) == 1:
                keeps = bool(_truthy_const_return(n.body[0]))
    if keeps is None:
        raise _err(f"pytask_execute_task_process_report: unrecognised body {src!r}")

    # (3) the setup implementation resolves dependencies and re-creates the DAG; tryfirst
    fn = _func(prov, "pytask_execute_task_setup")
    src = ast.unparse(fn)
    if "collect_provisional_nodes" not in src or "task.depends_on" not in src or "recreate_dag" not in src:
        raise _err("pytask_execute_task_setup: unrecognised body")
    tryfirst = any("tryfirst=True" in ast.unparse(d) for d in fn.decorator_list)

    # (4) DirectoryNode.collect globs root_dir with the pattern
    nodes = _parse("nodes.py")
    coll = None
    for n in ast.walk(nodes):
        if isinstance(n, ast.ClassDef) and n.name == "DirectoryNode":
            for b in n.body:
                if isinstance(b, ast.FunctionDef) and b.name == "collect":
                    coll = ast.unparse(b)
    if coll is None or "self.root_dir.glob(self.pattern)" not in coll:
        raise _err("DirectoryNode.collect is not root_dir.glob(pattern)")

    return [
        "/-- `provisional.pytask_execute_task`: a generator's implementation returns a non-`None` result. -/",
        f"def provisionalGeneratorResult : Bool := {lean_bool(gen_result)}",
        "/-- `provisional.pytask_execute_task_process_report`: a successful generator ends the chain (no states recorded). -/",
        f"def provisionalReportKeepsStates : Bool := {lean_bool(keeps)}",
        f"def provisionalSetupTryFirst : Bool := {lean_bool(tryfirst)}",
        "",
    ]
