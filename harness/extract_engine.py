"""Translator section for the engine model M6 (`lean/PytaskModel/EngineGen.lean`): what the engine's hook
implementations do INSIDE, read with `ast` from the tree under check.

Emits data only (DESIGN §2.4): small inductive types (the schema, constant text) and definitions in
`Pytask.Generated.Eng` describing

* `reportImpls`  — every `pytask_execute_task_process_report` implementation as chains of `if` arms: test (exception class /
                   outcome), actions (set outcome, mark a task set, update_states_in_database, n_tasks_failed += 1,
                   should_stop under a comparison with max_failures) and how the arm ends (return True / None / fall through);
* `setupImpls`   — every `pytask_execute_task_setup` implementation as an ordered list of guarded `raise`s, with the loop of
                   `execute.pytask_execute_task_setup` over `node_and_neighbors` as a list of loop steps (break / continue /
                   raise / needs := True under a condition);
* `neighbourOrder`, `hasChangedCases`, `updateStatesSkipsDryRun`, `descendingTasksShape`;
* `executeSteps` (position of the dry-run guard in `pytask_execute_task`), `executeWrappers` / `executeGuards` (the other
  implementations of that hook), `teardownChecks`, `buildLoopOps`
  (shape of `pytask_execute_build`), `protocolPhases`, `protocolHandlers`, `reportFromTask/-Exception`, `excSubclass`,
  `excIsException`.

The interpreters in EngineGen.lean compute the engine's behaviour from these terms and
`PytaskProofs/Properties/EngineTie.lean` proves them equal to the hand-written `Engine.*` definitions, so a source change
that alters an extracted fact breaks those theorems.

Fail-closed: every recogniser raises ExtractError(reason) on a shape it does not know. Tolerant to renamed locals, helper
variables (simple local assignments are substituted), reordered imports / independent statements, comments, docstrings
and formatting: recognition works on the AST by symbolic evaluation of the few expression forms that matter; statements
without an effect of interest (no raise / return / break / continue, no store to report / session / markers) are skipped.

Hook into `extract.py` with:   from extract_engine import engine_section; EXTRA_SECTIONS.append(engine_section)
"""
from __future__ import annotations

import ast
import sys


def _host():
    m = sys.modules.get("__main__")
    if m is not None and hasattr(m, "ExtractError") and hasattr(m, "_parse") and hasattr(m, "EXTRA_SECTIONS"):
        return m
    import extract
    return extract


def _err(msg: str):
    return _host().ExtractError("engine: " + msg)


# ------------------------------------------------------------------------------------------------
# small AST helpers
# ------------------------------------------------------------------------------------------------

def _body(fn) -> list:
    """statements of a function without its docstring"""
    b = list(fn.body)
    if b and isinstance(b[0], ast.Expr) and isinstance(b[0].value, ast.Constant) and isinstance(b[0].value.value, str):
        b = b[1:]
    return b


def _top_func(modname: str, name: str, required: bool = True):
    mod = _host()._parse(modname)
    fns = [n for n in mod.body if isinstance(n, ast.FunctionDef) and n.name == name]
    if len(fns) > 1:
        raise _err(f"{modname}: {name} defined {len(fns)} times")
    if not fns:
        if required:
            raise _err(f"{modname}: top-level function {name} not found")
        return None
    return fns[0]


def _params(fn) -> list[str]:
    a = fn.args
    return [x.arg for x in a.posonlyargs + a.args + a.kwonlyargs]


def _u(n) -> str:
    return ast.unparse(n)


def _is_name(n, ident) -> bool:
    return isinstance(n, ast.Name) and n.id == ident


def _callee(n) -> str | None:
    """name of the called function for `f(...)` / `mod.f(...)`"""
    if not isinstance(n, ast.Call):
        return None
    if isinstance(n.func, ast.Name):
        return n.func.id
    if isinstance(n.func, ast.Attribute):
        return n.func.attr
    return None


def _str_const(n) -> str | None:
    if isinstance(n, ast.Constant) and isinstance(n.value, str):
        return n.value
    return None


def _walk_no_nested(node):
    """ast.walk that does not descend into nested function / lambda / class bodies."""
    todo = [node]
    while todo:
        n = todo.pop()
        yield n
        for c in ast.iter_child_nodes(n):
            if isinstance(c, (ast.FunctionDef, ast.AsyncFunctionDef, ast.Lambda, ast.ClassDef)):
                continue
            todo.append(c)


CONTROL = (ast.Raise, ast.Return, ast.Break, ast.Continue, ast.Yield, ast.YieldFrom, ast.Await, ast.Try, ast.While,
           ast.Global, ast.Nonlocal, ast.Delete)


def _stores(node) -> set[str]:
    """dotted targets stored to anywhere inside `node` (Name ids, and `x.attr` as 'x.attr' / '*.attr')"""
    out = set()
    for n in _walk_no_nested(node):
        tgts = []
        if isinstance(n, ast.Assign):
            tgts = n.targets
        elif isinstance(n, (ast.AugAssign, ast.AnnAssign)):
            tgts = [n.target]
        elif isinstance(n, (ast.For, ast.comprehension)):
            tgts = [n.target]
        elif isinstance(n, ast.NamedExpr):
            tgts = [n.target]
        elif isinstance(n, ast.With):
            tgts = [i.optional_vars for i in n.items if i.optional_vars is not None]
        for t in tgts:
            for x in ast.walk(t):
                if isinstance(x, ast.Name) and isinstance(x.ctx, ast.Store):
                    out.add(x.id)
                elif isinstance(x, ast.Attribute) and isinstance(x.ctx, ast.Store):
                    out.add("*." + x.attr)
                elif isinstance(x, ast.Subscript) and isinstance(x.ctx, ast.Store):
                    out.add("*[]")
    return out


# attribute stores / calls that are effects of interest for the engine model
EFFECT_ATTRS = {"*.outcome", "*.should_stop", "*.n_tasks_failed", "*.markers", "*.exc_info", "*.execution_reports",
                "*.scheduler", "*.dag", "*.config"}
EFFECT_CALLS = {"update_states_in_database", "setattr", "exec", "eval"}


def _inert(st, tracked: set[str] = frozenset(), what: str = "") -> bool:
    """A statement the model does not see: no control transfer, no store to a tracked local or to report / session state,
    no call that records states, no marker mutation."""
    for n in _walk_no_nested(st):
        if isinstance(n, CONTROL):
            return False
        if isinstance(n, ast.Call):
            c = _callee(n)
            if c in EFFECT_CALLS:
                return False
            if c in ("append", "extend", "insert", "remove", "pop", "clear") and isinstance(n.func, ast.Attribute) \
                    and "markers" in _u(n.func.value):
                return False
            if c in ("done", "get_ready", "pytask_execute_task_protocol"):
                return False
    s = _stores(st)
    if s & tracked or s & EFFECT_ATTRS:
        return False
    return True


# ------------------------------------------------------------------------------------------------
# Lean rendering
# ------------------------------------------------------------------------------------------------

def _lean(t) -> str:
    """term → Lean: tuple ('ctor', args…) ↦ `(.ctor a b)`, list ↦ `[…]`, bool, str (atoms given as ('.name',))."""
    if isinstance(t, bool):
        return "true" if t else "false"
    if isinstance(t, list):
        return "[" + ", ".join(_lean(x) for x in t) + "]"
    if isinstance(t, Str):
        return _host().lean_str(t.s)
    if isinstance(t, tuple):
        head, args = t[0], t[1:]
        if not args:
            return "." + head
        return "(." + head + " " + " ".join(_lean(a) for a in args) + ")"
    raise _err(f"cannot render {t!r}")


class Str:
    def __init__(self, s):
        self.s = s


def _struct(*fields) -> str:
    return "⟨" + ", ".join(_lean(f) for f in fields) + "⟩"


EXC = ["SkippedUnchanged", "Skipped", "SkippedAncestorFailed", "Persisted", "WouldBeExecuted", "Exit", "NodeNotFoundError"]
OUT = ["SUCCESS", "PERSISTENCE", "SKIP_UNCHANGED", "SKIP", "SKIP_PREVIOUS_FAILED", "FAIL", "WOULD_BE_EXECUTED"]
MARKS = ["skip", "skip_unchanged", "skip_ancestor_failed", "would_be_executed", "persist"]
DYNMARKS = ["skip", "skip_ancestor_failed", "would_be_executed"]
FLAGS = ["force", "dry_run"]

SCHEMA = """\
/-! Engine facts (harness/extract_engine.py): what the hook implementations of execute.py / skipping.py / persist.py /
provisional.py / profile.py, `has_node_changed`, `node_and_neighbors` and `pytask_execute_build` do, as data. The types
below are the schema (constant text); the `def`s after them are read from the tree under check. -/
namespace Eng
inductive Exc | SkippedUnchanged | Skipped | SkippedAncestorFailed | Persisted | WouldBeExecuted | Exit | NodeNotFoundError | Other
deriving Repr, DecidableEq
inductive Out | SUCCESS | PERSISTENCE | SKIP_UNCHANGED | SKIP | SKIP_PREVIOUS_FAILED | FAIL | WOULD_BE_EXECUTED
deriving Repr, DecidableEq
inductive MarkN | skip | skip_unchanged | skip_ancestor_failed | would_be_executed | persist
deriving Repr, DecidableEq
inductive DynMark | skip | skip_ancestor_failed | would_be_executed
deriving Repr, DecidableEq
inductive Flag | force | dry_run
deriving Repr, DecidableEq
inductive Cmp | ge | gt | le | lt | eq | ne
deriving Repr, DecidableEq
inductive TaskSet | descendants | selfAndDescendants | ancestors | selfAndAncestors
deriving Repr, DecidableEq
inductive NPart | preds | self | succs
deriving Repr, DecidableEq
/-- condition of a guard in a setup implementation -/
inductive Cond
  | tt | mark (m : MarkN) | flag (f : Flag) | skipifTrue | generator | needs | allExist | anyChanged
  | not (c : Cond) | and (a b : Cond) | or (a b : Cond)
deriving Repr
/-- condition inside the loop of `execute.pytask_execute_task_setup` -/
inductive LCond
  | tt | needs | inPreds | hasState | provisional | changed
  | not (c : LCond) | and (a b : LCond) | or (a b : LCond)
deriving Repr
inductive LAct | setNeeds | brk | cont | raise (e : Exc)
deriving Repr
structure LStep where
  cond : LCond
  acts : List LAct
deriving Repr
inductive SStep
  | raiseIf (c : Cond) (e : Exc)
  | scan (init guard : Cond) (predSet : List NPart) (steps : List LStep)
deriving Repr
structure SImpl where
  name : String
  steps : List SStep
deriving Repr
inductive RTest
  | tt | hasExc | excIs (e : Exc) | outcomeIs (o : Out) | generator
  | not (c : RTest) | and (a b : RTest) | or (a b : RTest)
deriving Repr
inductive RAct
  | setOutcome (o : Out) | mark (m : DynMark) (on : TaskSet) | updateStates | incFailed
  | stopIf (c : Cmp) | stopIfTest (t : RTest)
deriving Repr
inductive REnd | retTrue | retNone | fall
deriving Repr, DecidableEq
structure RArm where
  test : RTest
  acts : List RAct
  ends : REnd
deriving Repr
structure RImpl where
  name : String
  chains : List (List RArm)
  final : REnd
deriving Repr
inductive HCase | stateNone (r : Bool) | rowNone (r : Bool) | compareNe | compareEq
deriving Repr, DecidableEq
inductive XStep | dryGuard (e : Exc) | load | call | save
deriving Repr, DecidableEq
inductive TCheck | generatorReturn | vanishedPredecessor | ordinaryProducts | provisionalProducts | missingProducts
deriving Repr, DecidableEq
inductive BOp | whileActive | pickFirstReady | protocol | appendReport | done | breakIfStop
deriving Repr, DecidableEq
structure Handler where
  classes : List String
  setsStop : Bool
  fromException : Bool
deriving Repr, DecidableEq
"""


# ------------------------------------------------------------------------------------------------
# symbolic values
# ------------------------------------------------------------------------------------------------

class Sym:
    """symbolic value of a local: kind + payload"""

    def __init__(self, kind, val=None):
        self.kind = kind
        self.val = val

    def __repr__(self):
        return f"Sym({self.kind},{self.val!r})"


UNKNOWN = Sym("unknown")


class Env:
    def __init__(self, fn, modname):
        self.fn = fn
        self.mod = modname
        ps = _params(fn)
        self.session = "session" if "session" in ps else None
        self.task = "task" if "task" in ps else None
        self.report = "report" if "report" in ps else None
        self.vars: dict[str, Sym] = {}

    def where(self) -> str:
        return f"{self.mod}:{self.fn.name}"


def _is_task(e, env: Env) -> bool:
    """`task` (the parameter, an alias) or `report.task`"""
    if isinstance(e, ast.Name):
        if env.task and e.id == env.task:
            return True
        return env.vars.get(e.id, UNKNOWN).kind == "task"
    if isinstance(e, ast.Attribute) and e.attr == "task" and env.report and _is_name(e.value, env.report):
        return True
    return False


def _is_task_sig(e, env: Env) -> bool:
    if isinstance(e, ast.Name):
        return env.vars.get(e.id, UNKNOWN).kind == "sig"
    return isinstance(e, ast.Attribute) and e.attr == "signature" and _is_task(e.value, env)


def _is_dag(e, env: Env) -> bool:
    if isinstance(e, ast.Name):
        return env.vars.get(e.id, UNKNOWN).kind == "dag"
    return isinstance(e, ast.Attribute) and e.attr == "dag" and env.session and _is_name(e.value, env.session)


def _config_key(e, env: Env) -> str | None:
    """`session.config["k"]` / `session.config.get("k")` (→ k)"""
    def is_cfg(x):
        if isinstance(x, ast.Name):
            return env.vars.get(x.id, UNKNOWN).kind == "config"
        return isinstance(x, ast.Attribute) and x.attr == "config" and env.session and _is_name(x.value, env.session)
    if isinstance(e, ast.Subscript) and is_cfg(e.value):
        return _str_const(e.slice)
    if isinstance(e, ast.Call) and isinstance(e.func, ast.Attribute) and e.func.attr == "get" and is_cfg(e.func.value) \
            and len(e.args) == 1 and not e.keywords:
        return _str_const(e.args[0])
    return None


def _is_neighbours(e, env: Env) -> bool:
    """`node_and_neighbors(<dag>, <task.signature>)`"""
    if isinstance(e, ast.Name) and env.vars.get(e.id, UNKNOWN).kind == "nbrs":
        return True      # a local bound to the neighbours without provisional nodes (see `_comp`)
    return (_callee(e) == "node_and_neighbors" and isinstance(e.func, ast.Name) and len(e.args) == 2 and not e.keywords
            and _is_dag(e.args[0], env) and _is_task_sig(e.args[1], env))


def _node_of(e, env: Env):
    """`<dag>.nodes[X].get("task") or <dag>.nodes[X].get("node")` / `… or <dag>.nodes[X]["node"]` → X (AST), else None"""
    def part(x, key):
        # <dag>.nodes[X].get(key) | <dag>.nodes[X][key]
        if isinstance(x, ast.Call) and isinstance(x.func, ast.Attribute) and x.func.attr == "get" and len(x.args) == 1 \
                and _str_const(x.args[0]) == key:
            x = x.func.value
        elif isinstance(x, ast.Subscript) and _str_const(x.slice) == key:
            x = x.value
        else:
            return None
        if isinstance(x, ast.Subscript) and isinstance(x.value, ast.Attribute) and x.value.attr == "nodes" \
                and _is_dag(x.value.value, env):
            return x.slice
        return None
    if isinstance(e, ast.BoolOp) and isinstance(e.op, ast.Or) and len(e.values) == 2:
        a, b = part(e.values[0], "task"), part(e.values[1], "node")
        if a is not None and b is not None and _u(a) == _u(b):
            return a
    return None


def _exc_name(e) -> str | None:
    """class named by `raise X` / `raise X(...)` / isinstance's second argument"""
    if isinstance(e, ast.Call):
        e = e.func
    if isinstance(e, ast.Name):
        return e.id
    if isinstance(e, ast.Attribute):
        return e.attr
    return None


def _exc(e, where) -> tuple:
    n = _exc_name(e)
    if n not in EXC:
        raise _err(f"{where}: exception class {n!r} is not one the engine model knows ({', '.join(EXC)})")
    return (n,)


def _mark_name(call, env: Env, fname: str, allowed) -> str | None:
    """`has_mark(task, "m")` / `get_marks(task, "m")` → m"""
    if _callee(call) != fname or not isinstance(call.func, ast.Name):
        return None
    if len(call.args) != 2 or call.keywords or not _is_task(call.args[0], env):
        raise _err(f"{env.where()}: unrecognised call {_u(call)!r}")
    m = _str_const(call.args[1])
    if m not in allowed:
        raise _err(f"{env.where()}: {fname} on marker {m!r}, which the engine model does not know")
    return m


# ------------------------------------------------------------------------------------------------
# conditions of the setup implementations
# ------------------------------------------------------------------------------------------------

def _and(a, b):
    if a == ("tt",):
        return b
    if b == ("tt",):
        return a
    # any(arg[0] for arg in …) over the skipif marks is False when there is no such mark: the guard `if skipif_marks:` is redundant
    if a == ("hasSkipif",) and b == ("skipifTrue",):
        return b
    return ("and", a, b)


def _truth(sym: Sym, env: Env, src: str):
    """truthiness of a symbolic local used as a condition"""
    if sym.kind == "cond":
        return sym.val
    if sym.kind == "marks":
        return ("hasSkipif",) if sym.val == "skipif" else ("mark", (sym.val,))
    raise _err(f"{env.where()}: cannot interpret {src!r} as a condition")


def _cond(e, env: Env):
    if isinstance(e, ast.BoolOp):
        vals = [_cond(v, env) for v in e.values]
        op = "and" if isinstance(e.op, ast.And) else "or"
        out = vals[0]
        for v in vals[1:]:
            out = _and(out, v) if op == "and" else ("or", out, v)
        return out
    if isinstance(e, ast.UnaryOp) and isinstance(e.op, ast.Not):
        return ("not", _cond(e.operand, env))
    if isinstance(e, ast.Constant) and e.value is True:
        return ("tt",)
    if isinstance(e, ast.Name):
        if e.id not in env.vars:
            raise _err(f"{env.where()}: condition on unknown name {e.id!r}")
        return _truth(env.vars[e.id], env, e.id)
    if isinstance(e, ast.Call):
        m = _mark_name(e, env, "has_mark", MARKS + ["skipif"])
        if m is not None:
            return ("hasSkipif",) if m == "skipif" else ("mark", (m,))
        if _callee(e) == "is_task_generator" and len(e.args) == 1 and not e.keywords and _is_task(e.args[0], env):
            return ("generator",)
        s = _sym(e, env)
        if s.kind in ("cond", "marks"):
            return _truth(s, env, _u(e))
    k = _config_key(e, env)
    if k is not None:
        if k not in FLAGS:
            raise _err(f"{env.where()}: condition on config[{k!r}], which the engine model does not know")
        return ("flag", (k,))
    raise _err(f"{env.where()}: unrecognised condition {_u(e)!r}")


def _sym(e, env: Env) -> Sym:
    """symbolic value of an expression assigned to a local (UNKNOWN when the model does not care)"""
    if _is_task(e, env):
        return Sym("task")
    if _is_task_sig(e, env):
        return Sym("sig")
    if _is_dag(e, env):
        return Sym("dag")
    if isinstance(e, ast.Attribute) and e.attr == "config" and env.session and _is_name(e.value, env.session):
        return Sym("config")
    if isinstance(e, ast.Name) and e.id in env.vars:
        return env.vars[e.id]
    if env.report and not isinstance(e, ast.Name) and _is_exc_value(e, env):
        return Sym("excvalue")
    k = _config_key(e, env)
    if k is not None and k not in FLAGS:
        return Sym("cfgvalue", k)
    if isinstance(e, ast.Call):
        m = _mark_name(e, env, "get_marks", MARKS + ["skipif"])
        if m is not None:
            return Sym("marks", m)
        c = _callee(e)
        # all(<states>) / any(<changed …>)
        if c in ("all", "any") and isinstance(e.func, ast.Name) and len(e.args) == 1 and not e.keywords:
            a = e.args[0]
            inner = _sym(a, env) if not isinstance(a, (ast.GeneratorExp, ast.ListComp)) else _comp(a, env)
            if c == "all" and inner.kind == "states":
                return Sym("cond", ("allExist",))
            if c == "any" and inner.kind == "changedlist":
                return Sym("cond", ("anyChanged",))
            if c == "any" and inner.kind == "skipif0":
                return Sym("cond", ("skipifTrue",))
            if inner.kind in ("states", "changedlist", "skipif0", "skipifargs"):
                raise _err(f"{env.where()}: unrecognised aggregate {_u(e)!r}")
            return UNKNOWN
    if isinstance(e, (ast.ListComp, ast.GeneratorExp)):
        return _comp(e, env)
    # a Boolean expression of known conditions
    if isinstance(e, (ast.BoolOp, ast.UnaryOp, ast.Call, ast.Subscript)):
        try:
            return Sym("cond", _cond_noname(e, env))
        except _host().ExtractError:
            return UNKNOWN
    return UNKNOWN


def _cond_noname(e, env):
    # `_cond` but without recursion through `_sym` for calls (avoids a loop)
    if isinstance(e, ast.Call) and _callee(e) not in ("has_mark", "is_task_generator") and _config_key(e, env) is None:
        raise _err("not a condition")
    return _cond(e, env)


def _comp(e, env: Env) -> Sym:
    """list comprehensions / generator expressions of persist.py and skipping.py"""
    # [name for name in node_and_neighbors(dag, sig) if not isinstance(<node of name>, PProvisionalNode)]  (fix for F43: persist
    # ignores provisional products like the setup hook of execute.py). Static projects — the scope of M6 — have no provisional
    # nodes, so this is the neighbour list itself.
    if len(e.generators) == 1 and len(e.generators[0].ifs) == 1 and not e.generators[0].is_async:
        g, f = e.generators[0], e.generators[0].ifs[0]
        if _is_neighbours(g.iter, env) and isinstance(g.target, ast.Name) and _is_name(e.elt, g.target.id) \
                and isinstance(f, ast.UnaryOp) and isinstance(f.op, ast.Not) and _callee(f.operand) == "isinstance" \
                and len(f.operand.args) == 2 and _exc_name(f.operand.args[1]) == "PProvisionalNode":
            x = _node_of(f.operand.args[0], env)
            if x is not None and _is_name(x, g.target.id):
                return Sym("nbrs")
        raise _err(f"{env.where()}: unrecognised filtered comprehension: {_u(e)!r}")
    if len(e.generators) != 1 or e.generators[0].ifs or e.generators[0].is_async:
        return UNKNOWN
    g = e.generators[0]
    elt = e.elt
    # [ <node of name>.state() for name in node_and_neighbors(dag, sig) ]
    if _is_neighbours(g.iter, env) and isinstance(g.target, ast.Name):
        if isinstance(elt, ast.Call) and isinstance(elt.func, ast.Attribute) and elt.func.attr == "state" and not elt.args \
                and not elt.keywords:
            x = _node_of(elt.func.value, env)
            if x is not None and _is_name(x, g.target.id):
                return Sym("states")
        raise _err(f"{env.where()}: unrecognised comprehension over node_and_neighbors: {_u(e)!r}")
    # has_node_changed(task=task, node=<node of name>, state=state) for name, state in zip(node_and_neighbors(…), <states>)
    if _callee(g.iter) == "zip" and len(g.iter.args) == 2 and _is_neighbours(g.iter.args[0], env) \
            and _sym(g.iter.args[1], env).kind == "states" and isinstance(g.target, ast.Tuple) and len(g.target.elts) == 2 \
            and all(isinstance(t, ast.Name) for t in g.target.elts):
        nm, stv = g.target.elts[0].id, g.target.elts[1].id
        if _callee(elt) == "has_node_changed" and not elt.args:
            kw = {k.arg: k.value for k in elt.keywords}
            if set(kw) == {"task", "node", "state"} and _is_task(kw["task"], env) and _is_name(kw["state"], stv):
                x = _node_of(kw["node"], env)
                if x is not None and _is_name(x, nm):
                    return Sym("changedlist")
        raise _err(f"{env.where()}: unrecognised comprehension over zip(node_and_neighbors, states): {_u(e)!r}")
    # [skipif(*mark.args, **mark.kwargs) for mark in <skipif marks>]
    it = _sym(g.iter, env)
    if it.kind == "marks" and it.val == "skipif" and isinstance(g.target, ast.Name):
        if _callee(elt) == "skipif" and len(elt.args) == 1 and isinstance(elt.args[0], ast.Starred) \
                and _u(elt.args[0].value) == f"{g.target.id}.args" and len(elt.keywords) == 1 and elt.keywords[0].arg is None \
                and _u(elt.keywords[0].value) == f"{g.target.id}.kwargs":
            return Sym("skipifargs")
        return UNKNOWN
    # arg[0] for arg in <skipif args>
    if it.kind == "skipifargs" and isinstance(g.target, ast.Name):
        if isinstance(elt, ast.Subscript) and _is_name(elt.value, g.target.id) and isinstance(elt.slice, ast.Constant) \
                and elt.slice.value == 0:
            return Sym("skipif0")
        return UNKNOWN
    return UNKNOWN


def _check_skipif_parser():
    """`skipif(condition, *, reason)` returns `(condition, reason)`: element 0 is the condition."""
    fn = _top_func("skipping.py", "skipif")
    ps = _params(fn)
    b = _body(fn)
    if len(b) != 1 or not isinstance(b[0], ast.Return) or not isinstance(b[0].value, ast.Tuple) or not b[0].value.elts \
            or not ps or not _is_name(b[0].value.elts[0], ps[0]):
        raise _err("skipping.skipif does not return (condition, …) with its first parameter first")


# ------------------------------------------------------------------------------------------------
# pytask_execute_task_setup implementations
# ------------------------------------------------------------------------------------------------

def _lcond(e, lenv):
    env, node_var, preds_var, needs_var = lenv["env"], lenv["n"], lenv["preds"], lenv["needs"]
    lv = lenv["vars"]
    if isinstance(e, ast.BoolOp):
        vals = [_lcond(v, lenv) for v in e.values]
        op = "and" if isinstance(e.op, ast.And) else "or"
        out = vals[0]
        for v in vals[1:]:
            out = (op, out, v)
        return out
    if isinstance(e, ast.UnaryOp) and isinstance(e.op, ast.Not):
        return ("not", _lcond(e.operand, lenv))
    if isinstance(e, ast.Name):
        if e.id == needs_var:
            return ("needs",)
        s = lv.get(e.id)
        if s is not None and s.kind == "lcond":
            return s.val
        if s is not None and s.kind == "state":
            return ("hasState",)
        raise _err(f"{env.where()}: loop condition on unknown name {e.id!r}")
    if isinstance(e, ast.Compare) and len(e.ops) == 1:
        l, r, op = e.left, e.comparators[0], e.ops[0]
        if _is_name(l, node_var) and isinstance(r, ast.Name) and r.id == preds_var:
            if isinstance(op, ast.In):
                return ("inPreds",)
            if isinstance(op, ast.NotIn):
                return ("not", ("inPreds",))
        if isinstance(l, ast.Name) and lv.get(l.id, UNKNOWN).kind == "state" and isinstance(r, ast.Constant) and r.value is None:
            if isinstance(op, ast.Is):
                return ("not", ("hasState",))
            if isinstance(op, ast.IsNot):
                return ("hasState",)
    if isinstance(e, ast.Call):
        if _callee(e) == "isinstance" and len(e.args) == 2 and isinstance(e.args[0], ast.Name) \
                and lv.get(e.args[0].id, UNKNOWN).kind == "node" and _exc_name(e.args[1]) == "PProvisionalNode":
            return ("provisional",)
        s = _lsym(e, lenv)
        if s.kind == "lcond":
            return s.val
        if s.kind == "state":
            return ("hasState",)
    raise _err(f"{env.where()}: unrecognised loop condition {_u(e)!r}")


def _lsym(e, lenv) -> Sym:
    env, node_var, lv = lenv["env"], lenv["n"], lenv["vars"]
    x = _node_of(e, env)
    if x is not None:
        if _is_name(x, node_var):
            return Sym("node")
        raise _err(f"{env.where()}: node looked up for {_u(x)!r}, not for the loop variable")
    if isinstance(e, ast.Name) and e.id in lv:
        return lv[e.id]
    if isinstance(e, ast.Call) and isinstance(e.func, ast.Attribute) and e.func.attr == "state" and not e.args and not e.keywords \
            and isinstance(e.func.value, ast.Name) and lv.get(e.func.value.id, UNKNOWN).kind == "node":
        return Sym("state")
    if _callee(e) == "has_node_changed":
        kw = {k.arg: k.value for k in e.keywords}
        if not e.args and set(kw) == {"task", "node", "state"} and _is_task(kw["task"], env) \
                and isinstance(kw["node"], ast.Name) and lv.get(kw["node"].id, UNKNOWN).kind == "node" \
                and isinstance(kw["state"], ast.Name) and lv.get(kw["state"].id, UNKNOWN).kind == "state":
            return Sym("lcond", ("changed",))
        raise _err(f"{env.where()}: unrecognised call {_u(e)!r}")
    if isinstance(e, (ast.BoolOp, ast.UnaryOp, ast.Compare)):
        try:
            return Sym("lcond", _lcond(e, lenv))
        except _host().ExtractError:
            return UNKNOWN
    return UNKNOWN


def _pred_set(e, env: Env):
    """`set(dag.predecessors(sig)) | {sig}` and a few equivalent spellings → list of parts"""
    def part(x):
        if isinstance(x, ast.Call) and _callee(x) in ("set", "list", "tuple", "frozenset") and len(x.args) == 1:
            return part(x.args[0])
        if isinstance(x, ast.Call) and isinstance(x.func, ast.Attribute) and _is_dag(x.func.value, env) and len(x.args) == 1 \
                and _is_task_sig(x.args[0], env):
            if x.func.attr == "predecessors":
                return [("preds",)]
            if x.func.attr == "successors":
                return [("succs",)]
        if isinstance(x, (ast.Set, ast.List, ast.Tuple)):
            out = []
            for el in x.elts:
                if isinstance(el, ast.Starred):
                    p = part(el.value)
                    if p is None:
                        return None
                    out += p
                elif _is_task_sig(el, env):
                    out.append(("self",))
                else:
                    return None
            return out
        if isinstance(x, ast.BinOp) and isinstance(x.op, ast.BitOr):
            a, b = part(x.left), part(x.right)
            if a is None or b is None:
                return None
            return a + b
        return None
    return part(e)


def _loop_steps(loop: ast.For, env: Env, needs_var: str, preds_var: str):
    if loop.orelse:
        raise _err(f"{env.where()}: the loop over node_and_neighbors has an else clause")
    if not isinstance(loop.target, ast.Name) or not _is_neighbours(loop.iter, env):
        raise _err(f"{env.where()}: the setup loop does not iterate `for <name> in node_and_neighbors(dag, task.signature)`")
    lenv = {"env": env, "n": loop.target.id, "preds": preds_var, "needs": needs_var, "vars": {}}
    steps = []

    def acts_of(stmts, cond):
        """statements of an `if` body → list of LAct; nested ifs become steps of their own under the conjunction"""
        acts = []
        for i, st in enumerate(stmts):
            if isinstance(st, ast.Break):
                acts.append(("brk",)); break
            if isinstance(st, ast.Continue):
                acts.append(("cont",)); break
            if isinstance(st, ast.Raise):
                acts.append(("raise", _exc(st.exc, env.where()))); break
            if isinstance(st, ast.Assign) and len(st.targets) == 1 and _is_name(st.targets[0], needs_var):
                if isinstance(st.value, ast.Constant) and st.value.value is True:
                    acts.append(("setNeeds",)); continue
                raise _err(f"{env.where()}: {needs_var} is assigned {_u(st.value)!r} inside the loop")
            if _inert(st, {needs_var, lenv['n'], preds_var} | set(lenv["vars"])):
                continue
            raise _err(f"{env.where()}: unrecognised statement in a loop branch: {_u(st).splitlines()[0]!r}")
        return acts

    for st in loop.body:
        if isinstance(st, ast.If):
            if st.orelse:
                raise _err(f"{env.where()}: loop `if` with else/elif: {_u(st.test)!r}")
            c = _lcond(st.test, lenv)
            acts = acts_of(st.body, c)
            if acts:
                steps.append((c, acts))
            continue
        if isinstance(st, ast.Assign) and len(st.targets) == 1 and isinstance(st.targets[0], ast.Name):
            nm = st.targets[0].id
            if nm == needs_var:
                raise _err(f"{env.where()}: unconditional assignment to {needs_var} inside the loop")
            if nm in (lenv["n"], preds_var):
                raise _err(f"{env.where()}: the loop re-binds {nm}")
            s = _lsym(st.value, lenv)
            if s.kind == "unknown" and nm in lenv["vars"]:
                raise _err(f"{env.where()}: {nm} is re-bound to something unrecognised")
            if s.kind != "unknown":
                lenv["vars"][nm] = s
                continue
        if isinstance(st, (ast.Break, ast.Continue, ast.Raise)):
            steps.append((("tt",), acts_of([st], ("tt",))))
            break
        if _inert(st, {needs_var, lenv["n"], preds_var} | set(lenv["vars"])):
            continue
        raise _err(f"{env.where()}: unrecognised loop statement {_u(st).splitlines()[0]!r}")
    return steps


def _setup_impl(modname: str):
    fn = _top_func(modname, "pytask_execute_task_setup", required=False)
    if fn is None:
        return None
    env = Env(fn, modname)
    if env.task is None or env.session is None:
        raise _err(f"{env.where()}: parameters are not (session, task)")
    steps = []
    state = {"needs": None, "preds": None, "scanned": False}

    def find_needs_var(loop):
        names = set()
        for n in _walk_no_nested(loop):
            if isinstance(n, ast.Assign) and len(n.targets) == 1 and isinstance(n.targets[0], ast.Name) \
                    and isinstance(n.value, ast.Constant) and n.value.value is True:
                names.add(n.targets[0].id)
        names = {n for n in names if env.vars.get(n, UNKNOWN).kind == "cond"}
        if len(names) != 1:
            raise _err(f"{env.where()}: cannot identify the `needs_to_be_executed` flag of the loop (candidates {sorted(names)})")
        return names.pop()

    def walk(stmts, guard):
        for st in stmts:
            if isinstance(st, ast.Raise):
                steps.append(("raiseIf", guard, _exc(st.exc, env.where())))
                return
            if isinstance(st, ast.If) and _inert(st, {k for k, v in env.vars.items() if v.kind != "unknown"}):
                continue
            if isinstance(st, ast.If):
                c = _cond(st.test, env)
                walk(st.body, _and(guard, c))
                if st.orelse:
                    walk(st.orelse, _and(guard, ("not", c)))
                continue
            if isinstance(st, ast.Assign) and len(st.targets) == 1 and isinstance(st.targets[0], ast.Name):
                nm = st.targets[0].id
                ps = _pred_set(st.value, env)
                if ps is not None:
                    env.vars[nm] = Sym("predset", ps)
                    continue
                s = _sym(st.value, env)
                if s.kind == "unknown" and env.vars.get(nm, UNKNOWN).kind != "unknown":
                    raise _err(f"{env.where()}: {nm} is re-bound to something unrecognised")
                if nm == state["needs"]:
                    raise _err(f"{env.where()}: {nm} is re-assigned after the loop")
                env.vars[nm] = s
                continue
            if isinstance(st, ast.For) and not _inert(st, set(env.vars)):
                if state["scanned"]:
                    raise _err(f"{env.where()}: more than one loop with control flow")
                needs_var = find_needs_var(st)
                preds = [k for k, v in env.vars.items() if v.kind == "predset"]
                if len(preds) != 1:
                    raise _err(f"{env.where()}: cannot identify the predecessor set of the loop")
                init = env.vars[needs_var].val
                steps.append(("scan", init, guard, [p for p in env.vars[preds[0]].val], _loop_steps(st, env, needs_var, preds[0])))
                env.vars[needs_var] = Sym("cond", ("needs",))
                state["needs"] = needs_var
                state["scanned"] = True
                continue
            if _inert(st, {k for k, v in env.vars.items() if v.kind != "unknown"}):
                continue
            raise _err(f"{env.where()}: unrecognised statement {_u(st).splitlines()[0]!r}")

    walk(_body(fn), ("tt",))

    def check(c):
        if c[0] == "hasSkipif":
            raise _err(f"{env.where()}: a guard depends on the mere presence of a skipif mark, which the model cannot express")
        for x in c[1:]:
            if isinstance(x, tuple) and x and isinstance(x[0], str) and x[0] in ("not", "and", "or", "hasSkipif", "mark", "flag"):
                if x[0] in ("not", "and", "or", "hasSkipif"):
                    check(x)
    for s in steps:
        check(s[1])
        if s[0] == "scan":
            check(s[2])
    if any(("needs",) == c for s in steps if s[0] == "raiseIf" for c in _atoms(s[1])) and not state["scanned"]:
        raise _err(f"{env.where()}: `needs` used without a scan loop")
    return steps


def _atoms(c):
    if c[0] in ("not", "and", "or"):
        for x in c[1:]:
            yield from _atoms(x)
    else:
        yield c


def _render_setup(name, steps) -> str:
    out = []
    for s in steps:
        if s[0] == "raiseIf":
            out.append(f"(.raiseIf {_lean(s[1])} {_lean(s[2])})")
        else:
            lsteps = "[" + ", ".join(_struct(c, acts) for c, acts in s[4]) + "]"
            out.append(f"(.scan {_lean(s[1])} {_lean(s[2])} {_lean(s[3])} {lsteps})")
    return "⟨" + _host().lean_str(name) + ", [" + ", ".join(out) + "]⟩"


# ------------------------------------------------------------------------------------------------
# pytask_execute_task_process_report implementations
# ------------------------------------------------------------------------------------------------

def _is_report_attr(e, env: Env, attr: str) -> bool:
    return isinstance(e, ast.Attribute) and e.attr == attr and env.report and _is_name(e.value, env.report)


def _is_exc_value(e, env: Env) -> bool:
    """`report.exc_info[1]` (or a local bound to it)"""
    if isinstance(e, ast.Name):
        return env.vars.get(e.id, UNKNOWN).kind == "excvalue"
    return isinstance(e, ast.Subscript) and _is_report_attr(e.value, env, "exc_info") and isinstance(e.slice, ast.Constant) \
        and e.slice.value == 1


def _outcome_member(e, where) -> tuple | None:
    if isinstance(e, ast.Attribute) and isinstance(e.value, ast.Name) and e.value.id == "TaskOutcome":
        if e.attr not in OUT:
            raise _err(f"{where}: unknown outcome TaskOutcome.{e.attr}")
        return (e.attr,)
    return None


def _rtest(e, env: Env):
    if isinstance(e, ast.BoolOp):
        vals = [_rtest(v, env) for v in e.values]
        op = "and" if isinstance(e.op, ast.And) else "or"
        out = vals[0]
        for v in vals[1:]:
            out = (op, out, v)
        return out
    if isinstance(e, ast.UnaryOp) and isinstance(e.op, ast.Not):
        return ("not", _rtest(e.operand, env))
    if _is_report_attr(e, env, "exc_info"):
        return ("hasExc",)
    if isinstance(e, ast.Compare) and len(e.ops) == 1 and isinstance(e.ops[0], (ast.Eq, ast.Is, ast.NotEq, ast.IsNot)):
        l, r = e.left, e.comparators[0]
        for a, b in ((l, r), (r, l)):
            o = _outcome_member(b, env.where())
            if _is_report_attr(a, env, "outcome") and o is not None:
                t = ("outcomeIs", o)
                return t if isinstance(e.ops[0], (ast.Eq, ast.Is)) else ("not", t)
            if _is_report_attr(a, env, "exc_info") and isinstance(b, ast.Constant) and b.value is None:
                return ("not", ("hasExc",)) if isinstance(e.ops[0], (ast.Eq, ast.Is)) else ("hasExc",)
    if _callee(e) == "isinstance" and len(e.args) == 2 and _is_exc_value(e.args[0], env):
        return ("excIs", _exc(e.args[1], env.where()))
    if _callee(e) == "is_task_generator" and len(e.args) == 1 and _is_task(e.args[0], env):
        return ("generator",)
    if isinstance(e, ast.Name) and env.vars.get(e.id, UNKNOWN).kind == "rtest":
        return env.vars[e.id].val
    raise _err(f"{env.where()}: unrecognised report test {_u(e)!r}")


def _rand(a, b):
    if a == ("tt",):
        return b
    return ("and", a, b)


CMP = {ast.GtE: "ge", ast.Gt: "gt", ast.LtE: "le", ast.Lt: "lt", ast.Eq: "eq", ast.NotEq: "ne"}
CMP_FLIP = {"ge": "le", "gt": "lt", "le": "ge", "lt": "gt", "eq": "eq", "ne": "ne"}
SETFN = {"descending_tasks": "descendants", "task_and_descending_tasks": "selfAndDescendants",
         "preceding_tasks": "ancestors", "task_and_preceding_tasks": "selfAndAncestors"}


def _mark_loop(st: ast.For, env: Env):
    """for n in descending_tasks(task.signature, session.dag): t = session.dag.nodes[n]["task"]; t.markers.append(Mark("m", …))"""
    w = env.where()
    if st.orelse or not isinstance(st.target, ast.Name):
        raise _err(f"{w}: unrecognised marking loop")
    it = st.iter
    fn = _callee(it)
    if fn not in SETFN or not isinstance(it.func, ast.Name) or it.keywords or len(it.args) != 2 \
            or not _is_task_sig(it.args[0], env) or not _is_dag(it.args[1], env):
        raise _err(f"{w}: marking loop iterates {_u(it)!r}, not descending_tasks(task.signature, session.dag) or a sibling")
    var = st.target.id
    tvar = None
    mark = None
    for s in st.body:
        if isinstance(s, ast.Assign) and len(s.targets) == 1 and isinstance(s.targets[0], ast.Name) and tvar is None:
            v = s.value
            if isinstance(v, ast.Subscript) and _str_const(v.slice) == "task" and isinstance(v.value, ast.Subscript) \
                    and _is_name(v.value.slice, var) and isinstance(v.value.value, ast.Attribute) and v.value.value.attr == "nodes" \
                    and _is_dag(v.value.value.value, env):
                tvar = s.targets[0].id
                continue
        if isinstance(s, ast.Expr) and _callee(s.value) == "append" and isinstance(s.value.func.value, ast.Attribute) \
                and s.value.func.value.attr == "markers" and mark is None and len(s.value.args) == 1:
            tgt = s.value.func.value.value
            ok = (tvar is not None and _is_name(tgt, tvar))
            if not ok:
                # session.dag.nodes[n]["task"].markers.append(…) without the helper variable
                ok = (isinstance(tgt, ast.Subscript) and _str_const(tgt.slice) == "task" and isinstance(tgt.value, ast.Subscript)
                      and _is_name(tgt.value.slice, var))
            m = s.value.args[0]
            if ok and _callee(m) == "Mark" and m.args and _str_const(m.args[0]) is not None:
                mark = _str_const(m.args[0])
                if mark not in DYNMARKS:
                    raise _err(f"{w}: marks {mark!r}, which the engine model does not track")
                continue
        raise _err(f"{w}: unrecognised statement in a marking loop: {_u(s).splitlines()[0]!r}")
    if mark is None:
        raise _err(f"{w}: marking loop appends no Mark")
    return ("mark", (mark,), (SETFN[fn],))


def _racts(stmts, env: Env):
    """statements of an arm → (acts, end)"""
    w = env.where()
    acts = []
    end = ("fall",)
    for i, st in enumerate(stmts):
        if isinstance(st, ast.Return):
            if i != len(stmts) - 1:
                raise _err(f"{w}: statements after a return")
            end = _ret(st, w)
            break
        if isinstance(st, ast.Assign) and len(st.targets) == 1 and _is_report_attr(st.targets[0], env, "outcome"):
            o = _outcome_member(st.value, w)
            if o is None:
                raise _err(f"{w}: report.outcome = {_u(st.value)!r}")
            acts.append(("setOutcome", o)); continue
        if isinstance(st, ast.Expr) and _callee(st.value) == "update_states_in_database":
            c = st.value
            if len(c.args) != 2 or c.keywords or not _is_name(c.args[0], env.session or "") or not _is_task_sig(c.args[1], env):
                raise _err(f"{w}: unrecognised call {_u(c)!r}")
            acts.append(("updateStates",)); continue
        if isinstance(st, ast.For) and not _inert(st):
            acts.append(_mark_loop(st, env)); continue
        if isinstance(st, ast.AugAssign) and isinstance(st.target, ast.Attribute) and st.target.attr == "n_tasks_failed":
            if not (isinstance(st.op, ast.Add) and isinstance(st.value, ast.Constant) and st.value.value == 1
                    and _is_name(st.target.value, env.session or "")):
                raise _err(f"{w}: unrecognised update {_u(st)!r}")
            acts.append(("incFailed",)); continue
        if isinstance(st, ast.If) and not _inert(st):
            # if session.n_tasks_failed >= session.config["max_failures"]: session.should_stop = True
            if st.orelse or len(st.body) != 1 or not _sets_stop(st.body[0], env):
                raise _err(f"{w}: unrecognised conditional effect {_u(st).splitlines()[0]!r}")
            t = st.test
            if isinstance(t, ast.Compare) and len(t.ops) == 1 and type(t.ops[0]) in CMP:
                l, r = t.left, t.comparators[0]
                op = CMP[type(t.ops[0])]
                def is_n(x): return isinstance(x, ast.Attribute) and x.attr == "n_tasks_failed" and _is_name(x.value, env.session or "")
                def is_m(x): return _config_key(x, env) == "max_failures" or (
                    isinstance(x, ast.Name) and env.vars.get(x.id, UNKNOWN).kind == "cfgvalue" and env.vars[x.id].val == "max_failures")
                if is_n(l) and is_m(r):
                    acts.append(("stopIf", (op,))); continue
                if is_m(l) and is_n(r):
                    acts.append(("stopIf", (CMP_FLIP[op],))); continue
            acts.append(("stopIfTest", _rtest(t, env))); continue
        if _sets_stop(st, env):
            acts.append(("stopIfTest", ("tt",))); continue
        if isinstance(st, ast.Assign) and len(st.targets) == 1 and isinstance(st.targets[0], ast.Name) and _inert(st):
            s = _sym(st.value, env)
            if s.kind != "unknown" or env.vars.get(st.targets[0].id, UNKNOWN).kind != "unknown":
                env.vars[st.targets[0].id] = s
            continue
        if _inert(st):
            continue
        raise _err(f"{w}: unrecognised statement {_u(st).splitlines()[0]!r}")
    return acts, end


def _sets_stop(st, env: Env) -> bool:
    return (isinstance(st, ast.Assign) and len(st.targets) == 1 and isinstance(st.targets[0], ast.Attribute)
            and st.targets[0].attr == "should_stop" and _is_name(st.targets[0].value, env.session or "")
            and isinstance(st.value, ast.Constant) and st.value.value is True)


def _ret(st: ast.Return, where):
    if st.value is None or (isinstance(st.value, ast.Constant) and st.value.value is None):
        return ("retNone",)
    if isinstance(st.value, ast.Constant) and st.value.value is True:
        return ("retTrue",)
    raise _err(f"{where}: unrecognised return value {_u(st.value)!r}")


def _report_impl(modname: str):
    fn = _top_func(modname, "pytask_execute_task_process_report", required=False)
    if fn is None:
        return None
    env = Env(fn, modname)
    if env.report is None:
        raise _err(f"{env.where()}: no `report` parameter")
    chains = []
    final = ("retNone",)

    def chain_of(st: ast.If, guard):
        """if / elif / else → list of arms; an `if g:` whose body consists of ifs only is flattened (conjunction)"""
        arms = []
        cur = st
        while True:
            t = _rand(guard, _rtest(cur.test, env))
            acts, end = _racts(cur.body, env)
            arms.append((t, acts, end))
            if len(cur.orelse) == 1 and isinstance(cur.orelse[0], ast.If):
                cur = cur.orelse[0]
                continue
            if cur.orelse:
                acts, end = _racts(cur.orelse, env)
                arms.append((_rand(guard, ("tt",)) if guard == ("tt",) else guard, acts, end))
            break
        return arms

    stmts = _body(fn)
    for i, st in enumerate(stmts):
        if isinstance(st, ast.Return):
            if i != len(stmts) - 1:
                raise _err(f"{env.where()}: statements after the final return")
            final = _ret(st, env.where())
            break
        if isinstance(st, ast.If) and not _inert(st):
            inner = [s for s in st.body if not _inert(s)]
            if not st.orelse and inner and all(isinstance(s, ast.If) for s in inner) and len(inner) == len(st.body):
                # wrapper `if report.exc_info:` around independent ifs
                g = _rtest(st.test, env)
                for s in inner:
                    chains.append(chain_of(s, g))
            else:
                chains.append(chain_of(st, ("tt",)))
            continue
        if isinstance(st, ast.Assign) and len(st.targets) == 1 and isinstance(st.targets[0], ast.Name) and _inert(st):
            s = _sym(st.value, env)
            nm = st.targets[0].id
            if s.kind == "unknown":
                try:
                    s = Sym("rtest", _rtest(st.value, env))
                except _host().ExtractError:
                    s = UNKNOWN
            if s.kind != "unknown" or env.vars.get(nm, UNKNOWN).kind != "unknown":
                env.vars[nm] = s
            continue
        if _inert(st):
            continue
        # unconditional effects form a chain with the single arm `tt`
        acts, end = _racts([st], env)
        chains.append([(("tt",), acts, end)])
        if end != ("fall",):
            break
    return chains, final


def _render_report(name, chains, final) -> str:
    cs = "[" + ", ".join("[" + ", ".join(_struct(t, acts, end) for t, acts, end in arms) + "]" for arms in chains) + "]"
    return "⟨" + _host().lean_str(name) + ", " + cs + ", " + _lean(final) + "⟩"


# ------------------------------------------------------------------------------------------------
# dag_utils / database_utils
# ------------------------------------------------------------------------------------------------

def _neighbour_order():
    fn = _top_func("dag_utils.py", "node_and_neighbors")
    ps = _params(fn)
    if len(ps) != 2:
        raise _err("node_and_neighbors: expected parameters (dag, node)")
    dag, node = ps
    b = [s for s in _body(fn)]
    if len(b) != 1 or not isinstance(b[0], ast.Return):
        raise _err("node_and_neighbors is not a single return")
    call = b[0].value
    parts = None
    if isinstance(call, ast.Call) and _callee(call) == "chain" and not call.keywords:
        parts = call.args
    elif isinstance(call, (ast.List, ast.Tuple)) and all(isinstance(e, ast.Starred) or True for e in call.elts):
        parts = [e.value if isinstance(e, ast.Starred) else ast.List(elts=[e], ctx=ast.Load()) for e in call.elts]
    if parts is None:
        raise _err(f"node_and_neighbors returns {_u(call)!r}, not itertools.chain(…)")
    out = []
    for a in parts:
        if isinstance(a, ast.Call) and isinstance(a.func, ast.Attribute) and _is_name(a.func.value, dag) and len(a.args) == 1 \
                and _is_name(a.args[0], node) and a.func.attr in ("predecessors", "successors"):
            out.append(("preds",) if a.func.attr == "predecessors" else ("succs",))
        elif isinstance(a, (ast.List, ast.Tuple)) and len(a.elts) == 1 and _is_name(a.elts[0], node):
            out.append(("self",))
        else:
            raise _err(f"node_and_neighbors: unrecognised part {_u(a)!r}")
    return out


def _descending_shape():
    """descending_tasks: `for d in nx.descendants(dag, task_name): if "task" in dag.nodes[d]: yield d` (and the siblings)"""
    want = {"descending_tasks": ("descendants", False), "preceding_tasks": ("ancestors", False),
            "task_and_descending_tasks": ("descending_tasks", True), "task_and_preceding_tasks": ("preceding_tasks", True)}
    for name, (inner, with_self) in want.items():
        fn = _top_func("dag_utils.py", name)
        ps = _params(fn)
        if len(ps) != 2:
            raise _err(f"{name}: expected (task_name, dag)")
        tn, dag = ps
        b = _body(fn)
        if with_self:
            ok = (len(b) == 2 and isinstance(b[0], ast.Expr) and isinstance(b[0].value, ast.Yield) and _is_name(b[0].value.value, tn)
                  and isinstance(b[1], ast.Expr) and isinstance(b[1].value, ast.YieldFrom) and _callee(b[1].value.value) == inner
                  and [_u(a) for a in b[1].value.value.args] == [tn, dag])
        else:
            ok = False
            if len(b) == 1 and isinstance(b[0], ast.For) and isinstance(b[0].target, ast.Name) and not b[0].orelse:
                f = b[0]
                d = f.target.id
                it_ok = _callee(f.iter) == inner and [_u(a) for a in f.iter.args] == [dag, tn] and not f.iter.keywords
                body_ok = (len(f.body) == 1 and isinstance(f.body[0], ast.If) and not f.body[0].orelse
                           and _u(f.body[0].test) == f"'task' in {dag}.nodes[{d}]" and len(f.body[0].body) == 1
                           and isinstance(f.body[0].body[0], ast.Expr) and isinstance(f.body[0].body[0].value, ast.Yield)
                           and _is_name(f.body[0].body[0].value.value, d))
                ok = it_ok and body_ok
        if not ok:
            raise _err(f"dag_utils.{name} does not have the recognised shape (tasks among nx.{inner})")


def _has_changed_cases():
    fn = _top_func("database_utils.py", "has_node_changed")
    ps = _params(fn)
    if ps != ["task", "node", "state"]:
        raise _err(f"has_node_changed: parameters {ps}")
    cases = []
    row = None
    for st in _body(fn):
        if isinstance(st, ast.If):
            t = st.test
            if st.orelse or len(st.body) != 1 or not isinstance(st.body[0], ast.Return) \
                    or not isinstance(st.body[0].value, ast.Constant) or not isinstance(st.body[0].value.value, bool):
                raise _err(f"has_node_changed: unrecognised branch {_u(st).splitlines()[0]!r}")
            r = st.body[0].value.value
            what = None
            if isinstance(t, ast.Compare) and len(t.ops) == 1 and isinstance(t.ops[0], ast.Is) \
                    and isinstance(t.comparators[0], ast.Constant) and t.comparators[0].value is None and isinstance(t.left, ast.Name):
                what = t.left.id
            elif isinstance(t, ast.UnaryOp) and isinstance(t.op, ast.Not) and isinstance(t.operand, ast.Name):
                what = t.operand.id
            if what == "state":
                cases.append(("stateNone", r))
            elif what is not None and what == row:
                cases.append(("rowNone", r))
            else:
                raise _err(f"has_node_changed: unrecognised test {_u(t)!r}")
            continue
        if isinstance(st, ast.With):
            # with DatabaseSession() as s: row = s.get(State, (task.signature, node.signature))
            ok = (len(st.items) == 1 and _callee(st.items[0].context_expr) == "DatabaseSession"
                  and isinstance(st.items[0].optional_vars, ast.Name) and len(st.body) == 1
                  and isinstance(st.body[0], ast.Assign) and len(st.body[0].targets) == 1
                  and isinstance(st.body[0].targets[0], ast.Name))
            if ok:
                s = st.items[0].optional_vars.id
                v = st.body[0].value
                ok = (_callee(v) == "get" and _is_name(v.func.value, s) and len(v.args) == 2 and _u(v.args[0]) == "State"
                      and _u(v.args[1]) == "(task.signature, node.signature)")
            if not ok or row is not None:
                raise _err("has_node_changed: unrecognised database lookup")
            row = st.body[0].targets[0].id
            continue
        if isinstance(st, ast.Return):
            v = st.value
            if isinstance(v, ast.Compare) and len(v.ops) == 1 and row is not None:
                l, r = _u(v.left), _u(v.comparators[0])
                if {l, r} == {"state", f"{row}.hash_"}:
                    if isinstance(v.ops[0], ast.NotEq):
                        cases.append(("compareNe",)); break
                    if isinstance(v.ops[0], ast.Eq):
                        cases.append(("compareEq",)); break
            raise _err(f"has_node_changed: unrecognised return {_u(st)!r}")
        if _inert(st, {"state", row or ""}):
            continue
        raise _err(f"has_node_changed: unrecognised statement {_u(st).splitlines()[0]!r}")
    if not cases or cases[-1][0] not in ("compareNe", "compareEq"):
        raise _err("has_node_changed does not end with a comparison of the state with the recorded hash")
    return cases


def _update_skips_dry():
    fn = _top_func("database_utils.py", "update_states_in_database")
    env = Env(fn, "database_utils.py")
    b = _body(fn)
    for i, st in enumerate(b):
        if isinstance(st, ast.If) and not st.orelse and len(st.body) == 1 and isinstance(st.body[0], ast.Return) \
                and st.body[0].value is None and _config_key(st.test, env) == "dry_run":
            if any(not _inert(x) for x in b[:i]):
                raise _err("update_states_in_database: effects before the dry-run guard")
            return True
        if isinstance(st, ast.If) and "dry_run" in _u(st.test):
            raise _err(f"update_states_in_database: unrecognised dry-run guard {_u(st.test)!r}")
    if "dry_run" in _u(fn):
        raise _err("update_states_in_database mentions dry_run in an unrecognised way")
    return False


def _update_rows():
    """`update_states_in_database` / `_create_or_update_state`: one upsert per element of `node_and_neighbors(session.dag,
    task_signature)`, keyed (task signature, node signature), storing `node.state()` in the NOT NULL column `hash_`.
    (That all rows form ONE transaction is the fact `rowsSingleTransaction` of the section extract_crash — not repeated here.)"""
    X = _host()
    fn = _top_func("database_utils.py", "update_states_in_database")
    if _params(fn) != ["session", "task_signature"]:
        raise _err(f"update_states_in_database has parameters {_params(fn)}")
    env = Env(fn, "database_utils.py")
    env.vars["task_signature"] = Sym("sig")
    loops = [n for n in _walk_no_nested(fn) if isinstance(n, ast.For)]
    if len(loops) != 1 or not isinstance(loops[0].target, ast.Name) or loops[0].orelse:
        raise _err("update_states_in_database: expected exactly one loop")
    loop = loops[0]
    it = loop.iter
    if not (_callee(it) == "node_and_neighbors" and len(it.args) == 2 and _is_dag(it.args[0], env) and _is_name(it.args[1], "task_signature")):
        raise _err(f"update_states_in_database loops over {_u(it)!r}, not node_and_neighbors(session.dag, task_signature)")
    n = loop.target.id
    node = state = None
    key = None
    for st in loop.body:
        if isinstance(st, ast.Assign) and len(st.targets) == 1 and isinstance(st.targets[0], ast.Name):
            x = _node_of(st.value, env)
            if x is not None and _is_name(x, n):
                node = st.targets[0].id; continue
            if node and _u(st.value) == f"{node}.state()":
                state = st.targets[0].id; continue
        if isinstance(st, ast.Expr) and _callee(st.value) == "_create_or_update_state" and key is None:
            c = st.value
            if len(c.args) != 4 or c.keywords or not node:
                raise _err(f"update_states_in_database: unrecognised call {_u(c)!r}")
            a = [_u(x) for x in c.args[1:]]
            val_ok = (state and a[2] == state) or a[2] == f"{node}.state()"
            if not val_ok:
                raise _err(f"update_states_in_database stores {a[2]!r}, not the node's state")
            names = {"task_signature": "task", f"{node}.signature": "node", n: "node"}
            if a[0] not in names or a[1] not in names or names[a[0]] == names[a[1]]:
                raise _err(f"update_states_in_database: unrecognised row key ({a[0]}, {a[1]})")
            key = [names[a[0]], names[a[1]]]
            continue
        if _inert(st, {n, node or "", state or ""}):
            continue
        raise _err(f"update_states_in_database: unrecognised statement in the loop: {_u(st).splitlines()[0]!r}")
    if key is None:
        raise _err("update_states_in_database does not call _create_or_update_state in its loop")
    # the upsert helper
    up = _top_func("database_utils.py", "_create_or_update_state")
    ps = _params(up)
    if len(ps) != 4:
        raise _err("_create_or_update_state: expected (session, first_key, second_key, hash_)")
    sess, k1, k2, hv = ps
    row = None
    adds = overwrites = False
    for st in _body(up):
        if isinstance(st, ast.Assign) and len(st.targets) == 1 and isinstance(st.targets[0], ast.Name) and row is None \
                and _u(st.value) == f"{sess}.get(State, ({k1}, {k2}))":
            row = st.targets[0].id
            continue
        if isinstance(st, ast.If) and row and st.orelse:
            absent_first = _u(st.test) in (f"not {row}", f"{row} is None")
            present_first = _u(st.test) in (row, f"{row} is not None")
            if not (absent_first or present_first):
                raise _err(f"_create_or_update_state: unrecognised test {_u(st.test)!r}")
            absent, present = (st.body, st.orelse) if absent_first else (st.orelse, st.body)
            adds = len(absent) == 1 and _u(absent[0]) == f"{sess}.add(State(task={k1}, node={k2}, hash_={hv}))"
            overwrites = len(present) == 1 and _u(present[0]) == f"{row}.hash_ = {hv}"
            if (not adds and not all(_inert(x) and "add" not in _u(x) for x in absent)) or \
                    (not overwrites and not all(_inert(x) and ".hash_" not in _u(x) for x in present)):
                raise _err("_create_or_update_state: unrecognised branch bodies")
            continue
        if _inert(st, {row or ""}) and "add(" not in _u(st) and ".hash_" not in _u(st):
            continue
        raise _err(f"_create_or_update_state: unrecognised statement {_u(st).splitlines()[0]!r}")
    if row is None:
        raise _err("_create_or_update_state does not look the row up with session.get(State, (first_key, second_key))")
    # the table: (task, node) primary key, hash_ NOT NULL
    mod = X._parse("database_utils.py")
    cls = [c for c in mod.body if isinstance(c, ast.ClassDef) and c.name == "State"]
    if len(cls) != 1:
        raise _err("class State not found")
    cols = {s.target.id: (_u(s.annotation), _u(s.value) if s.value else "") for s in cls[0].body
            if isinstance(s, ast.AnnAssign) and isinstance(s.target, ast.Name)}
    if set(cols) != {"task", "node", "hash_"} or cols["hash_"][0] != "Mapped[str]" or "nullable" in cols["hash_"][1] \
            or any("primary_key=True" not in cols[c][1] for c in ("task", "node")) or "primary_key" in cols["hash_"][1]:
        raise _err(f"State columns {cols} are not task/node (primary key) and hash_: Mapped[str] (NOT NULL)")
    return key, adds, overwrites


# ------------------------------------------------------------------------------------------------
# execute.py: build loop, protocol, pytask_execute_task, teardown
# ------------------------------------------------------------------------------------------------

def _build_loop():
    fn = _top_func("execute.py", "pytask_execute_build")
    env = Env(fn, "execute.py")
    b = _body(fn)
    # optional wrapper `if isinstance(session.scheduler, TopologicalSorter):` … `return None`
    if len(b) >= 1 and isinstance(b[0], ast.If) and _callee(b[0].test) == "isinstance" and "scheduler" in _u(b[0].test):
        rest = b[1:]
        if b[0].orelse or any(not (isinstance(s, ast.Return) and _ret(s, env.where()) == ("retNone",)) for s in rest):
            raise _err("pytask_execute_build: unrecognised statements around the scheduler check")
        b = b[0].body
    loops = [s for s in b if isinstance(s, ast.While)]
    if len(loops) != 1 or loops[0].orelse:
        raise _err("pytask_execute_build: expected exactly one while loop")
    loop = loops[0]
    for s in b:
        if s is loop:
            continue
        if isinstance(s, ast.Return) and s is b[-1]:
            continue
        if not _inert(s):
            raise _err(f"pytask_execute_build: unrecognised statement {_u(s).splitlines()[0]!r}")
    t = loop.test
    if not (_callee(t) == "is_active" and not t.args and _u(t.func.value) == "session.scheduler"):
        raise _err(f"pytask_execute_build: loop condition {_u(t)!r} is not session.scheduler.is_active()")
    ops = [("whileActive",)]
    name_var = task_var = report_var = None
    for st in loop.body:
        if isinstance(st, ast.Assign) and len(st.targets) == 1 and isinstance(st.targets[0], ast.Name):
            v, nm = st.value, st.targets[0].id
            # <name> = session.scheduler.get_ready()[0]
            if isinstance(v, ast.Subscript) and _callee(v.value) == "get_ready":
                c = v.value
                n_ok = (not c.args and not c.keywords) or (len(c.args) == 1 and isinstance(c.args[0], ast.Constant) and c.args[0].value == 1)
                if not (n_ok and isinstance(v.slice, ast.Constant) and v.slice.value == 0 and _u(c.func.value) == "session.scheduler"):
                    raise _err(f"pytask_execute_build: unrecognised pick {_u(v)!r}")
                name_var = nm
                ops.append(("pickFirstReady",)); continue
            if name_var and _u(v) == f"session.dag.nodes[{name_var}]['task']":
                task_var = nm; continue
            if _callee(v) == "pytask_execute_task_protocol":
                kw = {k.arg: _u(k.value) for k in v.keywords}
                if v.args or kw != {"session": "session", "task": task_var}:
                    raise _err(f"pytask_execute_build: unrecognised protocol call {_u(v)!r}")
                report_var = nm
                ops.append(("protocol",)); continue
        if isinstance(st, ast.Expr) and _callee(st.value) == "append" and _u(st.value.func.value) == "session.execution_reports":
            if len(st.value.args) != 1 or not _is_name(st.value.args[0], report_var or ""):
                raise _err("pytask_execute_build: something other than the protocol's report is appended")
            ops.append(("appendReport",)); continue
        if isinstance(st, ast.Expr) and _callee(st.value) == "done" and _u(st.value.func.value) == "session.scheduler":
            if len(st.value.args) != 1 or not _is_name(st.value.args[0], name_var or ""):
                raise _err("pytask_execute_build: done() is not called with the picked task")
            ops.append(("done",)); continue
        if isinstance(st, ast.If) and _u(st.test) == "session.should_stop" and not st.orelse and len(st.body) == 1 \
                and (isinstance(st.body[0], ast.Break) or (isinstance(st.body[0], ast.Return))):
            ops.append(("breakIfStop",)); continue
        if _inert(st, {x for x in (name_var, task_var, report_var) if x}):
            continue
        raise _err(f"pytask_execute_build: unrecognised loop statement {_u(st).splitlines()[0]!r}")
    return ops


def _protocol():
    fn = _top_func("execute.py", "pytask_execute_task_protocol")
    env = Env(fn, "execute.py")
    b = _body(fn)
    tries = [s for s in b if isinstance(s, ast.Try)]
    if len(tries) != 1 or tries[0].finalbody:
        raise _err("pytask_execute_task_protocol: expected exactly one try without finally")
    tr = tries[0]
    phases = []
    known = {"pytask_execute_task_setup": "setup", "pytask_execute_task": "execute", "pytask_execute_task_teardown": "teardown"}
    for st in tr.body:
        c = st.value if isinstance(st, ast.Expr) else None
        if c is not None and _callee(c) in known and _u(c.func.value) == "session.hook":
            kw = {k.arg: _u(k.value) for k in c.keywords}
            if c.args or kw != {"session": "session", "task": "task"}:
                raise _err(f"pytask_execute_task_protocol: unrecognised hook call {_u(c)!r}")
            phases.append(known[_callee(c)]); continue
        if _inert(st):
            continue
        raise _err(f"pytask_execute_task_protocol: unrecognised statement in try: {_u(st).splitlines()[0]!r}")
    report_var = None

    def report_assign(stmts, ctor):
        nonlocal report_var
        found = False
        for st in stmts:
            if isinstance(st, ast.Assign) and len(st.targets) == 1 and isinstance(st.targets[0], ast.Name) \
                    and isinstance(st.value, ast.Call) and _u(st.value.func) == f"ExecutionReport.{ctor}":
                if report_var not in (None, st.targets[0].id):
                    raise _err("pytask_execute_task_protocol: the branches bind different report variables")
                report_var = st.targets[0].id
                found = True
        return found

    handlers = []
    for h in tr.handlers:
        if h.type is None:
            names = ["BaseException"]
        elif isinstance(h.type, ast.Tuple):
            names = [_exc_name(e) for e in h.type.elts]
        else:
            names = [_exc_name(h.type)]
        if any(n is None for n in names):
            raise _err("pytask_execute_task_protocol: unrecognised handler type")
        if any(isinstance(n, (ast.Raise, ast.Return)) for s in h.body for n in _walk_no_nested(s)):
            raise _err(f"pytask_execute_task_protocol: handler for {names} raises / returns")
        from_exc = report_assign(h.body, "from_task_and_exception")
        stop = any(_sets_stop(s, env) for s in h.body)
        for s in h.body:
            if _sets_stop(s, env) or (isinstance(s, ast.Assign) and _inert(s, set())):
                continue
            if not _inert(s):
                raise _err(f"pytask_execute_task_protocol: unrecognised statement in handler for {names}")
        handlers.append((names, stop, from_exc))
    else_from_task = report_assign(tr.orelse, "from_task")
    if not else_from_task or any(not (isinstance(s, ast.Assign) and _inert(s)) for s in tr.orelse):
        raise _err("pytask_execute_task_protocol: the else branch does not just build ExecutionReport.from_task(task)")
    after = b[b.index(tr) + 1:]
    saw_pr = False
    for st in after:
        c = st.value if isinstance(st, ast.Expr) else None
        if c is not None and _callee(c) == "pytask_execute_task_process_report":
            kw = {k.arg: _u(k.value) for k in c.keywords}
            if kw != {"session": "session", "report": report_var} or saw_pr:
                raise _err("pytask_execute_task_protocol: unrecognised process_report call")
            saw_pr = True; continue
        if isinstance(st, ast.Return):
            if not _is_name(st.value, report_var or "") or not saw_pr:
                raise _err("pytask_execute_task_protocol does not return the processed report")
            continue
        if _inert(st):
            continue
        raise _err(f"pytask_execute_task_protocol: unrecognised statement {_u(st).splitlines()[0]!r}")
    if not saw_pr:
        raise _err("pytask_execute_task_protocol does not call pytask_execute_task_process_report")
    for st in b[:b.index(tr)]:
        if not _inert(st):
            raise _err("pytask_execute_task_protocol: effects before the try")
    return phases, handlers


def _report_ctors():
    mod = _host()._parse("reports.py")
    cls = [n for n in mod.body if isinstance(n, ast.ClassDef) and n.name == "ExecutionReport"]
    if len(cls) != 1:
        raise _err("reports.ExecutionReport not found")
    fields = [s.target.id for s in cls[0].body if isinstance(s, ast.AnnAssign) and isinstance(s.target, ast.Name)
              and "ClassVar" not in _u(s.annotation)]
    if fields[:3] != ["task", "outcome", "exc_info"]:
        raise _err(f"ExecutionReport fields {fields[:3]} are not (task, outcome, exc_info, …)")
    out = {}
    for name in ("from_task", "from_task_and_exception"):
        fns = [s for s in cls[0].body if isinstance(s, ast.FunctionDef) and s.name == name]
        if len(fns) != 1:
            raise _err(f"ExecutionReport.{name} not found")
        b = _body(fns[0])
        if len(b) != 1 or not isinstance(b[0], ast.Return) or _callee(b[0].value) != "cls":
            raise _err(f"ExecutionReport.{name} is not a single `return cls(…)`")
        c = b[0].value
        o = None
        if len(c.args) >= 2:
            o = _outcome_member(c.args[1], f"ExecutionReport.{name}")
        for k in c.keywords:
            if k.arg == "outcome":
                o = _outcome_member(k.value, f"ExecutionReport.{name}")
        if o is None:
            raise _err(f"ExecutionReport.{name}: outcome argument not recognised")
        exc = c.args[2] if len(c.args) >= 3 else next((k.value for k in c.keywords if k.arg == "exc_info"), None)
        if name == "from_task" and not (isinstance(exc, ast.Constant) and exc.value is None):
            raise _err("ExecutionReport.from_task sets exc_info")
        if name == "from_task_and_exception" and not _is_name(exc, "exc_info"):
            raise _err("ExecutionReport.from_task_and_exception does not pass exc_info on")
        out[name] = o
    return out["from_task"], out["from_task_and_exception"]


def _exc_hierarchy():
    """proper-subclass pairs among the named classes and which of them derive from Exception (outcomes.py, exceptions.py)"""
    bases: dict[str, list[str]] = {}
    for f in ("outcomes.py", "exceptions.py"):
        for n in _host()._parse(f).body:
            if isinstance(n, ast.ClassDef):
                bases[n.name] = [_exc_name(b) or "?" for b in n.bases]

    def ancestors(c, seen=()):
        out = []
        for b in bases.get(c, []):
            if b in seen:
                continue
            out.append(b)
            out += ancestors(b, seen + (c,))
        return out
    named = [e for e in EXC]
    for e in named:
        if e not in bases:
            raise _err(f"exception class {e} not found in outcomes.py / exceptions.py")
    pairs = [(c, a) for c in named for a in ancestors(c) if a in named]
    is_exc = [c for c in named if "Exception" in ancestors(c)]
    return pairs, is_exc


def _execute_steps():
    fn = _top_func("execute.py", "pytask_execute_task")
    env = Env(fn, "execute.py")
    steps = []
    for st in _body(fn):
        src = _u(st)
        if isinstance(st, ast.If) and not st.orelse and len(st.body) == 1 and isinstance(st.body[0], ast.Raise):
            k = _config_key(st.test, env)
            if k == "dry_run":
                steps.append(("dryGuard", _exc(st.body[0].exc, env.where()))); continue
            raise _err(f"pytask_execute_task: unrecognised guard {_u(st.test)!r}")
        calls = [c for n in ast.walk(st) for c in [n] if isinstance(n, ast.Call)]
        if any(_callee(c) == "execute" and isinstance(c.func, ast.Attribute) and _is_task(c.func.value, env) for c in calls):
            if not (isinstance(st, ast.Assign) or isinstance(st, ast.Expr)):
                raise _err("pytask_execute_task: task.execute is called inside a compound statement")
            steps.append(("call",)); continue
        if any(_callee(c) == "_safe_load" for c in calls):
            if steps and steps[-1] == ("load",):
                continue
            steps.append(("load",)); continue
        if any(_callee(c) == "save" for c in calls):
            steps.append(("save",)); continue
        if isinstance(st, ast.Return):
            if _ret(st, env.where()) != ("retTrue",):
                raise _err("pytask_execute_task does not return True")
            continue
        if "dry_run" in src or "WouldBeExecuted" in src:
            raise _err(f"pytask_execute_task: unrecognised use of dry_run: {src.splitlines()[0]!r}")
        if any(isinstance(n, (ast.Raise, ast.Return)) for n in _walk_no_nested(st)):
            raise _err(f"pytask_execute_task: unrecognised raising statement {src.splitlines()[0]!r}")
    if steps.count(("call",)) != 1:
        raise _err("pytask_execute_task does not call task.execute exactly once")
    return steps


def _execute_chain():
    """The other implementations of `pytask_execute_task`: wrappers (they do not change the result) and, for every plain
    implementation outside execute.py, the condition under which it does anything at all
    (`if is_task_generator(task): …; return True` followed by `return None`)."""
    X = _host()
    wrappers, guards = [], []
    for p in sorted(X.SRC.glob("*.py")):
        if p.name == "hookspecs.py":
            continue
        mod = X._parse(p.name)
        for n in ast.walk(mod):
            if isinstance(n, ast.FunctionDef) and n.name == "pytask_execute_task":
                decos = " ".join(_u(d) for d in n.decorator_list)
                if "wrapper=True" in decos or "hookwrapper=True" in decos:
                    if "wrap:" + p.stem not in wrappers:
                        wrappers.append("wrap:" + p.stem)
    for m in _all_impl_modules("pytask_execute_task"):
        if m == "execute":
            continue
        fn = _top_func(m + ".py", "pytask_execute_task")
        env = Env(fn, m + ".py")
        if env.task is None:
            raise _err(f"{env.where()}: no `task` parameter")
        cond = None
        b = _body(fn)
        for i, st in enumerate(b):
            if isinstance(st, ast.If) and not _inert(st):
                if cond is not None or st.orelse:
                    raise _err(f"{env.where()}: more than one effective branch")
                cond = _cond(st.test, env)
                continue
            if isinstance(st, ast.Return):
                if i != len(b) - 1 or _ret(st, env.where()) != ("retNone",):
                    raise _err(f"{env.where()}: the fall-through does not `return None`")
                continue
            if _inert(st):
                continue
            raise _err(f"{env.where()}: unrecognised statement {_u(st).splitlines()[0]!r}")
        if cond is None:
            raise _err(f"{env.where()}: no guarded branch found")
        guards.append((m, cond))
    return wrappers, guards


def _teardown_checks():
    fn = _top_func("execute.py", "pytask_execute_task_teardown")
    env = Env(fn, "execute.py")
    checks = []
    missing_var = None
    pending_ordinary = False

    def _missing_listcomp(v):
        # [x for x in tree_leaves(task.produces) if not x.state()] -> "all"; with `not isinstance(x, PProvisionalNode) and …` -> "ordinary"
        if not (isinstance(v, ast.ListComp) and len(v.generators) == 1 and _callee(v.generators[0].iter) == "tree_leaves"
                and _u(v.generators[0].iter.args[0]) == "task.produces" and len(v.generators[0].ifs) == 1
                and isinstance(v.generators[0].target, ast.Name) and _is_name(v.elt, v.generators[0].target.id)):
            return None
        x = v.generators[0].target.id
        cond = _u(v.generators[0].ifs[0])
        if cond == f"not {x}.state()":
            return "all"
        if cond == f"not isinstance({x}, PProvisionalNode) and (not {x}.state())":
            return "ordinary"
        return None

    for st in _body(fn):
        src = _u(st)
        if isinstance(st, ast.If) and _callee(st.test) == "is_task_generator" and len(st.body) == 1 \
                and isinstance(st.body[0], ast.Return) and not st.orelse:
            checks.append(("generatorReturn",)); continue
        if isinstance(st, ast.For):
            # for sig in (*dag.predecessors(task.signature), task.signature): node = …; if not provisional and not node.state(): raise
            it = _pred_set(st.iter, env)
            raises = [n for n in _walk_no_nested(st) if isinstance(n, ast.Raise)]
            if it is not None and sorted(it) == [("preds",), ("self",)] and len(raises) == 1 \
                    and _exc_name(raises[0].exc) == "NodeNotFoundError" and ".state()" in src and "PProvisionalNode" in src:
                checks.append(("vanishedPredecessor",)); continue
            raise _err(f"teardown: unrecognised loop {src.splitlines()[0]!r}")
        if isinstance(st, ast.Expr) and _callee(st.value) == "collect_provisional_products":
            checks.append(("provisionalProducts",)); continue
        if isinstance(st, ast.Assign) and len(st.targets) == 1 and isinstance(st.targets[0], ast.Name):
            v = st.value
            kind = _missing_listcomp(v)
            if kind == "all" and not pending_ordinary:
                missing_var = st.targets[0].id
                continue
            if kind == "ordinary" and missing_var is None:
                # products that are not provisional nodes are checked first (9523bbe); the raise is the common one at the end
                missing_var = st.targets[0].id
                pending_ordinary = True
                continue
            s = _sym(v, env)
            if s.kind != "unknown":
                env.vars[st.targets[0].id] = s
                continue
        if isinstance(st, ast.If) and pending_ordinary and isinstance(st.test, ast.UnaryOp) and isinstance(st.test.op, ast.Not) \
                and _is_name(st.test.operand, missing_var) and not st.orelse and len(st.body) == 2 \
                and isinstance(st.body[0], ast.Expr) and _callee(st.body[0].value) == "collect_provisional_products" \
                and isinstance(st.body[1], ast.Assign) and len(st.body[1].targets) == 1 \
                and _is_name(st.body[1].targets[0], missing_var) and _missing_listcomp(st.body[1].value) == "all":
            # if not missing: collect_provisional_products(...); missing = [all products without state]
            checks.append(("ordinaryProducts",)); checks.append(("provisionalProducts",))
            pending_ordinary = False
            continue
        if isinstance(st, ast.If) and missing_var and not pending_ordinary and _is_name(st.test, missing_var) and not st.orelse:
            raises = [n for n in _walk_no_nested(st) if isinstance(n, ast.Raise)]
            if len(raises) == 1 and isinstance(st.body[-1], ast.Raise) and _exc_name(raises[0].exc) == "NodeNotFoundError":
                checks.append(("missingProducts",)); continue
        if _inert(st, {missing_var or ""}):
            continue
        raise _err(f"teardown: unrecognised statement {src.splitlines()[0]!r}")
    if pending_ordinary:
        raise _err("teardown: ordinary products are collected but the provisional products are never resolved / re-checked")
    return checks


def _skip_unchanged_never_attached():
    """no code in src/_pytask constructs `Mark("skip_unchanged", …)`: the model's tasks never carry that mark"""
    X = _host()
    for p in sorted(X.SRC.rglob("*.py")):
        try:
            mod = ast.parse(p.read_text())
        except (OSError, SyntaxError) as e:
            raise _err(f"cannot parse {p}: {e}") from None
        for n in ast.walk(mod):
            if _callee(n) == "Mark" and n.args and _str_const(n.args[0]) == "skip_unchanged":
                raise _err(f"{p.name} attaches a skip_unchanged mark, which the engine model does not represent")
            if isinstance(n, ast.Attribute) and n.attr == "skip_unchanged" and "mark" in _u(n.value):
                raise _err(f"{p.name} uses mark.skip_unchanged, which the engine model does not represent")


# ------------------------------------------------------------------------------------------------
# section
# ------------------------------------------------------------------------------------------------

SETUP_MODULES = ["provisional", "skipping", "persist", "execute"]
REPORT_MODULES = ["skipping", "profile", "persist", "provisional", "execute"]


def _all_impl_modules(hook: str) -> list[str]:
    """modules of src/_pytask with a top-level (non-wrapper) function named `hook`"""
    X = _host()
    out = []
    for p in sorted(X.SRC.glob("*.py")):
        if p.name == "hookspecs.py":
            continue
        mod = X._parse(p.name)
        for n in mod.body:
            if isinstance(n, ast.FunctionDef) and n.name == hook:
                decos = " ".join(_u(d) for d in n.decorator_list)
                if "wrapper=True" in decos or "hookwrapper=True" in decos:
                    continue
                if "hookimpl" not in decos:
                    raise _err(f"{p.name}:{hook} is not decorated with @hookimpl")
                out.append(p.stem)
    return out


def _facts():
    X = _host()
    _check_skipif_parser()
    _skip_unchanged_never_attached()
    _descending_shape()
    setups = []
    for m in _all_impl_modules("pytask_execute_task_setup"):
        setups.append((m, _setup_impl(m + ".py")))
    reports = []
    for m in _all_impl_modules("pytask_execute_task_process_report"):
        chains, final = _report_impl(m + ".py")
        reports.append((m, chains, final))
    order = _neighbour_order()
    cases = _has_changed_cases()
    dry = _update_skips_dry()
    loop = _build_loop()
    phases, handlers = _protocol()
    from_task, from_exc = _report_ctors()
    pairs, is_exc = _exc_hierarchy()
    xsteps = _execute_steps()
    tchecks = _teardown_checks()
    wrappers, xguards = _execute_chain()
    rowkey, adds, overwrites = _update_rows()
    return dict(rowkey=rowkey, adds=adds, overwrites=overwrites, wrappers=wrappers, xguards=xguards, setups=setups, reports=reports, order=order, cases=cases, dry=dry, loop=loop, phases=phases,
                handlers=handlers, from_task=from_task, from_exc=from_exc, pairs=pairs, is_exc=is_exc, xsteps=xsteps,
                tchecks=tchecks)


def engine_section() -> list[str]:
    X = _host()
    try:
        f = _facts()
    except X.ExtractError:
        raise
    except Exception as e:  # noqa: BLE001
        raise _err(f"extractor crashed: {type(e).__name__}: {e}") from None
    strs = lambda xs: X.lean_list(xs, X.lean_str)  # noqa: E731
    L = SCHEMA.rstrip("\n").split("\n")
    L.append("/-- `node_and_neighbors` (dag_utils.py): order of the chained parts. -/")
    L.append(f"def neighbourOrder : List NPart := {_lean(f['order'])}")
    L.append("/-- `has_node_changed` (database_utils.py): its cases in source order. -/")
    L.append(f"def hasChangedCases : List HCase := {_lean(f['cases'])}")
    L.append("/-- `update_states_in_database` returns at once when `config[\"dry_run\"]` is set. -/")
    L.append(f"def updateStatesSkipsDryRun : Bool := {X.lean_bool(f['dry'])}")
    L.append("/-- the row loop of `update_states_in_database`: key order of a row, and `_create_or_update_state`'s two branches. -/")
    L.append(f"def updateRowKey : List String := {strs(f['rowkey'])}")
    L.append(f"def upsertAddsWhenAbsent : Bool := {X.lean_bool(f['adds'])}")
    L.append(f"def upsertOverwritesWhenPresent : Bool := {X.lean_bool(f['overwrites'])}")
    L.append("/-- `pytask_execute_task_setup` implementations (top-level, non-wrapper), by module. -/")
    L.append("def setupImpls : List SImpl := [\n  " + ",\n  ".join(_render_setup(n, s) for n, s in f["setups"]) + "]")
    L.append("/-- `pytask_execute_task_process_report` implementations, by module. -/")
    L.append("def reportImpls : List RImpl := [\n  " + ",\n  ".join(_render_report(n, c, fin) for n, c, fin in f["reports"]) + "]")
    L.append("/-- outcome of `ExecutionReport.from_task` / `.from_task_and_exception` (reports.py). -/")
    L.append(f"def reportFromTask : Out := {_lean(f['from_task'])}")
    L.append(f"def reportFromException : Out := {_lean(f['from_exc'])}")
    L.append("/-- proper-subclass pairs (child, ancestor) among the named exception classes; those deriving from `Exception`. -/")
    L.append("def excSubclass : List (Exc × Exc) := " + "[" + ", ".join(f"({_lean((a,))}, {_lean((b,))})" for a, b in f["pairs"]) + "]")
    L.append(f"def excIsException : List Exc := {_lean([(e,) for e in f['is_exc']])}")
    L.append("/-- `pytask_execute_task_protocol`: hook calls inside the `try`, and its handlers (classes, sets should_stop, builds the report from the exception). -/")
    L.append(f"def protocolPhases : List String := {strs(f['phases'])}")
    L.append("def protocolHandlers : List Handler := [" + ", ".join(
        f"⟨{strs(n)}, {X.lean_bool(s)}, {X.lean_bool(fe)}⟩" for n, s, fe in f["handlers"]) + "]")
    L.append("/-- `execute.pytask_execute_task`: its steps in source order. -/")
    L.append(f"def executeSteps : List XStep := {_lean(f['xsteps'])}")
    L.append("/-- other `pytask_execute_task` implementations: hook wrappers, and per plain implementation the condition under which it acts. -/")
    L.append(f"def executeWrappers : List String := {strs(f['wrappers'])}")
    L.append("def executeGuards : List (String × Cond) := [" + ", ".join(
        f"({X.lean_str(n)}, {_lean(c)})" for n, c in f["xguards"]) + "]")
    L.append("/-- `execute.pytask_execute_task_teardown`: its checks in source order. -/")
    L.append(f"def teardownChecks : List TCheck := {_lean(f['tchecks'])}")
    L.append("/-- `pytask_execute_build`: the statements of its loop in source order. -/")
    L.append(f"def buildLoopOps : List BOp := {_lean(f['loop'])}")
    L.append("end Eng")
    L.append("")
    return L


if __name__ == "__main__":
    print("\n".join(engine_section()))
