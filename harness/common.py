"""Shared plumbing for the /verif checks: paths, Lean build + audit, driver, evidence, replays."""
from __future__ import annotations

import hashlib
import json
import os
import random
import re
import shutil
import subprocess
import sys
import tempfile
import time
from collections import Counter
from pathlib import Path

VERIF = Path(__file__).resolve().parent.parent
LEAN = Path(os.environ.get("VERIF_LEAN") or (VERIF / "lean"))   # override only for development in a scratch copy
REPO = Path(os.environ.get("VERIF_REPO", "/repo"))              # override only to try the checks on a scratch worktree
if os.environ.get("VERIF_REPO"):
    # make every subprocess import _pytask from the scratch worktree instead of the editable install
    os.environ["PYTHONPATH"] = f"{REPO}/src" + (":" + os.environ["PYTHONPATH"] if os.environ.get("PYTHONPATH") else "")
PY = "/venv/bin/python"
ACCEPTED_AXIOMS = {"propext", "Classical.choice", "Quot.sound"}
FORBIDDEN = re.compile(r"\b(sorry|admit|native_decide|bv_decide|implemented_by|unsafe)\b|^\s*axiom\s|maxHeartbeats\s+0\b", re.M)
TRUSTED_BASE = [
    "Lean 4.33.0 kernel (+ leanchecker in the thorough tier)",
    "axioms per theorem as printed by #audit_module; accepted set = {propext, Classical.choice, Quot.sound}; no native_decide / bv_decide",
    "harness/extract.py (translator of source facts into PytaskModel/Generated.lean)",
    "Driver/*.lean line-protocol parsing, the Python harness generators, canonicalisers and diff",
    "correspondence is differential testing: the model equals the code only on the inputs run",
]


def assert_repo_is_live() -> None:
    out = subprocess.run([PY, "-c", "import _pytask,os;print(os.path.realpath(_pytask.__file__))"],
                         capture_output=True, text=True, cwd="/")
    loc = out.stdout.strip()
    if not loc.startswith(str(REPO.resolve() / "src")):
        print(f"INFRA: _pytask is imported from {loc!r}, not from {REPO}/src: {out.stderr[-300:]}")
        sys.exit(2)


def strip_comments(text: str) -> str:
    # remove /- … -/ (nested not needed for our files) and -- … comments
    text = re.sub(r"/-.*?-/", "", text, flags=re.S)
    return re.sub(r"--.*", "", text)


class LeanStatus:
    def __init__(self):
        self.extract_ok = False
        self.extract_msg = ""
        self.build_ok = False
        self.build_log = ""
        self.forbidden: list[str] = []
        self.theorems: dict[str, list[str]] = {}
        self.examples = 0
        self.bad_axioms: dict[str, list[str]] = {}
        self.audit_ok = False
        self.tie_msg = ""   # EngineTie (M6): non-empty = Properties/EngineTie.lean is broken for this (engine) property

    @property
    def proof_ok(self) -> bool:
        return self.extract_ok and self.build_ok and self.audit_ok and not self.forbidden and not self.bad_axioms and not self.tie_msg

    @property
    def obligations(self) -> int:
        return len(self.theorems) + self.examples

    @property
    def discharged(self) -> int:
        if not (self.build_ok and self.audit_ok):
            return 0
        return len([t for t in self.theorems if t not in self.bad_axioms]) + self.examples

    def summary(self) -> str:
        if self.proof_ok:
            return "ok"
        if not self.extract_ok:
            return f"translator failed: {self.extract_msg}"
        if not self.build_ok:
            errs = [l for l in self.build_log.splitlines() if "error" in l][:6]
            return "lake build failed: " + " | ".join(errs)
        if self.tie_msg:
            return self.tie_msg
        if self.forbidden:
            return f"forbidden tokens: {self.forbidden[:5]}"
        if self.bad_axioms:
            return f"unaccepted axioms: {self.bad_axioms}"
        return "audit failed"


def lean_pipeline(prop: str, clean: bool = False) -> LeanStatus:
    """extract → lake build → forbidden grep → axioms audit for Properties/<prop>.lean."""
    import fcntl
    (LEAN / ".lake").mkdir(exist_ok=True)
    lock = open(LEAN / ".lake" / "verif.lock", "w")
    fcntl.flock(lock, fcntl.LOCK_EX)
    try:
        return _lean_pipeline(prop, clean)
    finally:
        fcntl.flock(lock, fcntl.LOCK_UN)
        lock.close()


def _lean_pipeline(prop: str, clean: bool = False) -> LeanStatus:
    st = LeanStatus()
    r = subprocess.run([PY, str(VERIF / "harness" / "extract.py")], capture_output=True, text=True, cwd="/")
    st.extract_msg = (r.stdout + r.stderr).strip()[-500:]
    if r.returncode != 0:
        return st
    # a translator section that failed keeps its previous text; only the properties consuming it lose their tie
    st.extract_ok = True
    failed_sections: dict = {}
    try:
        status = json.loads((LEAN / ".lake" / "extract_status.json").read_text())
        failed_sections = dict(status.get("failed", {}))
        tie_secs = tie_sections_of(prop)
        for name, props in status.get("affects", {}).items():
            if name in tie_secs:   # a tie module's own section: the hand-written model does not consume it, so the model stays
                continue           # usable for the failing-input search; _ties() reports the broken tie
            if prop in props:
                st.extract_ok = False
                st.extract_msg = f"section {name}: {status['failed'][name]}"
    except (OSError, ValueError, KeyError):
        pass
    if not st.extract_ok:
        return st
    if clean:
        shutil.rmtree(LEAN / ".lake" / "build", ignore_errors=True)
    # build only what this property needs: the driver (all models), the audit tool and this property's proof module
    targets = ["driver", "PytaskProofs.AuditTool"]
    if (LEAN / "PytaskProofs" / "Properties" / f"{prop}.lean").exists():
        targets.append(f"PytaskProofs.Properties.{prop}")
    r = subprocess.run(["lake", "build", *targets], capture_output=True, text=True, cwd=LEAN)
    st.build_ok = r.returncode == 0
    st.build_log = (r.stdout + r.stderr)[-6000:]
    if not st.build_ok:
        return st
    for f in list((LEAN / "PytaskModel").rglob("*.lean")) + list((LEAN / "PytaskProofs").rglob("*.lean")) + list((LEAN / "Driver").rglob("*.lean")):
        body = strip_comments(f.read_text())
        for m in FORBIDDEN.finditer(body):
            st.forbidden.append(f"{f.relative_to(LEAN)}:{m.group(0).strip()}")
    pfile = LEAN / "PytaskProofs" / "Properties" / f"{prop}.lean"
    if not pfile.exists():
        st.audit_ok = False
        return st
    st.examples = len(re.findall(r"^\s*example\b", strip_comments(pfile.read_text()), flags=re.M))
    audit_dir = LEAN / ".lake" / "audit"
    audit_dir.mkdir(parents=True, exist_ok=True)
    af = audit_dir / f"Audit_{prop}_{os.getpid()}.lean"
    af.write_text(f"import PytaskProofs.AuditTool\nimport PytaskProofs.Properties.{prop}\n#audit_module PytaskProofs.Properties.{prop}\n")
    try:
        r = subprocess.run(["lake", "env", "lean", str(af)], capture_output=True, text=True, cwd=LEAN)
    finally:
        af.unlink(missing_ok=True)
    if r.returncode != 0:
        st.build_log += r.stdout + r.stderr
        return st
    for line in r.stdout.splitlines():
        m = re.match(r".*AUDIT (\S+) \[(.*)\]\s*$", line)
        if not m:
            continue
        name, axs = m.group(1), [a.strip() for a in m.group(2).split(",") if a.strip()]
        if re.search(r"\.(eq_\d+|eq_def|match_\d+|proof_\d+)$", name) or ".Generated." in name:
            continue
        st.theorems[name] = axs
        if not set(axs) <= ACCEPTED_AXIOMS:
            st.bad_axioms[name] = axs
    st.audit_ok = len(st.theorems) > 0
    _ties(prop, st, failed_sections)   # tie modules of this property (see below)
    return st


# >>> tie modules ------------------------------------------------------------------------------------------------------
# A *tie module* is a file lean/PytaskProofs/Properties/<Name>Tie.lean whose first lines contain
#     -- TIE-PROPS: C01 C02 …        the properties whose hand-written model it ties to the source
#     -- TIE-SECTION: extract_xyz     (optional) the translator section whose facts its interpreters consume
# It proves that a hand-written model equals the behaviour computed by interpreters from facts the translator read from the
# source. It is discovered here (no registration elsewhere), built in a lake call of its own (a failure must not take the driver
# away from the failing-input search) and audited in a `lean` call of its own (proof modules of different builders may not be
# importable together); its theorems and examples count as obligations of the listed properties; a failure, or a failure of its
# translator section, is PROOF-BROKEN for these properties only.
def tie_modules() -> list[tuple[str, set[str], str | None, Path]]:
    out = []
    for f in sorted((LEAN / "PytaskProofs" / "Properties").glob("*Tie.lean")):
        head = f.read_text()[:3000]
        m = re.search(r"TIE-PROPS:\s*([C0-9 ]+)", head)
        props = set(m.group(1).split()) if m else set()
        ms = re.search(r"TIE-SECTION:\s*(\S+)", head)
        out.append((f.stem, props, ms.group(1) if ms else None, f))
    return out


def tie_sections_of(prop: str) -> set[str]:
    return {sec for _, props, sec, _ in tie_modules() if sec and prop in props}


def _ties(prop: str, st: LeanStatus, failed_sections: dict) -> None:
    for name, props, sec, tfile in tie_modules():
        if prop not in props:
            continue
        body = strip_comments(tfile.read_text())
        names = ["Pytask." + n for n in re.findall(r"^\s*theorem\s+(\S+)", body, flags=re.M)]
        mod = f"PytaskProofs.Properties.{name}"
        if sec and sec in failed_sections:   # the (old) facts the theorems were checked against are not the source's
            for n in names:
                st.theorems[n] = st.bad_axioms[n] = ["<facts not extracted>"]
            st.tie_msg = st.tie_msg or f"translator failed: section {sec}: {failed_sections[sec]}"
            continue
        r = subprocess.run(["lake", "build", mod], capture_output=True, text=True, cwd=LEAN)
        out = r.stdout + r.stderr
        if r.returncode == 0:
            af = LEAN / ".lake" / "audit" / f"Audit_{name}_{prop}_{os.getpid()}.lean"
            af.write_text(f"import PytaskProofs.AuditTool\nimport {mod}\n#audit_module {mod}\n")
            try:
                r = subprocess.run(["lake", "env", "lean", str(af)], capture_output=True, text=True, cwd=LEAN)
            finally:
                af.unlink(missing_ok=True)
            out = r.stdout + r.stderr
        seen = {}
        if r.returncode == 0:
            for line in r.stdout.splitlines():
                m = re.match(r".*AUDIT (\S+) \[(.*)\]\s*$", line)
                if m and not re.search(r"\.(eq_\d+|eq_def|match_\d+|proof_\d+)$", m.group(1)):
                    seen[m.group(1)] = [a.strip() for a in m.group(2).split(",") if a.strip()]
        for n in names:
            alt = n.replace("Pytask.", "", 1)
            axs = seen[n] if n in seen else (seen[alt] if alt in seen else ["<not proved>"])
            st.theorems[n] = axs
            if not set(axs) <= ACCEPTED_AXIOMS:
                st.bad_axioms[n] = axs
        if r.returncode == 0:
            st.examples += len(re.findall(r"^\s*example\b", body, flags=re.M))
        if r.returncode != 0 or any(st.theorems[n] == ["<not proved>"] for n in names):
            errs = [l.strip() for l in out.splitlines() if "error" in l][:4]
            st.tie_msg = st.tie_msg or (f"{name} broken (the hand-written model no longer equals the behaviour extracted from the source): "
                                        + " | ".join(errs))
            st.build_log += out[-3000:]
# <<< tie modules ------------------------------------------------------------------------------------------------------


def leanchecker(mods: list[str]) -> tuple[bool, str]:
    r = subprocess.run(["lake", "env", "leanchecker", *mods], capture_output=True, text=True, cwd=LEAN)
    for name, props, _, _ in tie_modules():   # tie modules of the checked properties, each in a call of its own
        if r.returncode == 0 and any(m.rsplit(".", 1)[-1] in props for m in mods):
            r = subprocess.run(["lake", "env", "leanchecker", f"PytaskProofs.Properties.{name}"], capture_output=True, text=True, cwd=LEAN)
    return r.returncode == 0, (r.stdout + r.stderr)[-2000:]


class Driver:
    """Long-lived `driver` process, one request per line."""

    def __init__(self):
        exe = LEAN / ".lake" / "build" / "bin" / "driver"
        if not exe.exists():
            raise RuntimeError("driver binary missing")
        self.p = subprocess.Popen([str(exe)], stdin=subprocess.PIPE, stdout=subprocess.PIPE, text=True, bufsize=1)
        self.n = 0

    def ask(self, line: str) -> str:
        assert "\n" not in line
        self.p.stdin.write(line + "\n")
        self.p.stdin.flush()
        ans = self.p.stdout.readline()
        if ans == "":
            raise RuntimeError(f"driver died on: {line}")
        self.n += 1
        return ans.rstrip("\n")

    def batch(self, lines: list[str]) -> list[str]:
        """Send many lines, read as many answers (avoids per-line round trips)."""
        out = []
        CH = 200
        for i in range(0, len(lines), CH):
            chunk = lines[i:i + CH]
            self.p.stdin.write("\n".join(chunk) + "\n")
            self.p.stdin.flush()
            for _ in chunk:
                ans = self.p.stdout.readline()
                if ans == "":
                    raise RuntimeError("driver died")
                out.append(ans.rstrip("\n"))
        self.n += len(lines)
        return out

    def close(self):
        try:
            self.p.stdin.close()
            self.p.wait(timeout=5)
        except Exception:
            self.p.kill()


def digest(obj) -> str:
    return hashlib.sha256(json.dumps(obj, sort_keys=True, default=str).encode()).hexdigest()[:16]


class Ctx:
    def __init__(self, prop: str, tier: str, seed: int):
        self.prop = prop
        self.tier = tier
        self.seed = seed
        self.rng = random.Random(seed)
        self.thorough = tier == "thorough"
        self.t0 = time.time()
        self.evaluations = 0
        self.nontrivial: set[str] = set()
        self.samples: list = []
        self.dist: Counter = Counter()
        self.violations: list[dict] = []      # oracle failures on the implementation
        self.disagreements: list[dict] = []   # model vs implementation differences
        self.known_hits: dict[str, str] = {}  # finding id -> what
        self.traces_validated = 0
        self.rule = ""
        self.exhaustive = False
        self.extra: dict = {}
        self.lean: LeanStatus | None = None
        self.use_model = True
        self.budget = 1.0
        self._driver: Driver | None = None

    # --- model access
    def driver(self) -> Driver:
        if self._driver is None:
            self._driver = Driver()
        return self._driver

    def new_driver(self) -> Driver:
        return Driver()

    # --- accounting
    def case(self, canon, nontrivial: bool, sample=None):
        self.evaluations += 1
        if nontrivial:
            self.nontrivial.add(digest(canon))
        if sample is not None and nontrivial and len(self.samples) < 4 and (self.evaluations % 97 == 1 or len(self.samples) == 0):
            self.samples.append(sample)

    def violation(self, what: str, replay: dict, finding: str | None = None):
        self.violations.append({"what": what, "replay": replay, "finding": finding})

    def disagreement(self, what: str, replay: dict):
        self.disagreements.append({"what": what, "replay": replay})

    def scale(self, quick: int, thorough: int) -> int:
        n = thorough if self.thorough else quick
        return max(1, int(n * self.budget))


def load_known(prop: str) -> list[dict]:
    """Committed list of genuine defects: known_findings.json plus per-finding files findings/*.json (never written at run time)."""
    known: list[dict] = []
    p = VERIF / "known_findings.json"
    if p.exists():
        known = [e for e in json.loads(p.read_text()).get("findings", []) if e.get("property") == prop]
    seen = {(k.get("property"), k.get("id")) for k in known}
    for f in sorted((VERIF / "findings").glob("*.json")):
        e = json.loads(f.read_text())
        items = e.get("findings", [e]) if isinstance(e, dict) else e
        for x in items:
            if isinstance(x, dict) and x.get("property") == prop and (x.get("property"), x.get("id")) not in seen:
                known.append(x)
                seen.add((x.get("property"), x.get("id")))
    return known


def write_replay(prop: str, obj: dict) -> str:
    d = VERIF / "replays"
    d.mkdir(exist_ok=True)
    path = d / f"{prop}-{digest(obj)}.json"
    path.write_text(json.dumps(obj, indent=1, sort_keys=True, default=str))
    return str(path.relative_to(VERIF))


def write_evidence(ctx: Ctx, violations: int, assumptions: list[str], extra: dict | None = None):
    st = ctx.lean
    cov = {
        "obligations": st.obligations if st else 0,
        "discharged": st.discharged if st else 0,
        "checker_cmd": f"cd lean && lake build && lake env lean <#audit_module PytaskProofs.Properties.{ctx.prop}>"
                       + (" && lake env leanchecker PytaskProofs.Properties." + ctx.prop if ctx.thorough else ""),
        "trusted_base": TRUSTED_BASE,
        "theorems": st.theorems if st else {},
        "non_vacuity_examples": st.examples if st else 0,
        "proof_status": st.summary() if st else "not run",
        "evaluations": ctx.evaluations,
        "distinct_nontrivial": len(ctx.nontrivial),
        "rule": ctx.rule,
        "samples": ctx.samples or ["(none)"],
        "traces_validated_against_impl": ctx.traces_validated,
        "exhaustive": ctx.exhaustive,
        "distribution": dict(ctx.dist),
        "model_used": ctx.use_model,
        "known_findings_reproduced": ctx.known_hits,
        "correspondence_disagreements": len(ctx.disagreements),
    }
    cov.update(ctx.extra)
    if extra:
        cov.update(extra)
    ev = {
        "property_id": ctx.prop,
        "tier": ctx.tier,
        "seed": ctx.seed,
        "level": "proof",
        "coverage": cov,
        "assumptions": assumptions,
        "wall_s": round(time.time() - ctx.t0, 2),
        "violations": violations,
    }
    d = VERIF / "evidence"
    d.mkdir(exist_ok=True)
    (d / f"{ctx.prop}.json").write_text(json.dumps(ev, indent=1, sort_keys=True, default=str))


def scratch_dir(prefix: str = "pv") -> Path:
    base = os.environ.get("VERIF_SCRATCH") or tempfile.gettempdir()
    return Path(tempfile.mkdtemp(prefix=f"{prefix}-", dir=base))
