"""Translator section for the DAG construction of the engine model (`lean/PytaskModel/DagGen.lean`): what dag.py's
`create_dag` / `create_dag_from_session` / `_create_dag_from_tasks` / `_modify_dag` / `_check_if_dag_has_cycles` /
`_check_if_tasks_have_the_same_products` and mark/__init__.py's `select_tasks_by_marks_and_expressions`, `select_by_keyword`,
`select_by_mark`, `_deselect_others_with_mark` do, read with `ast` from the tree under check.

Emits data only (schema + definitions in `Pytask.Generated.Dag`):

* `flow`, `flowReturn`  — `create_dag_from_session`: each step with the version of the graph variable it reads / binds;
* `modifyInPlace`       — `_modify_dag` adds its edges to the graph it was given and returns that same object;
* `createSteps`         — `_create_dag_from_tasks`: per task: the task node, per dependency / product the node and edge
                          operations (incl. the PythonNode-wrapper node→node edge), in source order;
* `modifyBranches`      — `_modify_dag`: the `after` branches (list of collection ids / expression): discards the task's own
                          signature?, edges from the *successors* of the target to the task;
* `cyclesWholeGraph`    — `_check_if_dag_has_cycles` is `find_cycle(dag)` without a source, raising iff a cycle is found;
* `productKey`, `productCmp`, `productBound` — `_check_if_tasks_have_the_same_products`: `"node" in dag.nodes[n]`, `len(preds) > 1`;
* `selectArms`, `selectClosures`, `selectMark` — the selection: both sets are computed first, then one deselection per given
                          option, in this order; each set is the union of `task_and_preceding_tasks` over the matching tasks;
                          tasks outside get a `skip` mark.

Fail-closed; tolerant to renamed locals, comments, docstrings, formatting.

Hook into `extract.py` with:   from extract_dag import dag_section; EXTRA_SECTIONS.append(dag_section)
"""
from __future__ import annotations

import ast

from extract_engine import (_host, _body, _params, _u, _is_name, _callee, _str_const, _walk_no_nested, _lean, _top_func,
                            _descending_shape)
from extract_sorter import _pure


def _err(msg: str):
    return _host().ExtractError("dag: " + msg)


def _mark_func(name: str) -> ast.FunctionDef:
    mod = _host()._parse("mark/__init__.py")
    fns = [n for n in mod.body if isinstance(n, ast.FunctionDef) and n.name == name]
    if len(fns) != 1:
        raise _err(f"mark/__init__.py: function {name} not found")
    return fns[0]


KNOWN_STEPS = {
    "_create_dag_from_tasks": "create",
    "_check_if_dag_has_cycles": "cycles",
    "_check_if_tasks_have_the_same_products": "products",
    "_modify_dag": "modify",
    "select_tasks_by_marks_and_expressions": "select",
}


def _graph_arg(call: ast.Call, op: str):
    """the expression passed as the graph (`dag=` keyword or the positional parameter named dag)"""
    kw = {k.arg: k.value for k in call.keywords}
    if "dag" in kw:
        return kw["dag"]
    pos = {"cycles": 0, "products": 0, "modify": 1, "select": 1}[op]
    if len(call.args) > pos:
        return call.args[pos]
    raise _err(f"create_dag_from_session: {op} is not given a graph: {_u(call)!r}")


def _flow():
    fn = _top_func("dag.py", "create_dag_from_session")
    if _params(fn) != ["session"]:
        raise _err("create_dag_from_session: expected the parameter session")
    ver: dict[str, int] = {}
    nxt = 1
    steps = []
    ret = None
    for st in _body(fn):
        if isinstance(st, ast.Return):
            if not isinstance(st.value, ast.Name) or st.value.id not in ver:
                raise _err(f"create_dag_from_session returns {_u(st.value)!r}")
            ret = ver[st.value.id]
            break
        call = st.value if isinstance(st, (ast.Expr, ast.Assign)) else None
        if isinstance(call, ast.Call) and isinstance(call.func, ast.Name) and call.func.id in KNOWN_STEPS:
            op = KNOWN_STEPS[call.func.id]
            if op == "create":
                kw = {k.arg: _u(k.value) for k in call.keywords}
                if call.args and [_u(a) for a in call.args] != ["session.tasks"] or (not call.args and kw != {"tasks": "session.tasks"}):
                    raise _err(f"create_dag_from_session: unrecognised call {_u(call)!r}")
                inp = 0
            else:
                a = _graph_arg(call, op)
                if not isinstance(a, ast.Name) or a.id not in ver:
                    raise _err(f"create_dag_from_session: {op} receives {_u(a)!r}, not a graph built before")
                inp = ver[a.id]
                others = [k for k in call.keywords if k.arg not in ("dag", "session", "paths")]
                if others:
                    raise _err(f"create_dag_from_session: unrecognised arguments in {_u(call)!r}")
            out = inp
            if isinstance(st, ast.Assign):
                if len(st.targets) != 1 or not isinstance(st.targets[0], ast.Name) or op not in ("create", "modify"):
                    raise _err(f"create_dag_from_session: unrecognised assignment {_u(st)!r}")
                out = nxt
                nxt += 1
                ver[st.targets[0].id] = out
            elif op == "create":
                raise _err("create_dag_from_session: the created graph is not bound")
            steps.append((op, inp, out))
            continue
        if isinstance(st, ast.Assign) and _pure(st) and not any(isinstance(t, ast.Name) and t.id in ver for t in st.targets) \
                and not any(isinstance(n, ast.Call) and _callee(n) in KNOWN_STEPS for n in ast.walk(st)):
            continue
        raise _err(f"create_dag_from_session: unrecognised statement {_u(st).splitlines()[0]!r}")
    if ret is None:
        raise _err("create_dag_from_session has no return")
    return steps, ret


def _create_dag_wrapper():
    fn = _top_func("dag.py", "create_dag")
    tries = [s for s in _body(fn) if isinstance(s, ast.Try)]
    if len(tries) != 1:
        raise _err("create_dag: expected one try")
    tr = tries[0]
    if len(tr.body) != 1 or not isinstance(tr.body[0], ast.Assign) or _u(tr.body[0].value) != "create_dag_from_session(session)":
        raise _err("create_dag: the try does more than `dag = create_dag_from_session(session)`")
    var = _u(tr.body[0].targets[0])
    for s in _body(fn):
        if s is tr:
            continue
        if isinstance(s, ast.Return) and _u(s.value) == var:
            continue
        if _pure(s):
            continue
        raise _err(f"create_dag: unrecognised statement {_u(s).splitlines()[0]!r}")
    if tr.orelse or tr.finalbody:
        raise _err("create_dag: try with else / finally")


def _is_wrapper_test(t, x: str) -> bool:
    return _u(t) == f"isinstance({x}, PythonNode) and isinstance({x}.value, PythonNode)"


def _node_ops(fn: ast.FunctionDef):
    """`_add_dependency(dag, task, node)` / `_add_product(dag, task, node)` → list of node operations"""
    ps = _params(fn)
    if len(ps) != 3:
        raise _err(f"{fn.name}: expected (dag, task, node)")
    dag, task, node = ps
    ops = []
    for st in _body(fn):
        if isinstance(st, ast.Expr) and isinstance(st.value, ast.Call) and isinstance(st.value.func, ast.Attribute) \
                and _is_name(st.value.func.value, dag):
            c = st.value
            if c.func.attr == "add_node" and [_u(a) for a in c.args] == [f"{node}.signature"] \
                    and {k.arg: _u(k.value) for k in c.keywords} == {"node": node}:
                ops.append(("addNode",)); continue
            if c.func.attr == "add_edge" and not c.keywords:
                a = [_u(x) for x in c.args]
                if a == [f"{node}.signature", f"{task}.signature"]:
                    ops.append(("edgeToTask",)); continue
                if a == [f"{task}.signature", f"{node}.signature"]:
                    ops.append(("edgeFromTask",)); continue
            raise _err(f"{fn.name}: unrecognised graph operation {_u(c)!r}")
        if isinstance(st, ast.If) and not st.orelse and _is_wrapper_test(st.test, node) and len(st.body) == 1 \
                and isinstance(st.body[0], ast.Expr) and _u(st.body[0].value) == f"{dag}.add_edge({node}.value.signature, {node}.signature)":
            ops.append(("wrapperEdge",)); continue
        if _pure(st):
            continue
        raise _err(f"{fn.name}: unrecognised statement {_u(st).splitlines()[0]!r}")
    return ops


def _create_steps():
    fn = _top_func("dag.py", "_create_dag_from_tasks")
    if _params(fn) != ["tasks"]:
        raise _err("_create_dag_from_tasks: expected the parameter tasks")
    helpers = {n.name: n for n in fn.body if isinstance(n, ast.FunctionDef)}
    dag = None
    steps = None
    for st in _body(fn):
        if isinstance(st, ast.FunctionDef):
            continue
        if isinstance(st, ast.Assign) and len(st.targets) == 1 and isinstance(st.targets[0], ast.Name) \
                and _u(st.value) in ("nx.DiGraph()", "DiGraph()") and dag is None:
            dag = st.targets[0].id
            continue
        if isinstance(st, ast.For) and dag and steps is None and _is_name(st.iter, "tasks") and isinstance(st.target, ast.Name) and not st.orelse:
            t = st.target.id
            steps = []
            for s in st.body:
                c = s.value if isinstance(s, ast.Expr) else None
                if isinstance(c, ast.Call) and _u(c.func) == f"{dag}.add_node":
                    if [_u(a) for a in c.args] == [f"{t}.signature"] and {k.arg: _u(k.value) for k in c.keywords} == {"task": t}:
                        steps.append(("addTask",)); continue
                    raise _err(f"_create_dag_from_tasks: unrecognised {_u(c)!r}")
                if isinstance(c, ast.Call) and _callee(c) == "tree_map" and len(c.args) == 2 and not c.keywords \
                        and isinstance(c.args[0], ast.Lambda) and len(c.args[0].args.args) == 1:
                    lam, tree = c.args[0], _u(c.args[1])
                    x = lam.args.args[0].arg
                    kind = {f"{t}.depends_on": "forDeps", f"{t}.produces": "forProds"}.get(tree)
                    if kind is None:
                        raise _err(f"_create_dag_from_tasks: tree_map over {tree!r}")
                    b = lam.body
                    if isinstance(b, ast.Call) and isinstance(b.func, ast.Name) and b.func.id in helpers \
                            and [_u(a) for a in b.args] == [dag, t, x] and not b.keywords:
                        steps.append((kind, _node_ops(helpers[b.func.id]))); continue
                    if isinstance(b, ast.IfExp) and _is_wrapper_test(b.test, x) and _u(b.body) == f"{dag}.add_edge({x}.value.signature, {x}.signature)" \
                            and isinstance(b.orelse, ast.Constant) and b.orelse.value is None:
                        steps.append((kind, [("wrapperEdge",)])); continue
                    raise _err(f"_create_dag_from_tasks: unrecognised tree_map body {_u(b)!r}")
                if _pure(s):
                    continue
                raise _err(f"_create_dag_from_tasks: unrecognised statement {_u(s).splitlines()[0]!r}")
            continue
        if isinstance(st, ast.Return):
            if not _is_name(st.value, dag or ""):
                raise _err("_create_dag_from_tasks does not return the graph it built")
            break
        if _pure(st):
            continue
        raise _err(f"_create_dag_from_tasks: unrecognised statement {_u(st).splitlines()[0]!r}")
    if steps is None:
        raise _err("_create_dag_from_tasks: no loop over tasks")
    return steps


def _edge_loop(st, dag: str, target_sig: str, task_sig: set[str]):
    """for successor in dag.successors(<target_sig>): dag.add_edge(successor, <task signature>)  → via"""
    if not (isinstance(st, ast.For) and isinstance(st.target, ast.Name) and not st.orelse and len(st.body) == 1):
        return None
    it = st.iter
    if not (isinstance(it, ast.Call) and isinstance(it.func, ast.Attribute) and _is_name(it.func.value, dag)
            and it.func.attr in ("successors", "predecessors") and [_u(a) for a in it.args] == [target_sig] and not it.keywords):
        return None
    b = st.body[0]
    if isinstance(b, ast.Expr) and _u(b.value.func if isinstance(b.value, ast.Call) else b.value) == f"{dag}.add_edge" \
            and len(b.value.args) == 2 and _is_name(b.value.args[0], st.target.id) and _u(b.value.args[1]) in task_sig \
            and not b.value.keywords:
        return (it.func.attr,)
    return None


def _modify_branches():
    fn = _top_func("dag.py", "_modify_dag")
    if _params(fn) != ["session", "dag"]:
        raise _err(f"_modify_dag has parameters {_params(fn)}")
    dag = "dag"
    branches = None
    idmap = None
    in_place = False
    for st in _body(fn):
        if isinstance(st, ast.Assign) and len(st.targets) == 1 and isinstance(st.targets[0], ast.Name):
            nm, v = st.targets[0].id, st.value
            if nm == dag:
                raise _err(f"_modify_dag re-binds its graph: {_u(st)!r}")
            if isinstance(v, ast.DictComp) and len(v.generators) == 1 and _u(v.generators[0].iter) == "session.tasks" \
                    and isinstance(v.generators[0].target, ast.Name):
                t = v.generators[0].target.id
                if _u(v.key) == f"{t}.attributes['collection_id']" and _is_name(v.value, t) \
                        and [_u(i) for i in v.generators[0].ifs] == [f"'collection_id' in {t}.attributes"]:
                    idmap = nm
                    continue
                raise _err(f"_modify_dag: unrecognised mapping {_u(v)!r}")
            if _pure(st):
                continue
        if isinstance(st, ast.For) and branches is None and _u(st.iter) == "session.tasks" and isinstance(st.target, ast.Name) and not st.orelse:
            t = st.target.id
            after = None
            branches = []
            for s in st.body:
                if isinstance(s, ast.Assign) and len(s.targets) == 1 and isinstance(s.targets[0], ast.Name) \
                        and _u(s.value) == f"{t}.attributes.get('after')":
                    after = s.targets[0].id
                    continue
                if isinstance(s, ast.If) and after:
                    cur = s
                    while True:
                        kind = {f"isinstance({after}, list)": "list", f"isinstance({after}, str)": "str"}.get(_u(cur.test))
                        if kind is None:
                            raise _err(f"_modify_dag: unrecognised branch {_u(cur.test)!r}")
                        branches.append(_after_branch(cur.body, kind, t, after, idmap, dag))
                        if len(cur.orelse) == 1 and isinstance(cur.orelse[0], ast.If):
                            cur = cur.orelse[0]
                            continue
                        if cur.orelse:
                            raise _err("_modify_dag: else branch")
                        break
                    continue
                if _pure(s):
                    continue
                raise _err(f"_modify_dag: unrecognised statement {_u(s).splitlines()[0]!r}")
            continue
        if isinstance(st, ast.Return):
            if not _is_name(st.value, dag):
                raise _err("_modify_dag does not return the graph it was given")
            in_place = True
            break
        if _pure(st):
            continue
        raise _err(f"_modify_dag: unrecognised statement {_u(st).splitlines()[0]!r}")
    if not branches:
        raise _err("_modify_dag: no `after` branches found")
    if not in_place:
        raise _err("_modify_dag has no return")
    return branches, in_place


def _after_branch(stmts, kind, t, after, idmap, dag):
    task_sig = {f"{t}.signature"}
    discard = False
    sigs = None
    via = None
    for s in stmts:
        if isinstance(s, ast.Assign) and len(s.targets) == 1 and isinstance(s.targets[0], ast.Name):
            nm, v = s.targets[0].id, s.value
            if _u(v) == f"{t}.signature":
                task_sig.add(nm); continue
            if kind == "str" and _u(v) == f"select_by_after_keyword(session, {after})":
                sigs = nm; continue
        if kind == "str" and sigs and isinstance(s, ast.Expr) and _callee(s.value) in ("discard", "remove", "difference_update") \
                and _is_name(s.value.func.value, sigs):
            if _callee(s.value) == "discard" and len(s.value.args) == 1 and _u(s.value.args[0]) in task_sig:
                discard = True; continue
            raise _err(f"_modify_dag: {_u(s.value)!r} does not discard the task's own signature")
        if isinstance(s, ast.For) and isinstance(s.target, ast.Name) and not s.orelse and via is None:
            x = s.target.id
            if kind == "list" and _is_name(s.iter, after) and idmap:
                # other_task = map[temporary_id]; for successor in dag.successors(other_task.signature): …
                other = None
                for q in s.body:
                    if isinstance(q, ast.Assign) and len(q.targets) == 1 and isinstance(q.targets[0], ast.Name) \
                            and _u(q.value) == f"{idmap}[{x}]":
                        other = q.targets[0].id; continue
                    v2 = _edge_loop(q, dag, f"{other}.signature", task_sig) if other else None
                    if v2 is None:
                        v2 = _edge_loop(q, dag, f"{idmap}[{x}].signature", task_sig)
                    if v2 is not None and via is None:
                        via = v2; continue
                    if _pure(q):
                        continue
                    raise _err(f"_modify_dag (list branch): unrecognised statement {_u(q).splitlines()[0]!r}")
                continue
            if kind == "str" and sigs and _is_name(s.iter, sigs):
                if len(s.body) == 1:
                    via = _edge_loop(s.body[0], dag, x, task_sig)
                if via is None:
                    raise _err(f"_modify_dag (expression branch): unrecognised loop body {_u(s.body[0]).splitlines()[0]!r}")
                continue
        if _pure(s):
            continue
        raise _err(f"_modify_dag ({kind} branch): unrecognised statement {_u(s).splitlines()[0]!r}")
    if via is None:
        raise _err(f"_modify_dag ({kind} branch): no edges are added")
    return (kind, discard, via)


def _cycles_check():
    fn = _top_func("dag.py", "_check_if_dag_has_cycles")
    if _params(fn) != ["dag"]:
        raise _err("_check_if_dag_has_cycles: expected the parameter dag")
    found = False
    for st in _body(fn):
        if isinstance(st, ast.Try):
            ok = (len(st.body) == 1 and isinstance(st.body[0], (ast.Expr, ast.Assign)) and _callee(st.body[0].value) == "find_cycle"
                  and [_u(a) for a in st.body[0].value.args] == ["dag"] and not st.body[0].value.keywords
                  and len(st.handlers) == 1 and _u(st.handlers[0].type).endswith("NetworkXNoCycle")
                  and all(isinstance(s, ast.Pass) for s in st.handlers[0].body)
                  and st.orelse and isinstance(st.orelse[-1], ast.Raise) and all(_pure(s) for s in st.orelse[:-1]) and not st.finalbody)
            if not ok or found:
                raise _err("_check_if_dag_has_cycles: not `try: find_cycle(dag) / except NetworkXNoCycle: pass / else: raise`")
            found = True
            continue
        if _pure(st):
            continue
        raise _err(f"_check_if_dag_has_cycles: unrecognised statement {_u(st).splitlines()[0]!r}")
    if not found:
        raise _err("_check_if_dag_has_cycles does not call find_cycle(dag)")
    return True


CMPS = {ast.Gt: "gt", ast.GtE: "ge", ast.Eq: "eq"}


def _product_check():
    fn = _top_func("dag.py", "_check_if_tasks_have_the_same_products")
    ps = _params(fn)
    if not ps or ps[0] != "dag":
        raise _err("_check_if_tasks_have_the_same_products: first parameter is not dag")
    out = None
    acc = None
    raised = False
    for st in _body(fn):
        if isinstance(st, ast.Assign) and len(st.targets) == 1 and isinstance(st.targets[0], ast.Name) and _u(st.value) == "[]" and acc is None:
            acc = st.targets[0].id
            continue
        if isinstance(st, ast.For) and acc and out is None and _u(st.iter) in ("dag.nodes", "dag.nodes()", "dag") \
                and isinstance(st.target, ast.Name) and not st.orelse:
            n = st.target.id
            env = {}
            key = cmp = bound = None

            def test_key(t):
                if isinstance(t, ast.Name):
                    return env.get(t.id)
                if isinstance(t, ast.Compare) and len(t.ops) == 1 and isinstance(t.ops[0], ast.In) and _str_const(t.left) in ("node", "task") \
                        and _u(t.comparators[0]) == f"dag.nodes[{n}]":
                    return ("key", _str_const(t.left))
                return None

            def walk(stmts, guard_key):
                nonlocal key, cmp, bound
                for s in stmts:
                    if isinstance(s, ast.Assign) and len(s.targets) == 1 and isinstance(s.targets[0], ast.Name):
                        k = test_key(s.value)
                        if k is not None:
                            env[s.targets[0].id] = k; continue
                        if _u(s.value) in (f"list(dag.predecessors({n}))", f"dag.predecessors({n})", f"set(dag.predecessors({n}))"):
                            env[s.targets[0].id] = ("preds",); continue
                    if isinstance(s, ast.If) and not s.orelse:
                        k = test_key(s.test)
                        if k is not None and k[0] == "key" and guard_key is None:
                            walk(s.body, k[1]); continue
                        t = s.test
                        if isinstance(t, ast.Compare) and len(t.ops) == 1 and type(t.ops[0]) in CMPS and _callee(t.left) == "len" \
                                and len(t.left.args) == 1 and isinstance(t.comparators[0], ast.Constant) and isinstance(t.comparators[0].value, int) \
                                and (env.get(_u(t.left.args[0])) == ("preds",) or _u(t.left.args[0]) == f"list(dag.predecessors({n}))") \
                                and guard_key is not None and len(s.body) == 1 and _u(s.body[0]) == f"{acc}.append({n})" and key is None:
                            key, cmp, bound = guard_key, CMPS[type(t.ops[0])], t.comparators[0].value
                            continue
                    if _pure(s):
                        continue
                    raise _err(f"_check_if_tasks_have_the_same_products: unrecognised statement {_u(s).splitlines()[0]!r}")
            walk(st.body, None)
            if key is None:
                raise _err("_check_if_tasks_have_the_same_products: the test `\"node\" in dag.nodes[n]` / `len(preds) > 1` was not found")
            out = (key, cmp, bound)
            continue
        if isinstance(st, ast.If) and acc and _is_name(st.test, acc) and not st.orelse and isinstance(st.body[-1], ast.Raise):
            if any(isinstance(x, (ast.Return, ast.Break, ast.Continue)) for s in st.body for x in _walk_no_nested(s)):
                raise _err("_check_if_tasks_have_the_same_products: control flow in the error branch")
            raised = True
            continue
        if _pure(st):
            continue
        raise _err(f"_check_if_tasks_have_the_same_products: unrecognised statement {_u(st).splitlines()[0]!r}")
    if out is None or not raised:
        raise _err("_check_if_tasks_have_the_same_products: loop / raise not found")
    return out


CLOSURES = {"task_and_preceding_tasks": "selfAndAncestors", "preceding_tasks": "ancestors",
            "task_and_descending_tasks": "selfAndDescendants", "descending_tasks": "descendants"}


def _select_by(name: str, cfg_key: str, matcher: str):
    fn = _mark_func(name)
    if _params(fn) != ["session", "dag"]:
        raise _err(f"{name}: expected (session, dag)")
    expr = rem = None
    closure = None
    guard = False
    for st in _body(fn):
        if isinstance(st, ast.Assign) and len(st.targets) == 1 and isinstance(st.targets[0], ast.Name) and _u(st.value) == f"session.config['{cfg_key}']":
            expr = st.targets[0].id
            continue
        if isinstance(st, ast.If) and expr and _u(st.test) == f"not {expr}" and len(st.body) == 1 and isinstance(st.body[0], ast.Return) \
                and (st.body[0].value is None or _u(st.body[0].value) == "None") and not st.orelse:
            guard = True
            continue
        if isinstance(st, ast.Try):
            if any(not isinstance(s, (ast.Assign,)) for s in st.body) or st.orelse or st.finalbody \
                    or any(not isinstance(h.body[-1], ast.Raise) for h in st.handlers):
                raise _err(f"{name}: unrecognised try")
            continue
        if isinstance(st, ast.AnnAssign) and isinstance(st.target, ast.Name) and _u(st.value) == "set()":
            rem = st.target.id
            continue
        if isinstance(st, ast.Assign) and len(st.targets) == 1 and isinstance(st.targets[0], ast.Name) and _u(st.value) == "set()":
            rem = st.targets[0].id
            continue
        if isinstance(st, ast.For) and rem and _u(st.iter) == "session.tasks" and isinstance(st.target, ast.Name) and not st.orelse \
                and len(st.body) == 1 and isinstance(st.body[0], ast.If) and not st.body[0].orelse and closure is None:
            t = st.target.id
            i = st.body[0]
            tests = i.test.values if isinstance(i.test, ast.BoolOp) and isinstance(i.test.op, ast.And) else [i.test]
            tests = [x for x in tests if not _is_name(x, expr)]
            if len(tests) != 1 or not (_callee(tests[0]) == "evaluate" and len(tests[0].args) == 1
                                       and _u(tests[0].args[0]) == f"{matcher}.from_task({t})"):
                raise _err(f"{name}: unrecognised match test {_u(i.test)!r}")
            if len(i.body) == 1 and isinstance(i.body[0], ast.Expr) and _callee(i.body[0].value) == "update" \
                    and _is_name(i.body[0].value.func.value, rem) and len(i.body[0].value.args) == 1:
                a = i.body[0].value.args[0]
                if _callee(a) in CLOSURES and [_u(x) for x in a.args] == [f"{t}.signature", "dag"] and not a.keywords:
                    closure = CLOSURES[_callee(a)]
                    continue
            if len(i.body) == 1 and isinstance(i.body[0], ast.Expr) and _u(i.body[0].value) == f"{rem}.add({t}.signature)":
                closure = "selfOnly"
                continue
            raise _err(f"{name}: unrecognised selection body {_u(i.body[0]).splitlines()[0]!r}")
        if isinstance(st, ast.Return):
            if not _is_name(st.value, rem or ""):
                raise _err(f"{name} does not return the selected set")
            break
        if _pure(st):
            continue
        raise _err(f"{name}: unrecognised statement {_u(st).splitlines()[0]!r}")
    if not guard or closure is None:
        raise _err(f"{name}: `if not <expr>: return None` / the selection loop not found")
    return closure


def _deselect_others():
    fn = _mark_func("_deselect_others_with_mark")
    if _params(fn) != ["session", "remaining", "mark"]:
        raise _err("_deselect_others_with_mark: expected (session, remaining, mark)")
    b = _body(fn)
    ok = (len(b) == 1 and isinstance(b[0], ast.For) and _u(b[0].iter) == "session.tasks" and isinstance(b[0].target, ast.Name)
          and len(b[0].body) == 1 and isinstance(b[0].body[0], ast.If) and not b[0].body[0].orelse and not b[0].orelse)
    if ok:
        t = b[0].target.id
        i = b[0].body[0]
        ok = _u(i.test) == f"{t}.signature not in remaining" and len(i.body) == 1 and _u(i.body[0]) == f"{t}.markers.append(mark)"
    if not ok:
        raise _err("_deselect_others_with_mark is not `for task in session.tasks: if task.signature not in remaining: task.markers.append(mark)`")


def _select():
    fn = _mark_func("select_tasks_by_marks_and_expressions")
    if _params(fn) != ["session", "dag"]:
        raise _err("select_tasks_by_marks_and_expressions: expected (session, dag)")
    sets: dict[str, str] = {}
    arms = []
    mark = None
    for st in _body(fn):
        if isinstance(st, ast.Assign) and len(st.targets) == 1 and isinstance(st.targets[0], ast.Name):
            v = _u(st.value)
            which = {"select_by_keyword(session, dag)": "keyword", "select_by_mark(session, dag)": "mark",
                     "select_by_keyword(session=session, dag=dag)": "keyword", "select_by_mark(session=session, dag=dag)": "mark"}.get(v)
            if which:
                if arms:
                    raise _err("select_tasks_by_marks_and_expressions: a selection is evaluated after a deselection (it would see the new skip marks)")
                sets[st.targets[0].id] = which
                continue
        if isinstance(st, ast.If) and not st.orelse and isinstance(st.test, ast.Compare) and len(st.test.ops) == 1 \
                and isinstance(st.test.ops[0], ast.IsNot) and isinstance(st.test.left, ast.Name) and st.test.left.id in sets \
                and _u(st.test.comparators[0]) == "None" and len(st.body) == 1 and isinstance(st.body[0], ast.Expr) \
                and _callee(st.body[0].value) == "_deselect_others_with_mark":
            c = st.body[0].value
            a = list(c.args) + [k.value for k in c.keywords]
            if len(a) != 3 or _u(a[0]) != "session" or not _is_name(a[1], st.test.left.id) or _callee(a[2]) != "Mark" \
                    or not a[2].args or _str_const(a[2].args[0]) is None:
                raise _err(f"select_tasks_by_marks_and_expressions: unrecognised deselection {_u(c)!r}")
            m = _str_const(a[2].args[0])
            if mark not in (None, m):
                raise _err("select_tasks_by_marks_and_expressions: the deselections attach different marks")
            mark = m
            arms.append((sets[st.test.left.id],))
            continue
        if _pure(st):
            continue
        raise _err(f"select_tasks_by_marks_and_expressions: unrecognised statement {_u(st).splitlines()[0]!r}")
    if not arms or mark is None:
        raise _err("select_tasks_by_marks_and_expressions: no deselection found")
    if len(set(arms)) != len(arms):
        raise _err("select_tasks_by_marks_and_expressions: a selection is applied twice")
    return arms, mark


SCHEMA = """\
/-! DAG construction facts (harness/extract_dag.py): dag.py and the selection of mark/__init__.py. -/
namespace Dag
inductive NodeOp | addNode | edgeToTask | edgeFromTask | wrapperEdge
deriving Repr, DecidableEq
inductive CStep | addTask | forDeps (ops : List NodeOp) | forProds (ops : List NodeOp)
deriving Repr, DecidableEq
inductive AKind | list | str
deriving Repr, DecidableEq
inductive Via | successors | predecessors
deriving Repr, DecidableEq
structure ABranch where
  kind : AKind
  discardSelf : Bool
  via : Via
deriving Repr, DecidableEq
inductive Cmp | gt | ge | eq
deriving Repr, DecidableEq
inductive Sel | keyword | mark
deriving Repr, DecidableEq
inductive Closure | selfAndAncestors | ancestors | selfAndDescendants | descendants | selfOnly
deriving Repr, DecidableEq
structure Flow where
  op : String
  input : Nat
  output : Nat
deriving Repr, DecidableEq
"""


def dag_section() -> list[str]:
    X = _host()
    try:
        _create_dag_wrapper()
        steps, ret = _flow()
        csteps = _create_steps()
        branches, in_place = _modify_branches()
        cyc = _cycles_check()
        pkey, pcmp, pbound = _product_check()
        _descending_shape()
        ck = _select_by("select_by_keyword", "expression", "KeywordMatcher")
        cm = _select_by("select_by_mark", "marker_expression", "MarkMatcher")
        _deselect_others()
        arms, mark = _select()
    except X.ExtractError:
        raise
    except Exception as e:  # noqa: BLE001
        raise _err(f"extractor crashed: {type(e).__name__}: {e}") from None
    b = X.lean_bool
    L = SCHEMA.rstrip("\n").split("\n")
    L.append("/-- `create_dag_from_session`: (step, version of the graph variable read, version bound); the version returned. -/")
    L.append("def flow : List Flow := [" + ", ".join(f"⟨{X.lean_str(o)}, {i}, {u}⟩" for o, i, u in steps) + "]")
    L.append(f"def flowReturn : Nat := {ret}")
    L.append("/-- `_modify_dag` adds the edges to the graph object it was given and returns it. -/")
    L.append(f"def modifyInPlace : Bool := {b(in_place)}")
    L.append("/-- `_create_dag_from_tasks`: per task, in source order. -/")
    L.append("def createSteps : List CStep := [" + ", ".join(
        ".addTask" if s[0] == "addTask" else f"(.{s[0]} {_lean(s[1])})" for s in csteps) + "]")
    L.append("/-- `_modify_dag`: the branches on the type of `after`. -/")
    L.append("def modifyBranches : List ABranch := [" + ", ".join(f"⟨.{k}, {b(d)}, {_lean(v)}⟩" for k, d, v in branches) + "]")
    L.append(f"def cyclesWholeGraph : Bool := {b(cyc)}")
    L.append("/-- `_check_if_tasks_have_the_same_products`: attribute key tested, comparison of the number of predecessors. -/")
    L.append(f"def productKey : String := {X.lean_str(pkey)}")
    L.append(f"def productCmp : Cmp := .{pcmp}")
    L.append(f"def productBound : Nat := {pbound}")
    L.append("/-- the selection: order of the deselections, closure of each selection, the mark attached. -/")
    L.append(f"def selectArms : List Sel := {_lean(arms)}")
    L.append(f"def selectClosures : List (Sel × Closure) := [(.keyword, .{ck}), (.mark, .{cm})]")
    L.append(f"def selectMark : String := {X.lean_str(mark)}")
    L.append("end Dag")
    L.append("")
    return L


if __name__ == "__main__":
    print("\n".join(dag_section()))
