"""Translator section for the capture model M10 (`lean/PytaskModel/CaptureGen.lean`): what the methods of the capture
classes in `_pytask/capture.py` do INSIDE, read with `ast` from the tree under check.

`extract_capture.py` extracts the statement order of `task_capture`, `pytask_post_parse`, the `collect_log` wrapper, the
`_get_multicapture` table and the hook orders; `Capture.lean` consumes those directly. This section covers what
`Capture.lean` still writes out by hand — the bodies of the capture objects' methods — as data in `Pytask.Generated.Cap`:

* `sysStart/Done/Suspend/Resume/Writeorg`, `fdStart/Done/Suspend/Resume/Writeorg : List String`
      the statements of the `SysCaptureBase` / `FDCaptureBase` methods IN SOURCE ORDER as tokens
      (`assert:<states>`, `ret-if:<state>`, `std:=tmp`, `std:=old`, `del-old`, `tmp.close`, `state:=<s>`, `dup2:tmp->target`,
      `dup2:save->target`, `close:save`, `invalid-cleanup`, `sys.<method>`, `old.write`, `old.flush`, `write:save:<encoding>`);
* `sysSnap*`, `fdSnap*`   what `snap()` does to its buffer, by symbolic evaluation of the file position / size:
      read from position 0, whole content through the text layer, buffer empty afterwards, position 0 afterwards;
* `fdInit*`               `FDCaptureBase.__init__`: probe by `os.fstat`, save by `os.dup`, the temporary file's `buffering`,
      `encoding`, `errors`, `newline`, `write_through`, which sys-level capture is attached for which descriptor;
* `mcStart/Suspend/Resume/Stop : List (String × String × String)`   the guarded calls of the `MultiCapture` methods as a SET
      (cap, guard, call), sorted — their mutual order is deliberately not recorded: the three captures are built for
      descriptors 0, 1, 2 (see `multicaptureTable`) and act on disjoint state, so out-before-err or err-before-out is the same
      behaviour — plus the `_state` each method sets and its extra flag updates;
* `mcReadouterr`, `mcPop`, `cmStart/Stop/Resume/Suspend/Read : List String`.

Fail-closed: a statement of an unknown shape raises ExtractError. Tolerant to renamed locals (simple aliases such as
`tmp = self.tmpfile` are substituted), docstrings, comments, type annotations, formatting.

Hook into `extract.py` with:   from extract_capgen import capgen_section; EXTRA_SECTIONS.append(capgen_section)
"""
from __future__ import annotations

import ast
import sys


def _host():
    m = sys.modules.get("__main__")
    if m is not None and hasattr(m, "ExtractError") and hasattr(m, "_parse") and hasattr(m, "EXTRA_SECTIONS"):
        return m
    import extract
    return extract


def _err(msg: str):
    return _host().ExtractError("capgen: " + msg)


def _u(n) -> str:
    return ast.unparse(n)


def _body(fn) -> list:
    b = list(fn.body)
    if b and isinstance(b[0], ast.Expr) and isinstance(b[0].value, ast.Constant) and isinstance(b[0].value.value, str):
        b = b[1:]
    return b


def _method(cls: str, name: str) -> ast.FunctionDef:
    mod = _host()._parse("capture.py")
    for n in mod.body:
        if isinstance(n, ast.ClassDef) and n.name == cls:
            fns = [b for b in n.body if isinstance(b, ast.FunctionDef) and b.name == name]
            if len(fns) != 1:
                raise _err(f"{cls}.{name}: defined {len(fns)} times")
            return fns[0]
    raise _err(f"class {cls} not found")


class _Subst(ast.NodeTransformer):
    def __init__(self, env):
        self.env = env

    def visit_Name(self, node):
        if isinstance(node.ctx, ast.Load) and node.id in self.env:
            return self.env[node.id]
        return node


def _norm(stmts: list, where: str) -> list:
    """substitute simple local aliases (`x = self.attr`) and drop them; strip annotations"""
    env = {}
    out = []
    for st in stmts:
        st = _Subst(env).visit(st)
        if isinstance(st, ast.Assign) and len(st.targets) == 1 and isinstance(st.targets[0], ast.Name) \
                and isinstance(st.value, ast.Attribute) and _u(st.value).startswith("self."):
            env[st.targets[0].id] = st.value
            continue
        if isinstance(st, ast.AnnAssign) and st.value is not None:
            st = ast.fix_missing_locations(ast.copy_location(ast.Assign(targets=[st.target], value=st.value), st))
        out.append(st)
    return out


def _states(node, where) -> str:
    if isinstance(node, ast.Tuple) and all(isinstance(e, ast.Constant) and isinstance(e.value, str) for e in node.elts):
        return ",".join(e.value for e in node.elts)
    raise _err(f"{where}: states of _assert_state are not a tuple of literals")


def _state_stmt(st, where):
    """tokens shared by the Sys and FD capture methods; None if `st` is none of them"""
    s = _u(st)
    if isinstance(st, ast.Expr) and isinstance(st.value, ast.Call) and _u(st.value.func) == "self._assert_state" and len(st.value.args) == 2:
        return "assert:" + _states(st.value.args[1], where)
    if isinstance(st, ast.If) and not st.orelse and len(st.body) == 1 and isinstance(st.body[0], ast.Return) and st.body[0].value is None:
        t = st.test
        if isinstance(t, ast.Compare) and _u(t.left) == "self._state" and len(t.ops) == 1 and isinstance(t.ops[0], ast.Eq) \
                and isinstance(t.comparators[0], ast.Constant):
            return "ret-if:" + t.comparators[0].value
    if isinstance(st, ast.Assign) and len(st.targets) == 1 and _u(st.targets[0]) == "self._state" and isinstance(st.value, ast.Constant):
        return "state:=" + st.value.value
    if s == "self.tmpfile.close()":
        return "tmp.close"
    return None


def sys_method(name: str) -> list[str]:
    where = f"SysCaptureBase.{name}"
    out = []
    for st in _norm(_body(_method("SysCaptureBase", name)), where):
        tok = _state_stmt(st, where)
        s = _u(st)
        if tok is None:
            if s == "setattr(sys, self.name, self.tmpfile)":
                tok = "std:=tmp"
            elif s == "setattr(sys, self.name, self._old)":
                tok = "std:=old"
            elif s == "del self._old":
                tok = "del-old"
        if tok is None:
            raise _err(f"{where}: unrecognised statement {s!r}")
        out.append(tok)
    return out


def sys_writeorg() -> list[str]:
    where = "SysCapture.writeorg"
    out = []
    for st in _norm(_body(_method("SysCapture", "writeorg")), where):
        tok = _state_stmt(st, where)
        s = _u(st)
        if tok is None:
            tok = {"self._old.write(data)": "old.write", "self._old.flush()": "old.flush"}.get(s)
        if tok is None:
            raise _err(f"{where}: unrecognised statement {s!r}")
        out.append(tok)
    return out


def fd_method(cls: str, name: str) -> list[str]:
    where = f"{cls}.{name}"
    out = []
    for st in _norm(_body(_method(cls, name)), where):
        tok = _state_stmt(st, where)
        s = _u(st)
        if tok is None:
            if s == "os.dup2(self.tmpfile.fileno(), self.targetfd)":
                tok = "dup2:tmp->target"
            elif s == "os.dup2(self.targetfd_save, self.targetfd)":
                tok = "dup2:save->target"
            elif s == "os.close(self.targetfd_save)":
                tok = "close:save"
            elif s in ("self.syscapture.start()", "self.syscapture.done()", "self.syscapture.suspend()", "self.syscapture.resume()"):
                tok = "sys." + s[len("self.syscapture."):-2]
            elif isinstance(st, ast.If) and _u(st.test) == "self.targetfd_invalid is not None" and not st.orelse:
                inner = [_u(x) for x in st.body]
                if inner != ["if self.targetfd_invalid != self.targetfd:\n    os.close(self.targetfd)", "os.close(self.targetfd_invalid)"]:
                    raise _err(f"{where}: unrecognised clean-up of an invalid target descriptor {inner}")
                tok = "invalid-cleanup"
            elif isinstance(st, ast.Expr) and isinstance(st.value, ast.Call) and _u(st.value.func) == "os.write" and len(st.value.args) == 2 \
                    and _u(st.value.args[0]) == "self.targetfd_save":
                a = st.value.args[1]
                if isinstance(a, ast.Call) and _u(a.func) == "data.encode" and len(a.args) == 1 and isinstance(a.args[0], ast.Constant):
                    tok = "write:save:" + str(a.args[0].value)
        if tok is None:
            raise _err(f"{where}: unrecognised statement {s!r}")
        out.append(tok)
    return out


# ------------------------------------------------------------------------------------------------
# snap(): symbolic file position / size
# ------------------------------------------------------------------------------------------------

def snap_facts(cls: str) -> dict:
    """`res = <read>; …; return res` over one buffer with the operations seek(0) / read() / getvalue() / truncate([0])"""
    where = f"{cls}.snap"
    stmts = _norm(_body(_method(cls, "snap")), where)
    facts = {"assert": None, "assert_captureio": False}
    pos, size = "?", "content"      # position: '?', 0, 'end'; size: 'content', 0, '?'
    res_var = None
    read_from = None
    how = None
    for st in stmts:
        s = _u(st)
        tok = _state_stmt(st, where)
        if tok is not None and tok.startswith("assert:"):
            facts["assert"] = tok[len("assert:"):]
            continue
        if isinstance(st, ast.Assert) and s.replace(" ", "") == "assertisinstance(self.tmpfile,CaptureIO)":
            facts["assert_captureio"] = True
            continue
        if s == "self.tmpfile.seek(0)":
            pos = 0
            continue
        if s == "self.tmpfile.truncate()":
            size = 0 if pos == 0 else "?"
            continue
        if s == "self.tmpfile.truncate(0)":
            size = 0
            continue
        if isinstance(st, ast.Assign) and len(st.targets) == 1 and isinstance(st.targets[0], ast.Name):
            v = _u(st.value)
            if v == "self.tmpfile.read()":
                how, read_from, res_var, pos = "text-read", pos, st.targets[0].id, "end"
                continue
            if v == "self.tmpfile.getvalue()":
                how, read_from, res_var = "getvalue", 0, st.targets[0].id
                continue
        if isinstance(st, ast.Return) and isinstance(st.value, ast.Name) and st.value.id == res_var:
            continue
        raise _err(f"{where}: unrecognised statement {s!r}")
    if how is None:
        raise _err(f"{where}: no read of the buffer found")
    facts.update(how=how, from_start=(read_from == 0), emptied=(size == 0), rewound=(pos == 0))
    return facts


# ------------------------------------------------------------------------------------------------
# FDCaptureBase.__init__
# ------------------------------------------------------------------------------------------------

def fd_init() -> dict:
    where = "FDCaptureBase.__init__"
    body = _norm(_body(_method("FDCaptureBase", "__init__")), where)
    f = {}
    if not body or _u(body[0]) != "self.targetfd = targetfd":
        raise _err(f"{where}: does not start with self.targetfd = targetfd")
    rest = body[1:]
    if not (rest and isinstance(rest[0], ast.Try)):
        raise _err(f"{where}: probe of the target descriptor (try/except) not found")
    tr = rest[0]
    if [_u(x) for x in tr.body] != ["os.fstat(targetfd)"] or len(tr.handlers) != 1 or _u(tr.handlers[0].type) != "OSError" or tr.finalbody:
        raise _err(f"{where}: probe is not `try: os.fstat(targetfd) except OSError`")
    hb = [_u(x) for x in _norm(tr.handlers[0].body, where)]
    if hb != ["self.targetfd_invalid = os.open(os.devnull, os.O_RDWR)", "os.dup2(self.targetfd_invalid, targetfd)"]:
        raise _err(f"{where}: unrecognised handling of an invalid target descriptor {hb}")
    if [_u(x) for x in _norm(tr.orelse, where)] != ["self.targetfd_invalid = None"]:
        raise _err(f"{where}: unrecognised else branch of the probe")
    f["probe"] = "fstat"
    rest = rest[1:]
    if not rest or _u(rest[0]) != "self.targetfd_save = os.dup(targetfd)":
        raise _err(f"{where}: the target descriptor is not saved by os.dup(targetfd) right after the probe")
    f["save"] = "dup"
    rest = rest[1:]
    if not (rest and isinstance(rest[0], ast.If) and _u(rest[0].test) == "targetfd == 0"):
        raise _err(f"{where}: stdin branch `if targetfd == 0` not found")
    br = rest[0]
    b0 = _norm(br.body, where)
    if len(b0) != 2:
        raise _err(f"{where}: stdin branch has {len(b0)} statements")
    c = b0[0].value if isinstance(b0[0], ast.Assign) and _u(b0[0].targets[0]) == "self.tmpfile" else None
    if not (isinstance(c, ast.Call) and _u(c.func) == "open" and len(c.args) == 1 and _u(c.args[0]) == "os.devnull"):
        raise _err(f"{where}: stdin tmpfile is not open(os.devnull, …)")
    if not (isinstance(b0[1], ast.Assign) and _u(b0[1].targets[0]) == "self.syscapture" and _u(b0[1].value) == "SysCapture(targetfd)"):
        raise _err(f"{where}: stdin syscapture is not SysCapture(targetfd)")
    f["stdin"] = "devnull+SysCapture(targetfd)"
    b1 = _norm(br.orelse, where)
    if len(b1) != 2:
        raise _err(f"{where}: output branch has {len(b1)} statements")
    c = b1[0].value if isinstance(b1[0], ast.Assign) and _u(b1[0].targets[0]) == "self.tmpfile" else None
    if not (isinstance(c, ast.Call) and _u(c.func) == "EncodedFile" and len(c.args) == 1):
        raise _err(f"{where}: output tmpfile is not EncodedFile(<file>, …)")
    raw = c.args[0]
    if not (isinstance(raw, ast.Call) and _u(raw.func) == "TemporaryFile" and not raw.args):
        raise _err(f"{where}: output tmpfile does not wrap TemporaryFile(…)")
    rkw = {k.arg: k.value for k in raw.keywords}
    if set(rkw) - {"buffering"}:
        raise _err(f"{where}: TemporaryFile keywords {sorted(rkw)}")
    f["buffering"] = rkw["buffering"].value if "buffering" in rkw and isinstance(rkw["buffering"], ast.Constant) else -1
    kw = {k.arg: k.value for k in c.keywords}
    if set(kw) - {"encoding", "errors", "newline", "write_through"} or not all(isinstance(v, ast.Constant) for v in kw.values()):
        raise _err(f"{where}: EncodedFile keywords {sorted(kw)}")
    f["encoding"] = kw["encoding"].value if "encoding" in kw else "<locale>"
    f["errors"] = kw["errors"].value if "errors" in kw else "strict"
    f["newline"] = kw["newline"].value if "newline" in kw else None
    f["write_through"] = bool(kw["write_through"].value) if "write_through" in kw else False
    sel = b1[1]
    ok = (isinstance(sel, ast.If) and _u(sel.test) == "targetfd in patchsysdict"
          and [_u(x) for x in sel.body] == ["self.syscapture = SysCapture(targetfd, self.tmpfile)"]
          and [_u(x) for x in sel.orelse] == ["self.syscapture = NoCapture(targetfd)"])
    if not ok:
        raise _err(f"{where}: unrecognised choice of the sys-level capture {_u(sel)!r}")
    f["output_sys"] = "SysCapture(targetfd,tmpfile)|NoCapture"
    rest = rest[1:]
    if [_u(x) for x in rest] != ["self._state = 'initialized'"]:
        raise _err(f"{where}: unrecognised tail {[_u(x) for x in rest]}")
    f["state"] = "initialized"
    # patchsysdict
    mod = _host()._parse("capture.py")
    for n in mod.body:
        if isinstance(n, ast.Assign) and _u(n.targets[0]) == "patchsysdict":
            d = ast.literal_eval(n.value)
            if d != {0: "stdin", 1: "stdout", 2: "stderr"}:
                raise _err(f"patchsysdict changed: {d}")
            break
    else:
        raise _err("patchsysdict not found")
    return f


# ------------------------------------------------------------------------------------------------
# MultiCapture / CaptureManager
# ------------------------------------------------------------------------------------------------

def _cap_call(st, meth: str):
    """`self.<cap>.<meth>()` -> cap"""
    s = _u(st)
    for cap in ("in_", "out", "err"):
        if s == f"self.{cap}.{meth}()":
            return cap
    return None


def mc_method(name: str, meth: str) -> tuple[list, str, list]:
    """(entries (cap, guard, call) sorted, state token, extra flag tokens sorted)"""
    where = f"MultiCapture.{name}"
    entries, state, extra = [], None, []
    for st in _norm(_body(_method("MultiCapture", name)), where):
        s = _u(st)
        if isinstance(st, ast.Assign) and _u(st.targets[0]) == "self._state" and isinstance(st.value, ast.Constant):
            state = st.value.value
            continue
        if isinstance(st, ast.If) and _u(st.test) == "self._state == 'stopped'" and not st.orelse \
                and isinstance(st.body[-1], ast.Raise):
            extra.append("raise-if-stopped")
            continue
        if isinstance(st, ast.If) and not st.orelse:
            t = _u(st.test)
            body = list(st.body)
            caps = [_cap_call(x, meth) for x in body]
            flags = [_u(x) for x in body if _cap_call(x, meth) is None]
            cap = next((c for c in caps if c), None)
            if cap is None:
                raise _err(f"{where}: unrecognised guarded block {s!r}")
            if t == f"self.{cap}":
                guard = "if-self"
            elif t == f"in_ and self.{cap}":
                guard = "arg-and-self"
            elif t == "self._in_suspended":
                guard = "if-in-suspended"
            else:
                raise _err(f"{where}: unrecognised guard {t!r}")
            call = meth
            for fl in flags:
                if fl == "self._in_suspended = True":
                    call += "+in_suspended:=True"
                elif fl == "self._in_suspended = False":
                    call += "+in_suspended:=False"
                else:
                    raise _err(f"{where}: unrecognised statement {fl!r} in guarded block")
            entries.append((cap, guard, call))
            continue
        raise _err(f"{where}: unrecognised statement {s!r}")
    if state is None:
        raise _err(f"{where}: does not set self._state")
    if len({e[0] for e in entries}) != len(entries):
        raise _err(f"{where}: a capture is handled twice")
    return sorted(entries), state, sorted(extra)


def mc_readouterr() -> list[str]:
    where = "MultiCapture.readouterr"
    toks = []
    for st in _norm(_body(_method("MultiCapture", "readouterr")), where):
        s = _u(st).replace('"', "'")
        if s == "out = self.out.snap() if self.out else ''":
            toks.append("out:=out.snap|''")
        elif s == "err = self.err.snap() if self.err else ''":
            toks.append("err:=err.snap|''")
        elif s == "return CaptureResult(out, err)":
            toks.append("return(out,err)")
        else:
            raise _err(f"{where}: unrecognised statement {s!r}")
    return toks


def mc_pop() -> list[str]:
    where = "MultiCapture.pop_outerr_to_orig"
    toks = []
    for st in _norm(_body(_method("MultiCapture", "pop_outerr_to_orig")), where):
        s = _u(st).replace(" ", "")
        if s in ("out,err=self.readouterr()", "(out,err)=self.readouterr()"):
            toks.append("out,err:=readouterr")
        elif s == "ifout:\n    self.out.writeorg(out)".replace(" ", "") or s == "ifout:\nself.out.writeorg(out)":
            toks.append("if-out:out.writeorg")
        elif s == "iferr:\nself.err.writeorg(err)":
            toks.append("if-err:err.writeorg")
        elif s in ("return(out,err)", "returnout,err"):
            toks.append("return(out,err)")
        else:
            raise _err(f"{where}: unrecognised statement {_u(st)!r}")
    return toks


def cm_method(name: str) -> list[str]:
    """CaptureManager.start_capturing / stop_capturing / resume / suspend / read as tokens; try/finally is recorded."""
    where = f"CaptureManager.{name}"

    def simple(st):
        s = _u(st)
        table = {
            "assert self._capturing is None": "assert-none",
            "assert self._capturing is not None": "assert-some",
            "self._capturing = _get_multicapture(self._method)": "capturing:=get_multicapture",
            "self._capturing.start_capturing()": "mc.start",
            "self._capturing.pop_outerr_to_orig()": "mc.pop",
            "self._capturing.stop_capturing()": "mc.stop",
            "self._capturing = None": "capturing:=None",
            "self._capturing.resume_capturing()": "mc.resume",
            "self._capturing.suspend_capturing(in_=in_)": "mc.suspend(in_)",
            "return self._capturing.readouterr()": "return mc.readouterr",
        }
        if s not in table:
            raise _err(f"{where}: unrecognised statement {s!r}")
        return table[s]

    def block(stmts):
        out = []
        for st in stmts:
            if isinstance(st, ast.If) and _u(st.test) == "self._capturing is not None" and not st.orelse:
                out.append("if-some[")
                out += block(st.body)
                out.append("]")
            elif isinstance(st, ast.Try) and not st.handlers and not st.orelse:
                out.append("try[")
                out += block(st.body)
                out.append("]finally[")
                out += block(st.finalbody)
                out.append("]")
            else:
                out.append(simple(st))
        return out

    return block(_norm(_body(_method("CaptureManager", name)), where))


# ------------------------------------------------------------------------------------------------
# IO helpers (CaptureIO, TeeCaptureIO) and the other modules' hooks on process-global state
# ------------------------------------------------------------------------------------------------

def io_facts() -> dict:
    f = {}
    init = _body(_method("CaptureIO", "__init__"))
    if len(init) != 1:
        raise _err("CaptureIO.__init__: more than one statement")
    c = init[0].value if isinstance(init[0], ast.Expr) else None
    if not (isinstance(c, ast.Call) and _u(c.func) == "super().__init__" and len(c.args) == 1 and _u(c.args[0]) == "io.BytesIO()"):
        raise _err(f"CaptureIO.__init__: not super().__init__(io.BytesIO(), …): {_u(init[0])!r}")
    kw = {k.arg: k.value for k in c.keywords}
    if set(kw) - {"encoding", "newline", "write_through"} or not all(isinstance(v, ast.Constant) for v in kw.values()):
        raise _err(f"CaptureIO.__init__: keywords {sorted(kw)}")
    f["encoding"] = str(kw["encoding"].value).lower() if "encoding" in kw else "<locale>"
    f["newline"] = kw["newline"].value if "newline" in kw else None
    f["write_through"] = bool(kw["write_through"].value) if "write_through" in kw else False
    gv = [x for x in _body(_method("CaptureIO", "getvalue")) if not isinstance(x, ast.Assert)]
    if [_u(x).replace('"', "'") for x in gv] != ["return self.buffer.getvalue().decode('UTF-8')"]:
        raise _err(f"CaptureIO.getvalue: unrecognised body {[_u(x) for x in gv]}")
    f["getvalue"] = "buffer.getvalue().decode(utf-8)"
    ti = [_u(x) for x in _body(_method("TeeCaptureIO", "__init__"))]
    if ti != ["self._other = other", "super().__init__()"]:
        raise _err(f"TeeCaptureIO.__init__: unrecognised body {ti}")
    tw = []
    for st in _body(_method("TeeCaptureIO", "write")):
        x = _u(st)
        if x == "super().write(s)":
            tw.append("record")
        elif x == "return self._other.write(s)":
            tw.append("return other.write")
        elif x == "self._other.write(s)":
            tw.append("other.write")
        elif x == "return super().write(s)":
            tw.append("return record")
        else:
            raise _err(f"TeeCaptureIO.write: unrecognised statement {x!r}")
    f["tee_write"] = tw
    return f


def _hook(modname: str, name: str):
    mod = _host()._parse(modname)
    fns = [n for n in mod.body if isinstance(n, ast.FunctionDef) and n.name == name]
    if len(fns) != 1:
        raise _err(f"{modname}: {name} defined {len(fns)} times at top level")
    return fns[0]


def _debugging_unconfigure() -> list[str]:
    """`pdb.set_trace, _, _ = PytaskPDB._saved.pop()` or `x = PytaskPDB._saved.pop(); pdb.set_trace = x[0]` ->
    ['pop', 'set_trace:=popped[0]']; a pop whose first component does not go to pdb.set_trace -> ['pop']"""
    out = []
    popped = None
    for st in _body(_hook("debugging.py", "pytask_unconfigure")):
        if isinstance(st, ast.Assign) and len(st.targets) == 1 and _u(st.value) == "PytaskPDB._saved.pop()":
            out.append("pop")
            t = st.targets[0]
            if isinstance(t, ast.Tuple):
                if t.elts and _u(t.elts[0]) == "pdb.set_trace":
                    out.append("set_trace:=popped[0]")
                if len(t.elts) > 1 and _u(t.elts[1]) == "PytaskPDB._pluginmanager":
                    out.append("pm:=popped[1]")
                if len(t.elts) > 2 and _u(t.elts[2]) == "PytaskPDB._config":
                    out.append("config:=popped[2]")
            elif isinstance(t, ast.Name):
                popped = t.id
            else:
                raise _err(f"debugging.pytask_unconfigure: unrecognised target {_u(t)!r}")
        elif isinstance(st, ast.Expr) and _u(st.value) == "PytaskPDB._saved.pop()":
            out.append("pop")
        elif isinstance(st, ast.Assign) and _u(st).replace(" ", "") == "PytaskPDB._wrapped_pdb_cls=None":
            out.append("wrapped:=None")
        elif isinstance(st, ast.If) and _u(st.test) == "PytaskPDB._pluginmanager is not None" and not st.orelse:
            inner = [_u(x).replace('"', "'") for x in st.body]
            if inner != ["live_manager = PytaskPDB._pluginmanager.get_plugin('live_manager')",
                         "if live_manager is not None and live_manager.is_started:\n    live_manager.stop()"]:
                raise _err(f"debugging.pytask_unconfigure: unrecognised block {inner}")
            out.append("stop-live-if-started")
        elif isinstance(st, ast.Assign) and len(st.targets) == 1 and _u(st.targets[0]) == "pdb.set_trace" and popped is not None \
                and _u(st.value) == f"{popped}[0]":
            out.append("set_trace:=popped[0]")
        else:
            raise _err(f"debugging.pytask_unconfigure: unrecognised statement {_u(st)!r}")
    return out


def misc_hooks() -> dict:
    """bodies of the hooks of debugging / logging / task / provisional / warnings that touch process-global state"""
    f = {}
    f["debugging_unconfigure"] = _debugging_unconfigure()
    pp = [_u(x).replace(" ", "") for x in _body(_hook("debugging.py", "pytask_post_parse"))]
    tail = pp[-4:]
    want = ["PytaskPDB._saved.append((pdb.set_trace,PytaskPDB._pluginmanager,PytaskPDB._config))", "pdb.set_trace=PytaskPDB.set_trace",
            "PytaskPDB._pluginmanager=config['pm']", "PytaskPDB._config=config"]
    f["debugging_post_parse"] = "push;set_trace:=PytaskPDB.set_trace" if tail == want else "?" + ";".join(tail)
    f["logging_unconfigure"] = sorted(_u(x).replace(" ", "").replace('"', "'") for x in _body(_hook("logging.py", "pytask_unconfigure")))
    f["logging_post_parse"] = sorted(_u(x).replace(" ", "").replace('"', "'") for x in _body(_hook("logging.py", "pytask_post_parse")))
    f["task_unconfigure"] = [_u(x).replace(" ", "") for x in _body(_hook("task.py", "pytask_unconfigure"))]
    f["provisional_unconfigure"] = [_u(x).replace(" ", "") for x in _body(_hook("provisional.py", "pytask_unconfigure"))]
    # capture.pytask_unconfigure
    f["capture_unconfigure"] = [_u(x).replace("\n", " ").replace('"', "'") for x in _body(_hook("capture.py", "pytask_unconfigure"))]
    f["database_unconfigure"] = [_u(x).replace("\n", " ").replace('"', "'") for x in _body(_hook("database.py", "pytask_unconfigure"))]
    # warnings: the first statement of catch_warnings_for_item is the isolating context manager
    cw = _body(_hook("warnings_utils.py", "catch_warnings_for_item"))
    first = cw[0] if cw else None
    ok = isinstance(first, ast.With) and len(first.items) == 1 and _u(first.items[0].context_expr).replace(" ", "") == "warnings.catch_warnings(record=True)" and len(cw) == 1
    f["warnings_isolated"] = bool(ok)
    # warnings.pytask_post_parse: registers the namespace unless disabled and does nothing else (in particular it installs no filter
    # in the process-wide `warnings.filters`: configured filters are applied inside `catch_warnings_for_item` only)
    wp = _body(_hook("warnings.py", "pytask_post_parse"))
    ok = (len(wp) == 1 and isinstance(wp[0], ast.If) and not wp[0].orelse
          and _u(wp[0].test).replace('"', "'") == "not config['disable_warnings']"
          and [_u(x).replace('"', "'") for x in wp[0].body] == ["config['pm'].register(WarningsNameSpace)"])
    f["warnings_post_parse_registers_only"] = bool(ok)
    # build.pytask_post_parse (runs after capture.pytask_post_parse): everything it does is inside `with suppress(Exception)`, so a
    # broken file_hashes.json cannot make the configuration fail once capturing has started
    bp = _body(_hook("build.py", "pytask_post_parse"))
    f["build_post_parse_tolerant"] = bool(len(bp) == 1 and isinstance(bp[0], ast.With) and len(bp[0].items) == 1
                                          and _u(bp[0].items[0].context_expr) in ("suppress(Exception)", "contextlib.suppress(Exception)"))
    # build(): pytask_unconfigure is the last, unconditional statement of the branch taken when configuration succeeded
    fn = _hook("build.py", "build")
    tries = [n for n in fn.body if isinstance(n, ast.Try)]
    last = tries[0].orelse[-1] if tries and tries[0].orelse else None
    f["build_unconfigure_unconditional"] = bool(isinstance(last, ast.Expr) and _u(last) == "session.hook.pytask_unconfigure(session=session)")
    return f


def report_sections() -> list[str]:
    """the `sections` argument of the ExecutionReport built by `from_task` / `from_task_and_exception` (reports.py)"""
    mod = _host()._parse("reports.py")
    cls = next((n for n in mod.body if isinstance(n, ast.ClassDef) and n.name == "ExecutionReport"), None)
    if cls is None:
        raise _err("reports.py: class ExecutionReport not found")
    fields = [b.target.id for b in cls.body if isinstance(b, ast.AnnAssign) and isinstance(b.target, ast.Name)
              and "ClassVar" not in _u(b.annotation)]
    if fields[:4] != ["task", "outcome", "exc_info", "sections"]:
        raise _err(f"ExecutionReport: fields {fields}")
    out = []
    for name in ("from_task", "from_task_and_exception"):
        fn = next((b for b in cls.body if isinstance(b, ast.FunctionDef) and b.name == name), None)
        if fn is None:
            raise _err(f"ExecutionReport.{name} not found")
        body = _norm(_body(fn), f"ExecutionReport.{name}")
        if len(body) != 1 or not (isinstance(body[0], ast.Return) and isinstance(body[0].value, ast.Call) and _u(body[0].value.func) == "cls"):
            raise _err(f"ExecutionReport.{name}: not a single `return cls(…)`")
        c = body[0].value
        kw = {k.arg: k.value for k in c.keywords}
        sec = c.args[3] if len(c.args) >= 4 else kw.get("sections")
        if sec is None:
            raise _err(f"ExecutionReport.{name}: no sections argument")
        out.append(_u(sec))
    return out


def protocol_reports() -> list[tuple[str, str]]:
    """every report constructed in `execute.pytask_execute_task_protocol`: (branch, constructor). Each way a task can end — return
    (`else`), an ordinary exception or sys.exit (`except (Exception, SystemExit)`), KeyboardInterrupt — must build its report with
    `ExecutionReport.from_task(task)` / `.from_task_and_exception(task, …)` (which copy `task.report_sections`, see
    `report_sections`); a report built any other way is not recognised."""
    fn = _hook("execute.py", "pytask_execute_task_protocol")
    tries = [st for st in _body(fn) if isinstance(st, ast.Try)]
    if len(tries) != 1:
        raise _err("pytask_execute_task_protocol: expected exactly one try statement")
    tr = tries[0]

    def ctor(stmts, where):
        found = []
        for st in stmts:
            for n in ast.walk(st):
                if isinstance(n, ast.Call) and "ExecutionReport" in _u(n.func):
                    f = _u(n.func)
                    if f not in ("ExecutionReport.from_task", "ExecutionReport.from_task_and_exception"):
                        raise _err(f"pytask_execute_task_protocol ({where}): report built by {f}(…), not by from_task / from_task_and_exception")
                    if not n.args or _u(n.args[0]) != "task":
                        raise _err(f"pytask_execute_task_protocol ({where}): {f} is not called with the task")
                    found.append(f.split(".")[1])
        assigns = [st for st in stmts if isinstance(st, ast.Assign) and _u(st.targets[0]) == "report"]
        if len(found) != 1 or len(assigns) != 1:
            raise _err(f"pytask_execute_task_protocol ({where}): expected exactly one `report = ExecutionReport.from_…(task, …)`")
        return found[0]

    out = []
    for h in tr.handlers:
        if h.type is None:
            name = "BaseException"
        elif isinstance(h.type, ast.Tuple):
            name = ",".join(_u(e) for e in h.type.elts)
        else:
            name = _u(h.type)
        out.append((name, ctor(h.body, name)))
    if not tr.orelse:
        raise _err("pytask_execute_task_protocol: no else branch")
    out.append(("else", ctor(tr.orelse, "else")))
    for st in _body(fn):
        if st is not tr:
            for n in ast.walk(st):
                if isinstance(n, ast.Call) and "ExecutionReport" in _u(n.func):
                    raise _err("pytask_execute_task_protocol: a report is built outside the try statement")
    return out


def _split(tok: str):
    """'assert:a,b' -> ('assert', ['a','b']); 'ret-if:x' -> ('ret-if', ['x']); 'state:=x' -> ('state', ['x']); 'sys.m' -> ('sys', ['m']);
    'write:save:utf-8' -> ('write:save', ['utf-8']); others -> (tok, [])"""
    if tok.startswith("assert:"):
        return ("assert", tok[7:].split(","))
    if tok.startswith("ret-if:"):
        return ("ret-if", [tok[7:]])
    if tok.startswith("state:="):
        return ("state", [tok[7:]])
    if tok.startswith("sys."):
        return ("sys", [tok[4:]])
    if tok.startswith("write:save:"):
        return ("write:save", [tok[11:]])
    return (tok, [])


def capgen_section() -> list[str]:
    X = _host()
    s = X.lean_str

    def strs(xs):
        return X.lean_list(xs, s)

    def b(x):
        return "true" if x else "false"

    L = ["namespace Cap", ""]
    for key, toks, doc in (
        ("sysStart", sys_method("start"), "SysCaptureBase.start"), ("sysDone", sys_method("done"), "SysCaptureBase.done"),
        ("sysSuspend", sys_method("suspend"), "SysCaptureBase.suspend"), ("sysResume", sys_method("resume"), "SysCaptureBase.resume"),
        ("sysWriteorg", sys_writeorg(), "SysCapture.writeorg"),
        ("fdStart", fd_method("FDCaptureBase", "start"), "FDCaptureBase.start"), ("fdDone", fd_method("FDCaptureBase", "done"), "FDCaptureBase.done"),
        ("fdSuspend", fd_method("FDCaptureBase", "suspend"), "FDCaptureBase.suspend"),
        ("fdResume", fd_method("FDCaptureBase", "resume"), "FDCaptureBase.resume"),
        ("fdWriteorg", fd_method("FDCapture", "writeorg"), "FDCapture.writeorg"),
    ):
        L.append(f"/-- statements of `{doc}` in source order, as (operation, arguments) -/")
        L.append(f"def {key} : List (String × List String) := " + X.lean_list([_split(t) for t in toks], lambda e: f"({s(e[0])}, {strs(e[1])})"))
    for prefix, cls in (("sysSnap", "SysCapture"), ("fdSnap", "FDCapture")):
        f = snap_facts(cls)
        L.append(f"/-- `{cls}.snap`: state assertion, kind of read, and the buffer's position / size by symbolic evaluation -/")
        L.append(f"def {prefix}Assert : List String := {strs((f['assert'] or '').split(','))}")
        L.append(f"def {prefix}How : String := {s(f['how'])}")
        L.append(f"def {prefix}FromStart : Bool := {b(f['from_start'])}")
        L.append(f"def {prefix}Emptied : Bool := {b(f['emptied'])}")
        L.append(f"def {prefix}Rewound : Bool := {b(f['rewound'])}")
        L.append(f"def {prefix}AssertsCaptureIO : Bool := {b(f['assert_captureio'])}")
    fi = fd_init()
    L.append("/-- `FDCaptureBase.__init__` -/")
    L.append(f"def fdInitProbe : String := {s(fi['probe'])}")
    L.append(f"def fdInitSave : String := {s(fi['save'])}")
    L.append(f"def fdInitStdin : String := {s(fi['stdin'])}")
    L.append(f"def fdInitOutputSys : String := {s(fi['output_sys'])}")
    L.append(f"def fdInitState : String := {s(fi['state'])}")
    L.append(f"def fdTmpBuffering : Int := {fi['buffering']}")
    L.append(f"def fdTmpEncoding : String := {s(fi['encoding'])}")
    L.append(f"def fdTmpErrors : String := {s(fi['errors'])}")
    L.append(f"def fdTmpNewline : Option String := {'none' if fi['newline'] is None else 'some ' + s(fi['newline'])}")
    L.append(f"def fdTmpWriteThrough : Bool := {b(fi['write_through'])}")
    for key, name, meth in (("mcStart", "start_capturing", "start"), ("mcSuspend", "suspend_capturing", "suspend"),
                            ("mcResume", "resume_capturing", "resume"), ("mcStop", "stop_capturing", "done")):
        ents, state, extra = mc_method(name, meth)
        L.append(f"/-- `MultiCapture.{name}`: guarded calls as a set (cap, guard, call), the state it sets, other statements -/")
        L.append(f"def {key} : List (String × String × String) := " + X.lean_list(ents, lambda e: f"({s(e[0])}, {s(e[1])}, {s(e[2])})"))
        L.append(f"def {key}State : String := {s(state)}")
        L.append(f"def {key}Extra : List String := {strs(extra)}")
    L.append("/-- `MultiCapture.readouterr`, `MultiCapture.pop_outerr_to_orig` -/")
    L.append(f"def mcReadouterr : List String := {strs(mc_readouterr())}")
    L.append(f"def mcPop : List String := {strs(mc_pop())}")
    for key, name in (("cmStart", "start_capturing"), ("cmStop", "stop_capturing"), ("cmResume", "resume"),
                      ("cmSuspend", "suspend"), ("cmRead", "read")):
        L.append(f"/-- `CaptureManager.{name}` -/")
        L.append(f"def {key} : List String := {strs(cm_method(name))}")
    io = io_facts()
    L.append("/-- `CaptureIO` (the buffer of a sys-level capture) and `TeeCaptureIO.write` -/")
    L.append(f"def captureIOEncoding : String := {s(io['encoding'])}")
    L.append(f"def captureIONewline : Option String := {'none' if io['newline'] is None else 'some ' + s(io['newline'])}")
    L.append(f"def captureIOWriteThrough : Bool := {b(io['write_through'])}")
    L.append(f"def captureIOGetvalue : String := {s(io['getvalue'])}")
    L.append(f"def teeWrite : List String := {strs(io['tee_write'])}")
    mh = misc_hooks()
    L.append("/-- hooks of other modules that touch the process-global state C15 speaks about -/")
    L.append(f"def debuggingUnconfigure : List String := {strs(mh['debugging_unconfigure'])}")
    L.append(f"def debuggingPostParse : String := {s(mh['debugging_post_parse'])}")
    L.append(f"def loggingUnconfigure : List String := {strs(mh['logging_unconfigure'])}")
    L.append(f"def loggingPostParse : List String := {strs(mh['logging_post_parse'])}")
    L.append(f"def taskUnconfigure : List String := {strs(mh['task_unconfigure'])}")
    L.append(f"def provisionalUnconfigure : List String := {strs(mh['provisional_unconfigure'])}")
    L.append(f"def captureUnconfigure : List String := {strs(mh['capture_unconfigure'])}")
    L.append(f"def databaseUnconfigure : List String := {strs(mh['database_unconfigure'])}")
    L.append(f"def warningsIsolated : Bool := {b(mh['warnings_isolated'])}")
    L.append(f"def warningsPostParseRegistersOnly : Bool := {b(mh['warnings_post_parse_registers_only'])}")
    L.append(f"def buildPostParseTolerant : Bool := {b(mh['build_post_parse_tolerant'])}")
    L.append(f"def buildUnconfigureUnconditional : Bool := {b(mh['build_unconfigure_unconditional'])}")
    L.append("/-- what `ExecutionReport.from_task` / `from_task_and_exception` (reports.py) pass as the report's `sections` -/")
    L.append(f"def reportSections : List String := {strs(report_sections())}")
    L.append("/-- every report built in `execute.pytask_execute_task_protocol`: (way the task ended, constructor) -/")
    L.append("def protocolReports : List (String × String) := " + X.lean_list(protocol_reports(), lambda e: f"({s(e[0])}, {s(e[1])})"))
    L += ["", "end Cap", ""]
    return L
