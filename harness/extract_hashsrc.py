"""Translator section for the fingerprint model M4 (`lean/PytaskModel/HashGen.lean`): what the fingerprint code does INSIDE,
read with `ast` from the tree under check and emitted as data (DESIGN §2.4) in `Pytask.Generated.Hsrc`:

* `hashValueTable`  — `_hashlib.hash_value` evaluated symbolically for every class of value (None, tuple, list, Path, str,
                      bytes, number): the expression it returns, in a small expression language `HExpr`
                      (constant / builtin hash / sha256 hexdigest / encode / str() / recursive join over the elements with its separator);
* `sig<Class>`      — the `signature` property of Task, TaskWithoutPath, PathNode, PickleNode, DirectoryNode, PythonNode as `HExpr`
                      over the attributes of `self` (which fields, in which order, how rendered, the `if self.node_info` split);
* `memoKeyExpr`     — `cache._make_memoize_key` for a positional call `f(path, mtime)`; `memoizeShape` — `Cache.memoize.wrapped`
                      (look the key up; on a miss compute, store, return); `hashPathExpr` — `path.hash_path` (sha256 over ALL bytes of
                      the file, through `file_digest`); `getState*` — `nodes._get_state` (missing file ↦ None, which stat call, which
                      attribute keys the memo, argument order of `hash_path`);
* `pythonNodeState` — `PythonNode.state` as a decision tree (value unset / hash flag / custom hash callable / constant "0");
                      `pythonNodeLoadUnwraps` — `PythonNode.load` looks through a wrapped PythonNode;
* `dependencyWrapper`, `pythonNodeFields`, `pythonNodeHashDefault` — how `collect_utils.collect_dependency` builds the wrapper
                      around a value-less PythonNode (`attrs.evolve(node, value=node)` keeps every field).

`HashGen.lean` interprets these terms and `PytaskProofs/Properties/HashTie.lean` proves the interpreters equal to the
hand-written model (`HashValue.lean`) for all inputs, so a source change that alters an extracted term breaks those theorems.

Fail-closed: anything the symbolic evaluator does not understand raises ExtractError(reason).  Tolerant to renamed locals,
helper variables and helper functions of the same module (inlined), reordered `isinstance` tests that do not change the
result for any class, f-strings instead of `str()`, an explicit loop with `append` instead of a generator inside `join`,
`hashlib.sha256(x)` vs `h = hashlib.sha256(); h.update(x)`, comments, docstrings, formatting.

Hook into `extract.py` with:   from extract_hashsrc import hashsrc_section; EXTRA_SECTIONS.append(hashsrc_section)
"""
from __future__ import annotations

import ast
import sys


def _host():
    m = sys.modules.get("__main__")
    if m is not None and hasattr(m, "ExtractError") and hasattr(m, "_parse") and hasattr(m, "EXTRA_SECTIONS"):
        return m
    import extract
    return extract


def _err(msg: str):
    return _host().ExtractError("hashsrc: " + msg)


def _u(n) -> str:
    return ast.unparse(n)


# ------------------------------------------------------------------------------------------------
# terms (tuples) and their static types
# ------------------------------------------------------------------------------------------------
# ("p", name, type)            parameter / attribute path of self with a declared static type
# ("none",) ("int", n) ("str", s) ("bool", b) ("tuple", [t]) ("dict0",) ("list0",)
# ("hash", t) ("sha", t) ("md5", t) ("enc", t) ("strof", t) ("rec", t) ("cat", [t]) ("var", name)
# ("join", sep, body, var, over) ("map", body, var, over) ("ite", cond, a, b) ("filebytes", t) ("fileobj", t)
# ("digestobj", algo, [parts]) ("retnone",) plus a few opaque markers for PythonNode.state

SEQ = ("tuple", "list")


def ttype(t):
    k = t[0]
    if k == "p":
        return t[2]
    if k in ("strof", "join", "sha", "md5", "str", "cat"):
        return "str"
    if k == "enc":
        return "bytes"
    if k in ("hash", "int"):
        return "int"
    if k == "none":
        return "none"
    if k == "bool":
        return "bool"
    if k == "tuple":
        return "tuple"
    if k == "rec":
        return "hv"
    if k == "ite":
        ta, tb = ttype(t[2]), ttype(t[3])
        return ta if ta == tb else "?ite"
    return "?" + k


CLASS_NAMES = {"tuple": "tuple", "list": "list", "Path": "path", "PurePath": "path", "str": "str", "bytes": "bytes"}
# static types that are certainly not instances of any class we cannot name
CLOSED = {"none", "tuple", "list", "path", "str", "bytes", "int", "bool", "stat_result"}


class Ev:
    """Symbolic evaluator of the small Python fragment the fingerprint code is written in."""

    def __init__(self, module: ast.Module, modname: str, self_fields=None):
        self.mod = module
        self.modname = modname
        self.funcs = {n.name: n for n in module.body if isinstance(n, ast.FunctionDef)}
        self.depth = 0
        self.fresh = 0

    # ---- expressions
    def ev(self, n, env):
        if isinstance(n, ast.Constant):
            v = n.value
            if v is None:
                return ("none",)
            if isinstance(v, bool):
                return ("bool", v)
            if isinstance(v, int):
                return ("int", v)
            if isinstance(v, str):
                return ("str", v)
            raise _err(f"{self.modname}: constant {v!r}")
        if isinstance(n, ast.Name):
            if n.id in env:
                return env[n.id]
            if n.id == "no_default":
                return ("nodefault",)
            raise _err(f"{self.modname}: unbound name {n.id}")
        if isinstance(n, ast.Attribute):
            base = self.ev(n.value, env)
            if base[0] == "p" and base[2] in ("self", "obj"):
                path = (base[1] + "." if base[1] else "") + n.attr
                return self.attr_of(path)
            raise _err(f"{self.modname}: attribute {_u(n)}")
        if isinstance(n, ast.Tuple):
            return ("tuple", [self.ev(e, env) for e in n.elts])
        if isinstance(n, ast.List) and not n.elts:
            return ("list0",)
        if isinstance(n, ast.Dict) and not n.keys:
            return ("dict0",)
        if isinstance(n, ast.JoinedStr):
            parts = []
            for v in n.values:
                if isinstance(v, ast.Constant):
                    parts.append(("str", v.value))
                elif isinstance(v, ast.FormattedValue) and v.conversion == -1 and v.format_spec is None:
                    parts.append(self.strof(self.ev(v.value, env)))
                else:
                    raise _err(f"{self.modname}: f-string part {_u(v)}")
            return self.cat(parts)
        if isinstance(n, ast.BinOp) and isinstance(n.op, ast.Add):
            a, b = self.ev(n.left, env), self.ev(n.right, env)
            return self.add(a, b, n)
        if isinstance(n, ast.IfExp):
            c = self.cond(n.test, env)
            if c is True:
                return self.ev(n.body, env)
            if c is False:
                return self.ev(n.orelse, env)
            return ("ite", c, self.ev(n.body, env), self.ev(n.orelse, env))
        if isinstance(n, ast.Call):
            return self.call(n, env)
        if isinstance(n, (ast.GeneratorExp, ast.ListComp)):
            return self.comp(n, env)
        raise _err(f"{self.modname}: expression {_u(n)}")

    def attr_of(self, path):
        return ("p", path, self.field_types.get(path, "any"))

    field_types: dict = {}

    def add(self, a, b, n):
        if a[0] == "tuple" and b[0] == "tuple":
            return ("tuple", a[1] + b[1])
        if ttype(a) == "str" or ttype(b) == "str" or (a[0] == "p" and a[2] == "strparam"):
            return self.cat([a, b])
        raise _err(f"{self.modname}: + in {_u(n)}")

    def cat(self, parts):
        flat = []
        for p in parts:
            if p[0] == "cat":
                flat += p[1]
            elif p == ("str", ""):
                continue
            else:
                flat.append(p)
        if len(flat) == 1:
            return flat[0]
        return ("cat", flat)

    def strof(self, t):
        if ttype(t) == "str":
            return t
        return ("strof", t)

    def comp(self, n, env):
        if len(n.generators) != 1 or n.generators[0].ifs or n.generators[0].is_async or not isinstance(n.generators[0].target, ast.Name):
            raise _err(f"{self.modname}: comprehension {_u(n)}")
        g = n.generators[0]
        over = self.ev(g.iter, env)
        return self.mapped(n.elt, g.target.id, over, env)

    def mapped(self, elt, varname, over, env):
        if over[0] == "tuple":        # static tuple: unroll
            return ("tuple", [self.ev(elt, {**env, varname: x}) for x in over[1]])
        self.fresh += 1
        body = self.ev(elt, {**env, varname: ("var", "elem")})
        return ("map", body, "elem", over)

    def call(self, n, env):
        f = n.func
        args = n.args
        kws = {k.arg: k.value for k in n.keywords}
        if None in kws:
            raise _err(f"{self.modname}: **kwargs in {_u(n)}")
        if isinstance(f, ast.Name):
            name = f.id
            if name == "str" and len(args) == 1 and not kws:
                return self.strof(self.ev(args[0], env))
            if name == "hash" and len(args) == 1 and not kws:
                return ("hash", self.ev(args[0], env))
            if name == "hash_value" and len(args) == 1 and not kws:
                return ("rec", self.ev(args[0], env))
            if name == "getattr" and len(args) == 2 and not kws:
                base, nm = self.ev(args[0], env), self.ev(args[1], env)
                if base[0] == "p" and base[2] in ("self", "obj") and nm[0] == "str":
                    return self.attr_of((base[1] + "." if base[1] else "") + nm[1])
                raise _err(f"{self.modname}: getattr {_u(n)}")
            if name == "callable" and len(args) == 1:
                return ("callable", self.ev(args[0], env))
            if name == "file_digest" and len(args) == 2 and not kws:
                fo, algo = self.ev(args[0], env), self.ev(args[1], env)
                if fo[0] != "fileobj" or algo[0] != "str":
                    raise _err(f"{self.modname}: file_digest over {_u(n)}")
                return ("digestobj", algo[1], [("filebytes", fo[1])])
            if name in self.funcs:
                return self.inline(self.funcs[name], args, kws, env)
            raise _err(f"{self.modname}: call of {name}")
        if isinstance(f, ast.Attribute):
            meth = f.attr
            if isinstance(f.value, ast.Name) and f.value.id == "hashlib" and "hashlib" not in env:
                if meth in ("sha256", "md5") and len(args) <= 1 and not kws:
                    return ("digestobj", meth, [self.ev(a, env) for a in args])
                if meth == "new" and args and isinstance(args[0], ast.Constant) and args[0].value in ("sha256", "md5") and len(args) <= 2:
                    return ("digestobj", args[0].value, [self.ev(a, env) for a in args[1:]])
                raise _err(f"{self.modname}: hashlib.{meth}")
            base = self.ev(f.value, env)
            if meth == "hexdigest" and base[0] == "digestobj" and not args:
                data = self.catb(base[2])
                return ("sha" if base[1] == "sha256" else "md5", data)
            if meth == "encode" and (ttype(base) == "str" or base[0] == "p") and len(args) <= 1 and not kws:
                if args and not (isinstance(args[0], ast.Constant) and str(args[0].value).lower().replace("-", "") == "utf8"):
                    raise _err(f"{self.modname}: encode({_u(args[0])})")
                return ("enc", base)
            if meth == "join" and base[0] == "str" and len(args) == 1 and not kws:
                seq = self.ev(args[0], env)
                if seq[0] == "tuple":
                    out = []
                    for i, x in enumerate(seq[1]):
                        if i and base[1]:
                            out.append(base)
                        out.append(x)
                    for x in seq[1]:
                        if ttype(x) != "str":
                            raise _err(f"{self.modname}: join over non-strings {_u(n)}")
                    return self.cat(out) if out else ("str", "")
                if seq[0] == "map":
                    if ttype(seq[1]) != "str":
                        raise _err(f"{self.modname}: join over non-strings {_u(n)}")
                    return ("join", base[1], seq[1], seq[2], seq[3])
                raise _err(f"{self.modname}: join over {_u(args[0])}")
            if meth == "copy" and base[0] == "dict0" and not args:
                return ("dict0",)
            if meth == "load" and base[0] == "p" and not args and not kws:
                return ("load", base)
            # self.hash(value): the custom hash callable
            if meth == "hash" and base == ("p", "", "self") and len(args) == 1 and not kws:
                return ("callhash", self.ev(args[0], env))
            if meth == "open" and base[0] == "p" and base[2] == "path" and len(args) == 1 and isinstance(args[0], ast.Constant) and args[0].value == "rb":
                return ("fileobj", base)
            raise _err(f"{self.modname}: method call {_u(n)}")
        raise _err(f"{self.modname}: call {_u(n)}")

    def catb(self, parts):
        if len(parts) == 1:
            return parts[0]
        raise _err(f"{self.modname}: digest over {len(parts)} updates")

    def inline(self, fn, args, kws, env):
        self.depth += 1
        if self.depth > 4:
            raise _err(f"{self.modname}: helper nesting too deep at {fn.name}")
        params = [a.arg for a in fn.args.args]
        if fn.args.vararg or fn.args.kwarg or fn.args.posonlyargs:
            raise _err(f"{self.modname}: helper {fn.name} has star parameters")
        new = {}
        for p, a in zip(params, args):
            new[p] = self.ev(a, env)
        for k, v in kws.items():
            new[k] = self.ev(v, env)
        defaults = dict(zip(params[len(params) - len(fn.args.defaults):], fn.args.defaults))
        for p, d in defaults.items():
            if p not in new:
                new[p] = self.ev(d, {})
        for a, d in zip(fn.args.kwonlyargs, fn.args.kw_defaults):
            if a.arg not in new:
                if d is None:
                    raise _err(f"{self.modname}: {fn.name}: missing keyword {a.arg}")
                new[a.arg] = self.ev(d, {})
        missing = [p for p in params if p not in new]
        if missing:
            raise _err(f"{self.modname}: {fn.name}: missing arguments {missing}")
        r = self.block(_body(fn), new)
        self.depth -= 1
        return r

    # ---- conditions: True / False / symbolic term
    def cond(self, n, env):
        if isinstance(n, ast.BoolOp):
            vals = [self.cond(v, env) for v in n.values]
            if isinstance(n.op, ast.And):
                if any(v is False for v in vals):
                    return False
                vals = [v for v in vals if v is not True]
                if not vals:
                    return True
                if len(vals) == 1:
                    return vals[0]
            else:
                if any(v is True for v in vals):
                    return True
                vals = [v for v in vals if v is not False]
                if not vals:
                    return False
                if len(vals) == 1:
                    return vals[0]
            raise _err(f"{self.modname}: condition {_u(n)}")
        if isinstance(n, ast.UnaryOp) and isinstance(n.op, ast.Not):
            c = self.cond(n.operand, env)
            if isinstance(c, bool):
                return not c
            return ("not", c)
        if isinstance(n, ast.Compare) and len(n.ops) == 1 and isinstance(n.ops[0], (ast.Is, ast.IsNot)):
            a, b = self.ev(n.left, env), self.ev(n.comparators[0], env)
            neg = isinstance(n.ops[0], ast.IsNot)
            if b == ("none",):
                ta = ttype(a)
                if ta == "none":
                    return not neg
                if ta in CLOSED or ta in ("num",):
                    return neg
                raise _err(f"{self.modname}: cannot decide {_u(n)}")
            if b == ("nodefault",) and a[0] == "p":
                c = ("isnodefault", a)
                return ("not", c) if neg else c
            raise _err(f"{self.modname}: condition {_u(n)}")
        if isinstance(n, ast.Call) and isinstance(n.func, ast.Name) and n.func.id == "isinstance" and len(n.args) == 2:
            v = self.ev(n.args[0], env)
            cls = n.args[1].elts if isinstance(n.args[1], ast.Tuple) else [n.args[1]]
            names = []
            for c in cls:
                nm = c.id if isinstance(c, ast.Name) else (c.attr if isinstance(c, ast.Attribute) else None)
                if nm is None:
                    raise _err(f"{self.modname}: class in {_u(n)}")
                names.append(nm)
            tv = ttype(v)
            if tv == "hv" or tv.startswith("?") or tv == "any":
                if v[0] == "p" and names == ["PythonNode"]:
                    return ("ispynode", v)
                raise _err(f"{self.modname}: cannot decide {_u(n)}")
            known = {CLASS_NAMES[x] for x in names if x in CLASS_NAMES}
            if tv in known:
                return True
            if tv == "stat_result":
                return "stat_result" in names
            if tv == "num":
                unknown = [x for x in names if x not in CLASS_NAMES and x not in ("UPath",)]
                if unknown:
                    raise _err(f"{self.modname}: cannot decide {_u(n)} for numbers")
                return False
            if tv in CLOSED:
                return False
            raise _err(f"{self.modname}: cannot decide {_u(n)}")
        # truthiness of a value
        v = self.ev(n, env)
        k = v[0]
        if k == "bool":
            return v[1]
        if k == "dict0" or k == "list0":
            return False
        if k == "tuple":
            return bool(v[1])
        if k == "none":
            return False
        if k == "callable":
            return v
        if k == "p":
            return ("truthy", v)
        raise _err(f"{self.modname}: truthiness of {_u(n)}")

    # ---- statements: returns a result term (every path must end in `return` or fall off the end = ("retnone",))
    def block(self, stmts, env):
        env = dict(env)
        for i, s in enumerate(stmts):
            rest = stmts[i + 1:]
            if isinstance(s, ast.Return):
                return ("retnone",) if s.value is None else self.ev(s.value, env)
            if isinstance(s, ast.Expr):
                if isinstance(s.value, ast.Constant):
                    continue
                c = s.value
                # h.update(x) on a digest object; acc.append(x) is handled in loops only
                if isinstance(c, ast.Call) and isinstance(c.func, ast.Attribute) and isinstance(c.func.value, ast.Name) \
                        and c.func.value.id in env and env[c.func.value.id][0] == "digestobj" and c.func.attr == "update" and len(c.args) == 1:
                    d = env[c.func.value.id]
                    env[c.func.value.id] = ("digestobj", d[1], d[2] + [self.ev(c.args[0], env)])
                    continue
                raise _err(f"{self.modname}: statement {_u(s)}")
            if isinstance(s, (ast.Assign, ast.AnnAssign)):
                tgt = s.targets[0] if isinstance(s, ast.Assign) else s.target
                if (isinstance(s, ast.Assign) and len(s.targets) != 1) or not isinstance(tgt, ast.Name) or s.value is None:
                    raise _err(f"{self.modname}: assignment {_u(s)}")
                env[tgt.id] = self.ev(s.value, env)
                continue
            if isinstance(s, ast.AugAssign) and isinstance(s.op, ast.Add) and isinstance(s.target, ast.Name) and s.target.id in env:
                env[s.target.id] = self.add(env[s.target.id], self.ev(s.value, env), s)
                continue
            if isinstance(s, ast.If):
                c = self.cond(s.test, env)
                if c is True:
                    return self.block(list(s.body) + rest, env)
                if c is False:
                    return self.block(list(s.orelse) + rest, env)
                return ("ite", c, self.block(list(s.body) + rest, env), self.block(list(s.orelse) + rest, env))
            if isinstance(s, ast.For):
                # acc = []; for x in over: acc.append(E)
                if (isinstance(s.target, ast.Name) and not s.orelse and len(s.body) == 1 and isinstance(s.body[0], ast.Expr)
                        and isinstance(s.body[0].value, ast.Call) and isinstance(s.body[0].value.func, ast.Attribute)
                        and s.body[0].value.func.attr == "append" and isinstance(s.body[0].value.func.value, ast.Name)
                        and env.get(s.body[0].value.func.value.id) == ("list0",) and len(s.body[0].value.args) == 1):
                    over = self.ev(s.iter, env)
                    env[s.body[0].value.func.value.id] = self.mapped(s.body[0].value.args[0], s.target.id, over, env)
                    continue
                raise _err(f"{self.modname}: loop {_u(s)[:80]}")
            if isinstance(s, ast.With):
                if len(s.items) != 1 or not isinstance(s.items[0].optional_vars, ast.Name):
                    raise _err(f"{self.modname}: with {_u(s)[:60]}")
                env[s.items[0].optional_vars.id] = self.ev(s.items[0].context_expr, env)
                return self.block(list(s.body) + rest, env)
            raise _err(f"{self.modname}: statement {_u(s)[:80]}")
        return ("retnone",)


def _body(fn) -> list:
    b = list(fn.body)
    if b and isinstance(b[0], ast.Expr) and isinstance(b[0].value, ast.Constant) and isinstance(b[0].value.value, str):
        b = b[1:]
    return b


def _func(mod, name):
    fns = [n for n in mod.body if isinstance(n, ast.FunctionDef) and n.name == name]
    if len(fns) != 1:
        raise _err(f"top-level function {name}: found {len(fns)}")
    return fns[0]


def _class(mod, name):
    cs = [n for n in mod.body if isinstance(n, ast.ClassDef) and n.name == name]
    if len(cs) != 1:
        raise _err(f"class {name}: found {len(cs)}")
    return cs[0]


def _method(cls, name):
    ms = [n for n in cls.body if isinstance(n, ast.FunctionDef) and n.name == name]
    if len(ms) != 1:
        raise _err(f"{cls.name}.{name}: found {len(ms)}")
    return ms[0]


# ------------------------------------------------------------------------------------------------
# terms -> Lean
# ------------------------------------------------------------------------------------------------

def _chars(s: str) -> str:
    for ch in s:
        if not (32 <= ord(ch) < 127) or ch in "'\\":
            raise _err(f"character {ch!r} not representable")
    return "[" + ", ".join(f"'{ch}'" for ch in s) + "]"


def lean(t, argname=None) -> str:
    k = t[0]
    if k == "p":
        if t[1] == "" or t[1] == argname:
            return ".arg"
        return f'(.field "{t[1]}")'
    if k == "var":
        return ".elem"
    if k == "none":
        return ".pyNone"
    if k == "int":
        return f"(.int ({t[1]} : Int))"
    if k == "str":
        return f"(.str {_chars(t[1])})"
    if k in ("hash", "sha", "md5", "enc", "strof", "rec"):
        ctor = {"strof": "strOf", "rec": "recur"}.get(k, k)
        return f"(.{ctor} {lean(t[1], argname)})"
    if k == "cat":
        return "(.cat [" + ", ".join(lean(x, argname) for x in t[1]) + "])"
    if k == "join":
        return f"(.join {_chars(t[1])} {lean(t[2], argname)} {lean(t[4], argname)})"
    if k == "ite":
        c = t[1]
        if c[0] == "truthy":
            return f"(.ite {lean(c[1], argname)} {lean(t[2], argname)} {lean(t[3], argname)})"
        raise _err(f"condition {c} in an expression")
    if k == "filebytes":
        return f"(.fileBytes {lean(t[1], argname)})"
    raise _err(f"term {t} has no Lean form")


SCHEMA = '''namespace Hsrc
/-- expressions the fingerprint code computes (schema, constant text) -/
inductive HExpr where
  | arg | elem | pyNone
  | field (name : String)
  | int (i : Int) | str (s : List Char)
  | hash (e : HExpr) | sha (e : HExpr) | md5 (e : HExpr) | enc (e : HExpr) | strOf (e : HExpr) | recur (e : HExpr)
  | cat (es : List HExpr)
  | join (sep : List Char) (body : HExpr) (over : HExpr)
  | ite (c a b : HExpr)
  | fileBytes (e : HExpr)
/-- classes of values `hash_value` distinguishes (numbers = bool / int / float fall through every test) -/
inductive PyClass | none | tuple | list | path | str | bytes | num
  deriving DecidableEq
inductive MemoShape | lookupComputeStore | other
  deriving DecidableEq
inductive PNCond | valueUnset | hashTruthy | hashCallable
  deriving DecidableEq
inductive PNRes | none | strOfCustomHash | strOfHashValue | const (s : List Char)
inductive PNTree | ret (r : PNRes) | ite (c : PNCond) (a b : PNTree)
inductive Wrapper | evolve (overrides : List String) | construct (keywords : List String)
/-- where a field of the `NodeInfo` of an argument comes from -/
inductive NISrc | parameter | treePath | emptyPath | modulePath | moduleDir | taskName | other
  deriving DecidableEq
'''


# ------------------------------------------------------------------------------------------------
# the section
# ------------------------------------------------------------------------------------------------

def _hash_value_table(host):
    mod = host._parse("_hashlib.py")
    fn = _func(mod, "hash_value")
    params = [a.arg for a in fn.args.args]
    if len(params) != 1:
        raise _err("hash_value does not take exactly one argument")
    rows = []
    for cls in ("none", "tuple", "list", "path", "str", "bytes", "num"):
        ev = Ev(mod, "_hashlib")
        t = ev.block(_body(fn), {params[0]: ("p", "", cls)})
        if t == ("retnone",):
            raise _err(f"hash_value returns nothing for class {cls}")
        rows.append((cls, t))
    return rows


def _signature(host, mod, clsname, field_types):
    cls = _class(mod, clsname)
    fn = _method(cls, "signature")
    ev = Ev(mod, "nodes")
    ev.field_types = field_types
    t = ev.block(_body(fn), {"self": ("p", "", "self")})
    if ttype(t) != "str" and t[0] != "ite":
        raise _err(f"{clsname}.signature is not a string expression: {t[0]}")
    return t


def _attrs_fields(cls) -> list[str]:
    out = []
    for s in cls.body:
        if isinstance(s, ast.AnnAssign) and isinstance(s.target, ast.Name):
            out.append(s.target.id)
    return out


def _pn_tree(t):
    """decision tree of PythonNode.state -> Lean PNTree"""
    if t[0] == "ite":
        c = t[1]
        neg = False
        if c[0] == "not":
            neg, c = True, c[1]
        if c[0] == "isnodefault" and c[1] == ("p", "value", "any"):
            lc = ".valueUnset"
        elif c[0] == "truthy" and c[1][:2] == ("p", "hash"):
            lc = ".hashTruthy"
        elif c[0] == "callable" and c[1][:2] == ("p", "hash"):
            lc = ".hashCallable"
        else:
            raise _err(f"PythonNode.state: condition {c}")
        a, b = _pn_tree(t[2]), _pn_tree(t[3])
        if neg:
            a, b = b, a
        return f"(.ite {lc} {a} {b})"
    if t in (("retnone",), ("none",)):
        return "(.ret .none)"
    if t == ("strof", ("callhash", ("load", ("p", "", "self")))):
        return "(.ret .strOfCustomHash)"
    if t == ("strof", ("rec", ("load", ("p", "", "self")))):
        return "(.ret .strOfHashValue)"
    if t[0] == "str":
        return f"(.ret (.const {_chars(t[1])}))"
    raise _err(f"PythonNode.state: result {t}")


def _get_state_facts(host):
    mod = host._parse("nodes.py")
    fn = _func(mod, "_get_state")
    params = [a.arg for a in fn.args.args]
    if len(params) != 1:
        raise _err("_get_state does not take exactly one argument")
    pth = params[0]
    body = _body(fn)
    # leading statements that only concern remote paths: `if isinstance(path, UPath): …` without return
    stmts = []
    for s in body:
        if isinstance(s, ast.If) and isinstance(s.test, ast.Call) and _u(s.test) == f"isinstance({pth}, UPath)" \
                and not any(isinstance(x, (ast.Return, ast.Raise)) for x in ast.walk(s)) and not s.orelse:
            continue
        stmts.append(s)
    if not stmts or not isinstance(stmts[0], ast.Try):
        raise _err("_get_state: the stat call is not guarded by try/except")
    tr = stmts[0]
    if tr.orelse or tr.finalbody or len(tr.handlers) != 1 or len(tr.body) != 1:
        raise _err("_get_state: unrecognised try statement")
    a = tr.body[0]
    if not (isinstance(a, ast.Assign) and len(a.targets) == 1 and isinstance(a.targets[0], ast.Name) and isinstance(a.value, ast.Call)
            and isinstance(a.value.func, ast.Attribute) and _u(a.value.func.value) == pth and not a.value.args and not a.value.keywords):
        raise _err(f"_get_state: try body {_u(a)}")
    stat_var, stat_call = a.targets[0].id, a.value.func.attr
    h = tr.handlers[0]
    exc = _u(h.type) if h.type is not None else "BaseException"
    if not (len(h.body) == 1 and isinstance(h.body[0], ast.Return) and (h.body[0].value is None or _u(h.body[0].value) == "None")):
        raise _err("_get_state: the handler does not return None")
    # the local branch: isinstance(stat, stat_result)
    rest = stmts[1:]
    local = None
    for s in rest:
        if isinstance(s, ast.If) and _u(s.test) == f"isinstance({stat_var}, stat_result)":
            local = s
            break
    if local is None or rest.index(local) != 0:
        raise _err("_get_state: no leading `isinstance(stat, stat_result)` branch")
    env: dict = {}
    ret = None
    for s in local.body:
        if isinstance(s, ast.Assign) and len(s.targets) == 1 and isinstance(s.targets[0], ast.Name):
            env[s.targets[0].id] = s.value
        elif isinstance(s, ast.Return):
            ret = s.value
        elif isinstance(s, ast.Expr) and isinstance(s.value, ast.Constant):
            pass
        else:
            raise _err(f"_get_state: statement {_u(s)}")
    if not (isinstance(ret, ast.Call) and isinstance(ret.func, ast.Name) and ret.func.id == "hash_path" and not ret.keywords and len(ret.args) == 2):
        raise _err("_get_state: the local branch does not return hash_path(<path>, <time>)")

    def res(n):
        seen = 0
        while isinstance(n, ast.Name) and n.id in env and seen < 5:
            n, seen = env[n.id], seen + 1
        return n
    a0, a1 = res(ret.args[0]), res(ret.args[1])
    if _u(a0) != pth:
        raise _err(f"_get_state passes {_u(a0)} as the path of hash_path")
    if not (isinstance(a1, ast.Attribute) and _u(a1.value) == stat_var):
        raise _err(f"_get_state keys the memo with {_u(a1)}")
    return stat_call, exc, a1.attr


def _memoize_shape(host):
    mod = host._parse("cache.py")
    cls = _class(mod, "Cache")
    memo = _method(cls, "memoize")
    wrapped = [n for n in memo.body if isinstance(n, ast.FunctionDef)]
    if len(wrapped) != 1:
        raise _err("Cache.memoize: expected one inner function")
    w = wrapped[0]
    if not (w.args.vararg and w.args.kwarg) or w.args.args:
        raise _err("Cache.memoize.wrapped does not take (*args, **kwargs)")
    va, kw = w.args.vararg.arg, w.args.kwarg.arg
    body = _body(w)
    key = val = None
    sent = None
    ifs = None
    ret = None
    for s in body:
        if isinstance(s, ast.Assign) and len(s.targets) == 1 and isinstance(s.targets[0], ast.Name) and isinstance(s.value, ast.Call):
            c = s.value
            if isinstance(c.func, ast.Name) and c.func.id == "_make_memoize_key":
                kws = {k.arg: k.value for k in c.keywords}
                if [_u(a) for a in c.args] != [va, kw] or _u(kws.get("typed", ast.Constant(None))) != "False":
                    raise _err(f"memoize: key call {_u(c)}")
                key = s.targets[0].id
                continue
            if isinstance(c.func, ast.Attribute) and c.func.attr == "get" and len(c.args) == 2 and key and _u(c.args[0]) == key:
                val, cache, sent = s.targets[0].id, _u(c.func.value), _u(c.args[1])
                continue
            raise _err(f"memoize: statement {_u(s)}")
        if isinstance(s, ast.If):
            ifs = s
            continue
        if isinstance(s, ast.Return):
            ret = s
            continue
        raise _err(f"memoize: statement {_u(s)[:60]}")
    if not (key and val and ifs is not None and ret is not None and _u(ret.value) == val):
        raise _err("memoize: key / lookup / miss branch / return not found")
    if _u(ifs.test) != f"{val} is {sent}":
        raise _err(f"memoize: miss test {_u(ifs.test)}")
    computed = stored = False
    for s in ifs.body:
        if isinstance(s, ast.Assign) and _u(s.targets[0]) == val and isinstance(s.value, ast.Call) and _u(s.value.func) == "func" \
                and [_u(a) for a in s.value.args] == ["*" + va] and [k.arg for k in s.value.keywords] == [None]:
            computed = True
        elif isinstance(s, ast.Assign) and _u(s.targets[0]) == f"{cache}[{key}]" and _u(s.value) == val and computed:
            stored = True
        elif isinstance(s, ast.AugAssign) and "cache_info" in _u(s.target):
            pass
        else:
            raise _err(f"memoize: miss branch statement {_u(s)}")
    for s in ifs.orelse:
        if not (isinstance(s, ast.AugAssign) and "cache_info" in _u(s.target)):
            raise _err(f"memoize: hit branch statement {_u(s)}")
    if not (computed and stored):
        raise _err("memoize: the miss branch does not compute and store")
    # _make_memoize_key for a positional call f(path, mtime), typed=False
    fn = _func(mod, "_make_memoize_key")
    ev = Ev(mod, "cache")
    env = {"args": ("tuple", [("p", "path", "path"), ("p", "mtime", "num")]), "kwargs": ("dict0",), "typed": ("bool", False),
           "argspec": ("p", "argspec", "any"), "prefix": ("p", "prefix", "strparam")}
    names = [a.arg for a in fn.args.args + fn.args.kwonlyargs]
    if sorted(names) != sorted(env):
        raise _err(f"_make_memoize_key parameters {names}")
    keyt = ev.block(_body(fn), env)
    return keyt


def _hash_path_expr(host):
    mod = host._parse("path.py")
    fn = _func(mod, "hash_path")
    decos = [_u(d) for d in fn.decorator_list]
    if decos != ["HashPathCache.memoize"]:
        raise _err(f"hash_path decorators {decos}")
    cache_def = [s for s in mod.body if isinstance(s, ast.Assign) and _u(s.targets[0]) == "HashPathCache"]
    if len(cache_def) != 1 or _u(cache_def[0].value) != "Cache()":
        raise _err("HashPathCache is not a plain Cache()")
    params = [a.arg for a in fn.args.args]
    if len(params) != 3 or len(fn.args.defaults) != 1:
        raise _err(f"hash_path parameters {params}")
    ev = Ev(mod, "path")
    t = ev.block(_body(fn), {params[0]: ("p", "path", "path"), params[1]: ("p", "mtime", "num"), params[2]: ev.ev(fn.args.defaults[0], {})})
    return t


def _dependency_wrapper(host):
    mod = host._parse("collect_utils.py")
    fn = _func(mod, "collect_dependency")
    body = _body(fn)
    env = {}
    found = None
    for s in body:
        if isinstance(s, ast.Assign) and len(s.targets) == 1 and isinstance(s.targets[0], ast.Name):
            env[s.targets[0].id] = s.value
        if isinstance(s, ast.If) and "no_default" in _u(s.test) and "PythonNode" in _u(s.test):
            found = s
            break
    if found is None:
        raise _err("collect_dependency: no branch for a PythonNode without value")
    t = found.test
    if not (isinstance(t, ast.BoolOp) and isinstance(t.op, ast.And) and len(t.values) == 2):
        raise _err(f"collect_dependency: test {_u(t)}")
    node = _u(t.values[0].args[0]) if isinstance(t.values[0], ast.Call) and _u(t.values[0].func) == "isinstance" else None
    if node is None or _u(t.values[0]) != f"isinstance({node}, PythonNode)" or _u(t.values[1]) != f"{node}.value is no_default":
        raise _err(f"collect_dependency: test {_u(t)}")
    if _u(env.get(node, ast.Constant(None))) != "node_info.value":
        raise _err("collect_dependency: the node is not node_info.value")
    local = {}
    replaced = None
    for s in found.body:
        if isinstance(s, ast.Assign) and len(s.targets) == 1 and isinstance(s.targets[0], ast.Name):
            local[s.targets[0].id] = s.value
            if s.targets[0].id == "node_info":
                replaced = s.value
        elif isinstance(s, ast.Expr) and isinstance(s.value, ast.Constant):
            pass
        else:
            raise _err(f"collect_dependency: statement {_u(s)}")
    if not (isinstance(replaced, ast.Call) and _u(replaced.func) == "node_info._replace" and [k.arg for k in replaced.keywords] == ["value"] and not replaced.args):
        raise _err("collect_dependency: node_info is not replaced by node_info._replace(value=…)")
    w = replaced.keywords[0].value
    while isinstance(w, ast.Name) and w.id in local:
        w = local[w.id]
    if not isinstance(w, ast.Call):
        raise _err(f"collect_dependency: wrapper {_u(w)}")
    kws = {k.arg: k.value for k in w.keywords}
    if None in kws:
        raise _err("collect_dependency: wrapper built with **kwargs")
    if _u(w.func) in ("attrs.evolve", "evolve", "attr.evolve"):
        if [_u(a) for a in w.args] != [node]:
            raise _err(f"collect_dependency: evolve of {_u(w)}")
        if _u(kws.get("value", ast.Constant(None))) != node:
            raise _err("collect_dependency: the wrapper's value is not the node")
        extra = {k: v for k, v in kws.items() if k != "value"}
        for k, v in extra.items():
            if _u(v) != f"{node}.{k}":
                raise _err(f"collect_dependency: evolve overrides {k} with {_u(v)}")
        return ("evolve", ["value"])
    if _u(w.func) == "PythonNode" and not w.args:
        if _u(kws.get("value", ast.Constant(None))) != node:
            raise _err("collect_dependency: the wrapper's value is not the node")
        kept = ["value"]
        for k, v in kws.items():
            if k == "value":
                continue
            if _u(v) != f"{node}.{k}":
                raise _err(f"collect_dependency: wrapper field {k} = {_u(v)}")
            kept.append(k)
        return ("construct", kept)
    raise _err(f"collect_dependency: wrapper {_u(w)}")


def _bind(call: ast.Call, params: list[str], what: str) -> dict:
    out = {}
    if len(call.args) > len(params) or any(isinstance(a, ast.Starred) for a in call.args):
        raise _err(f"{what}: call {_u(call)[:80]}")
    for p, a in zip(params, call.args):
        out[p] = a
    for k in call.keywords:
        if k.arg is None or k.arg not in params or k.arg in out:
            raise _err(f"{what}: keyword in {_u(call)[:80]}")
        out[k.arg] = k.value
    return out


def _nodeinfo_wiring(host):
    """Where the fields of the `NodeInfo` of a dependency / product argument come from: traced from
    `collect.pytask_collect_task` through `parse_dependencies_from_task_function` / `parse_products_from_task_function`
    and `_collect_nodes_and_provisional_nodes` (collect_utils.py) to the `NodeInfo(...)` call."""
    cu = host._parse("collect_utils.py")
    co = host._parse("collect.py")
    helper = _func(cu, "_collect_nodes_and_provisional_nodes")
    hparams = [a.arg for a in helper.args.args]
    lambdas = [n for n in ast.walk(helper) if isinstance(n, ast.Lambda)]
    if len(lambdas) != 1 or len(lambdas[0].args.args) != 2:
        raise _err("_collect_nodes_and_provisional_nodes: expected one two-argument lambda")
    lp, lx = (a.arg for a in lambdas[0].args.args)
    tm = [n for n in ast.walk(helper) if isinstance(n, ast.Call) and _u(n.func) == "tree_map_with_path"]
    if len(tm) != 1 or tm[0].args[0] is not lambdas[0]:
        raise _err("_collect_nodes_and_provisional_nodes: the lambda is not mapped with tree_map_with_path")
    nis = [n for n in ast.walk(lambdas[0]) if isinstance(n, ast.Call) and _u(n.func) == "NodeInfo"]
    if len(nis) != 1 or nis[0].args:
        raise _err("_collect_nodes_and_provisional_nodes: expected one NodeInfo(...) with keywords")
    ni = {k.arg: k.value for k in nis[0].keywords}
    if sorted(ni) != ["arg_name", "path", "task_name", "task_path", "value"]:
        raise _err(f"NodeInfo keywords {sorted(ni)}")
    inner = {}
    for f, e in ni.items():
        if not isinstance(e, ast.Name):
            raise _err(f"NodeInfo({f}={_u(e)})")
        inner[f] = "tree_path" if e.id == lp else "leaf" if e.id == lx else ("h:" + e.id if e.id in hparams else None)
        if inner[f] is None:
            raise _err(f"NodeInfo({f}={e.id}): unknown name")
    # the collector of task functions
    top = _func(co, "pytask_collect_task")
    tparams = [a.arg for a in top.args.args]
    if tparams[:4] != ["session", "path", "name", "obj"]:
        raise _err(f"pytask_collect_task parameters {tparams}")
    tlocals = {}
    for n in ast.walk(top):
        if isinstance(n, ast.Assign) and len(n.targets) == 1 and isinstance(n.targets[0], ast.Name):
            tlocals.setdefault(n.targets[0].id, []).append(n.value)

    def top_symbol(e):
        if isinstance(e, ast.Name):
            if e.id == "path":
                return "modulePath"
            if e.id == "name":
                return "taskName"
            if e.id in ("session", "obj"):
                return "other"
            vals = tlocals.get(e.id, [])
            if len(vals) == 1:
                return top_symbol(vals[0])
            raise _err(f"pytask_collect_task: {e.id} assigned {len(vals)} times")
        if isinstance(e, ast.IfExp) and _u(e.test) == "path is None" and _u(e.orelse) == "path.parent":
            return "moduleDir"
        if isinstance(e, ast.Attribute) and _u(e) == "path.parent":
            return "moduleDir"
        raise _err(f"pytask_collect_task: argument {_u(e)}")

    out = {}
    for side, fname in (("dep", "parse_dependencies_from_task_function"), ("prod", "parse_products_from_task_function")):
        fn = _func(cu, fname)
        fparams = [a.arg for a in fn.args.args]
        tcalls = [n for n in ast.walk(top) if isinstance(n, ast.Call) and _u(n.func) == fname]
        if len(tcalls) != 1:
            raise _err(f"pytask_collect_task calls {fname} {len(tcalls)} times")
        outer = {p: top_symbol(e) for p, e in _bind(tcalls[0], fparams, fname).items()}
        calls = [n for n in ast.walk(fn) if isinstance(n, ast.Call) and _u(n.func) == "_collect_nodes_and_provisional_nodes"]
        if not calls:
            raise _err(f"{fname} does not call _collect_nodes_and_provisional_nodes")
        wir = None
        for c in calls:
            b = _bind(c, hparams, fname)
            w = {}
            for f, src in inner.items():
                if f == "value":
                    continue
                if not src.startswith("h:"):
                    w[f] = {"tree_path": "treePath", "leaf": "other"}[src]
                    continue
                e = b.get(src[2:])
                if e is None:
                    raise _err(f"{fname}: {src[2:]} not passed")
                if isinstance(e, ast.Name) and e.id in fparams:
                    w[f] = outer.get(e.id) or "other"
                elif f == "arg_name" and (isinstance(e, ast.Name) or (isinstance(e, ast.Constant) and e.value == "return")):
                    w[f] = "parameter"
                else:
                    raise _err(f"{fname}: NodeInfo.{f} <- {_u(e)}")
            if wir is not None and w != wir:
                raise _err(f"{fname}: its calls wire NodeInfo differently")
            wir = w
        out[side] = wir
        if side == "dep":
            out["merged"] = _merged_node_wiring(fn, fparams, outer)
    return out


def _merged_node_wiring(fn, fparams, outer):
    """The PythonNode that replaces a container of unhashed python values (`dependencies[param] = PythonNode(value=value, …)`):
    does it get a NodeInfo, and wired how?  None = no `node_info` keyword."""
    cands = []
    for n in ast.walk(fn):
        if isinstance(n, ast.Assign) and len(n.targets) == 1 and isinstance(n.targets[0], ast.Subscript) \
                and isinstance(n.value, ast.Call) and _u(n.value.func) == "PythonNode":
            cands.append(n)
    if len(cands) != 1:
        raise _err(f"{fn.name}: {len(cands)} assignments of a PythonNode(...) to the result")
    call = cands[0].value
    kws = {k.arg: k.value for k in call.keywords}
    if call.args or None in kws or "value" not in kws or "name" not in kws or set(kws) - {"value", "name", "node_info"}:
        raise _err(f"{fn.name}: merged node {_u(call)}")
    if "node_info" not in kws:
        return None
    locals_ = {}
    for n in ast.walk(fn):
        if isinstance(n, ast.Assign) and len(n.targets) == 1 and isinstance(n.targets[0], ast.Name):
            locals_.setdefault(n.targets[0].id, []).append(n.value)
    e = kws["node_info"]
    if isinstance(e, ast.Name):
        vals = locals_.get(e.id, [])
        if len(vals) != 1:
            raise _err(f"{fn.name}: {e.id} assigned {len(vals)} times")
        e = vals[0]
    if not (isinstance(e, ast.Call) and _u(e.func) == "NodeInfo" and not e.args):
        raise _err(f"{fn.name}: node_info of the merged node is {_u(e)[:60]}")
    ni = {k.arg: k.value for k in e.keywords}
    if sorted(ni) != ["arg_name", "path", "task_name", "task_path", "value"]:
        raise _err(f"{fn.name}: NodeInfo keywords of the merged node {sorted(ni)}")
    w = {}
    for f in ("arg_name", "path", "task_name", "task_path"):
        x = ni[f]
        if f == "path":
            if isinstance(x, ast.Tuple) and not x.elts:
                w[f] = "emptyPath"
                continue
            raise _err(f"{fn.name}: merged node path {_u(x)}")
        if not isinstance(x, ast.Name):
            raise _err(f"{fn.name}: merged node {f} = {_u(x)}")
        if x.id in fparams:
            w[f] = outer.get(x.id) or "other"
        elif f == "arg_name":
            w[f] = "parameter"
        else:
            raise _err(f"{fn.name}: merged node {f} = {x.id}")
    return w


def hashsrc_section() -> list[str]:
    host = _host()
    strs = lambda xs: host.lean_list(xs, host.lean_str)  # noqa: E731
    L = [SCHEMA.rstrip("\n"), ""]
    # hash_value
    rows = _hash_value_table(host)
    L.append("/-- `_hashlib.hash_value`, evaluated symbolically per class of value. -/")
    L.append("def hashValueTable : List (PyClass × HExpr) := [" + ", ".join(f"(.{c}, {lean(t, '')})" for c, t in rows) + "]")
    # signatures
    nodes = host._parse("nodes.py")
    path_t = {"path": "path", "base_name": "str", "name": "str", "pattern": "str", "root_dir": "any",
              "node_info": "obj", "node_info.arg_name": "any", "node_info.path": "any", "node_info.task_name": "any",
              "node_info.task_path": "any"}
    L.append("/-- the `signature` properties of the node classes (`nodes.py`) over the attributes of `self`. -/")
    for clsname, key in (("Task", "sigTask"), ("TaskWithoutPath", "sigTaskWithoutPath"), ("PathNode", "sigPathNode"),
                         ("PickleNode", "sigPickleNode"), ("DirectoryNode", "sigDirNode"), ("PythonNode", "sigPythonNode")):
        t = _signature(host, nodes, clsname, path_t)
        L.append(f"def {key} : HExpr := {lean(t)}")
    # memo
    keyt = _memoize_shape(host)
    L.append("/-- `cache._make_memoize_key` for the positional call `hash_path(path, mtime)`; `Cache.memoize.wrapped`. -/")
    L.append(f"def memoKeyExpr : HExpr := {lean(keyt)}")
    L.append("def memoizeShape : MemoShape := .lookupComputeStore")
    hp = _hash_path_expr(host)
    L.append("/-- `path.hash_path`: what is digested (all bytes of the file, through `file_digest`). -/")
    L.append(f"def hashPathExpr : HExpr := {lean(hp)}")
    stat_call, exc, attr = _get_state_facts(host)
    L.append("/-- `nodes._get_state`: the stat call (`stat` follows symbolic links, `lstat` would not), the exception that means")
    L.append("\"missing\" (↦ None), the stat attribute that keys the memo, the arguments handed to `hash_path`. -/")
    L.append(f"def getStateStatCall : String := {host.lean_str(stat_call)}")
    L.append(f"def getStateMissingExc : String := {host.lean_str(exc)}")
    L.append(f"def getStateKeyAttr : String := {host.lean_str(attr)}")
    L.append(f"def getStateHashPathArgs : List String := {strs(['path', 'mtime'])}")
    # PythonNode
    pn = _class(nodes, "PythonNode")
    fields = _attrs_fields(pn)
    ev = Ev(nodes, "nodes")
    ev.field_types = {"value": "any", "hash": "any"}
    st = ev.block(_body(_method(pn, "state")), {"self": ("p", "", "self")})
    L.append("/-- `PythonNode.state` as a decision tree; `PythonNode.load`; the attrs fields of the class; the default of `hash`. -/")
    L.append(f"def pythonNodeState : PNTree := {_pn_tree(st)}")
    ld = _method(pn, "load")
    lparams = [a.arg for a in ld.args.args]
    ev2 = Ev(nodes, "nodes")
    ev2.field_types = {"value": "any"}
    lenv = {"self": ("p", "", "self")}
    for p in lparams[1:]:
        lenv[p] = ("bool", False)      # load() as state() calls it: is_product = False
    lt = ev2.block(_body(ld), lenv)
    want = ("ite", ("ispynode", ("p", "value", "any")), ("load", ("p", "value", "any")), ("p", "value", "any"))
    if lt == want:
        unwrap = True
    elif lt == ("p", "value", "any"):
        unwrap = False
    else:
        raise _err(f"PythonNode.load: {lt}")
    L.append(f"def pythonNodeLoadUnwraps : Bool := {host.lean_bool(unwrap)}")
    L.append(f"def pythonNodeFields : List String := {strs(fields)}")
    hd = [s for s in pn.body if isinstance(s, ast.AnnAssign) and isinstance(s.target, ast.Name) and s.target.id == "hash"]
    if len(hd) != 1 or not isinstance(hd[0].value, ast.Constant) or not isinstance(hd[0].value.value, bool):
        raise _err("PythonNode.hash has no boolean default")
    L.append(f"def pythonNodeHashDefault : Bool := {host.lean_bool(hd[0].value.value)}")
    wk, wf = _dependency_wrapper(host)
    L.append("/-- `collect_utils.collect_dependency`: the wrapper around a PythonNode whose value is still unset. -/")
    L.append(f"def dependencyWrapper : Wrapper := .{wk} {strs(wf)}")
    wiring = _nodeinfo_wiring(host)
    L.append("/-- the `NodeInfo` of a dependency / product argument (`collect.pytask_collect_task` → `collect_utils.parse_…_from_task_function`")
    L.append("→ `_collect_nodes_and_provisional_nodes`): which quantity each field is filled with. -/")
    for side, key in (("dep", "depNodeInfo"), ("prod", "prodNodeInfo")):
        w = wiring[side]
        L.append(f"def {key} : List (String × NISrc) := [" + ", ".join(f'("{f}", .{w[f]})' for f in ("arg_name", "path", "task_name", "task_path")) + "]")
    m = wiring["merged"]
    L.append("/-- the PythonNode that replaces a container of unhashed python values of one parameter: its `NodeInfo` (`none`: it gets none). -/")
    L.append("def mergedNodeInfo : Option (List (String × NISrc)) := " + ("none" if m is None else
             "some [" + ", ".join(f'("{f}", .{m[f]})' for f in ("arg_name", "path", "task_name", "task_path")) + "]"))
    L.append("end Hsrc")
    L.append("")
    return L
