"""Translator section `extract_exprgen` (ExprTie, M3): the control structure of the recursive-descent parser, of the lexer
loop and of the matchers / selections as data for `lean/PytaskModel/ExprGen.lean`. The recognisers live in
`extract_expr.py` (`grammar_section`); this module only gives the section its own name, so that a failure breaks the tie
(`Properties/ExprTie.lean`) but leaves the facts the model `Expr.lean` consumes — and with them the driver — intact."""


def exprgen_section():
    import extract_expr
    return extract_expr.grammar_section()
