#!/usr/bin/env python3
"""Mutation self-test driver for C07 (development tool): apply a textual replacement to a scratch worktree of /repo,
write the diff to seeded_self/C07/<id>.diff, run ./check C07 against it, print the verdict, remove the worktree."""
import subprocess, sys, os, shutil
from pathlib import Path

WS = Path(__file__).resolve().parent.parent
EX = "src/_pytask/execute.py"
CU = "src/_pytask/collect_utils.py"
TU = "src/_pytask/tree_util.py"
ND = "src/_pytask/nodes.py"
M = {
 "1": [(EX, "for node, value in zip(nodes, values):", "for node, value in zip(nodes, reversed(values)):")],
 "2": [(EX, "is_prefix(structure_out, strict=False)", "is_prefix(structure_out, strict=True)")],
 "3": [(EX, """        if name in parameters:
            kwargs[name] = tree_map(
                lambda x: _safe_load(x, task, is_product=True), value
            )
""", """        kwargs[name] = tree_map(
            lambda x: _safe_load(x, task, is_product=True), value
        )
""")],
 "4": [(CU, "are_all_nodes_python_nodes_without_hash = all(", "are_all_nodes_python_nodes_without_hash = any(")],
 "5": [(CU, """    kwargs = {**signature_defaults, **task_kwargs}
    kwargs.pop("produces", None)""", """    kwargs = {**task_kwargs, **signature_defaults}
    kwargs.pop("produces", None)""")],
 "6": [(TU, """tree_map_with_path = functools.partial(
    _optree_tree_map_with_path, none_is_leaf=True""", """tree_map_with_path = functools.partial(
    _optree_tree_map_with_path, none_is_leaf=False""")],
 "7": [(EX, "kwargs[name] = tree_map(lambda x: _safe_load(x, task, is_product=False), value)",
            "kwargs[name] = tree_map(lambda x: _safe_load(x, task, is_product=True), value)")],
 "8": [(EX, 'structure_return = tree_structure(task.produces["return"])', 'structure_return = tree_structure(tree_leaves(task.produces["return"]))')],
 "9": [(CU, """            value = kwargs.get(parameter_name) or parameters_with_node_annot.get(
                parameter_name
            )""", """            value = parameters_with_node_annot.get(parameter_name) or kwargs.get(
                parameter_name
            )""")],
 "10": [(EX, """        if not structure_return.is_prefix(structure_out, strict=False):""", """        if structure_return.num_leaves > structure_out.num_leaves:""")],
 "11": [(CU, """        if parameter_name in parameters_with_product_annot:
            continue
""", """        if parameter_name in parameters_with_product_annot[:1]:
            continue
""")],
 "r1": [(EX, """    kwargs = {}
    for name, value in task.depends_on.items():
        kwargs[name] = tree_map(lambda x: _safe_load(x, task, is_product=False), value)

    for name, value in task.produces.items():
        if name in parameters:
            kwargs[name] = tree_map(
                lambda x: _safe_load(x, task, is_product=True), value
            )
""", """    def _load_all(tree: Any, *, is_product: bool) -> Any:
        return tree_map(lambda x: _safe_load(x, task, is_product=is_product), tree)

    kwargs = {
        name: _load_all(value, is_product=True)
        for name, value in task.produces.items()
        if name in parameters
    }
    for name, value in task.depends_on.items():
        kwargs.setdefault(name, _load_all(value, is_product=False))
"""), (EX, """        structure_out = tree_structure(out)
        structure_return = tree_structure(task.produces["return"])

        # strict must be false when none is leaf.
        if not structure_return.is_prefix(structure_out, strict=False):
            msg = (
                f"The structure of the return annotation is not a subtree of the "
                f"structure of the function return.\\n\\nFunction return: {structure_out}"
                f"\\n\\nReturn annotation: {structure_return}"
            )
            raise ValueError(msg)

        nodes = tree_leaves(task.produces["return"])
        values = structure_return.flatten_up_to(out)
""", """        structure_return = tree_structure(task.produces["return"])
        nodes = tree_leaves(task.produces["return"])
        try:
            values = structure_return.flatten_up_to(out)
        except ValueError as e:
            msg = f"The return does not fit the annotation {structure_return}."
            raise ValueError(msg) from e
""")],
 "r2": [(CU, """        are_all_nodes_python_nodes_without_hash = all(
            isinstance(x, PythonNode) and not x.hash for x in tree_leaves(nodes)
        )
""", """        hashed_or_other = [
            x for x in tree_leaves(nodes) if not isinstance(x, PythonNode) or x.hash
        ]
        are_all_nodes_python_nodes_without_hash = not hashed_or_other
""")],
}

def main():
    mid = sys.argv[1]
    wt = Path(f"/tmp/wt_c07_{mid}")
    subprocess.run(["git", "-C", "/repo", "worktree", "remove", "--force", str(wt)], capture_output=True)
    subprocess.run(["git", "-C", "/repo", "worktree", "add", "--detach", str(wt), "HEAD"], check=True, capture_output=True)
    try:
        for f, old, new in M[mid]:
            p = wt / f
            s = p.read_text()
            assert s.count(old) == 1, (mid, f, s.count(old))
            p.write_text(s.replace(old, new))
        subprocess.run(["/venv/bin/python", "-m", "py_compile"] + [str(wt / f) for f, _, _ in M[mid]], check=True)
        d = subprocess.run(["git", "-C", str(wt), "diff"], capture_output=True, text=True).stdout
        (WS / "seeded_self" / "C07" / f"{mid}.diff").write_text(d)
        env = dict(os.environ, VERIF_REPO=str(wt), VERIF_SEED=os.environ.get("VERIF_SEED", "0"))
        r = subprocess.run([str(WS / "check"), "C07"] + sys.argv[2:], capture_output=True, text=True, env=env, cwd=WS)
        lines = [l for l in (r.stdout + r.stderr).splitlines() if not l.startswith("KNOWN-FINDING")]
        print(f"=== mutant {mid}: exit {r.returncode}")
        print("\n".join(lines[-8:]))
    finally:
        subprocess.run(["git", "-C", "/repo", "worktree", "remove", "--force", str(wt)], capture_output=True)
        subprocess.run(["git", "-C", str(WS), "checkout", "lean/PytaskModel/Generated.lean"], capture_output=True)

main()
