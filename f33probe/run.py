import sys, pytask
from pathlib import Path
root = Path(__file__).parent
mode = sys.argv[1]
src = (root/"task_x.orig").read_text()
src = src.replace("MARK", "@pytask.mark.skip" if mode=="skip" else "").replace("BODY", "raise RuntimeError('x')" if mode=="fail" else "pass")
(root/"task_x.py").write_text(src)
for f in ("log.txt","s.txt","c.txt"): (root/f).unlink(missing_ok=True)
import shutil; shutil.rmtree(root/".pytask", ignore_errors=True)
s = pytask.build(paths=[root])
print(mode, "exit", int(s.exit_code), [(r.task.name.split("::")[-1], r.outcome.name) for r in s.execution_reports], "log", (root/"log.txt").read_text().split() if (root/"log.txt").exists() else [])
