from pathlib import Path
from typing import Annotated
import pytask
from pytask import task, Product
ROOT = Path(__file__).parent
LOG = ROOT / "log.txt"


def task_s(produces: Path = ROOT / "s.txt"):
    open(LOG, "a").write("s\n"); raise RuntimeError('x')
    produces.write_text("s")

@pytask.mark.try_last
@task(is_generator=True)
def task_gen():
    open(LOG, "a").write("gen\n")
    @task
    def task_child(path: Path = ROOT / "s.txt", produces: Path = ROOT / "c.txt"):
        open(LOG, "a").write("child\n")
        produces.write_text(path.read_text())
