import PytaskModel.Generated
import PytaskModel.Graph
import PytaskModel.Sorter
import PytaskModel.Engine
import PytaskModel.Capture
