import Driver.Main
