import PytaskModel.HashValue
import PytaskModel.PathNorm
import Driver.Proto
/-! Line-protocol front end for M4 (`hash.*`, `path.*`). Parsing and printing only.

`sha256` / `md5` are instantiated by structural stand-ins that *show their pre-image*:
`sha b = "<b₀.b₁.…>"` (decimal bytes).  The harness applies the real `hashlib` functions to the
pre-images, innermost first (`harness/impl/hash_api.py: realise`). -/
namespace Driver
open Pytask Pytask.Hash Pytask.PathNorm

structure HashSt where
  memo : Memo := {}

/-- stand-in digest: the pre-image, printed. -/
def standIn (b : Bytes) : Str :=
  ("<" ++ ".".intercalate (b.map fun x => toString x.toNat) ++ ">").toList

def dotNats? (s : String) : Option (List Nat) :=
  if s == "" then some [] else (s.splitOn ".").mapM (·.toNat?)

def cps? (s : String) : Option Str := (dotNats? s).map (·.map Char.ofNat)

def bytes? (s : String) : Option Bytes :=
  (dotNats? s).bind fun l => if l.all (· < 256) then some (l.map UInt8.ofNat) else none

def showCps (s : Str) : String := ".".intercalate (s.map fun c => toString c.toNat)

mutual
/-- prefix notation: `N` `B0|B1` `I<int>` `F<int>` `S<cps>` `Y<bytes>` `P<cps>` `T<n>,v₁,…,vₙ` `L<n>,…` -/
def parseVal (fuel : Nat) (toks : List String) : Option (PyVal × List String) :=
  match fuel, toks with
  | 0, _ => none
  | _, [] => none
  | fuel + 1, t :: rest =>
    match t.toList with
    | ['N'] => some (.none, rest)
    | ['B', '0'] => some (.bool false, rest)
    | ['B', '1'] => some (.bool true, rest)
    | 'I' :: ds => (String.ofList ds).toInt?.map fun i => (.int i, rest)
    | 'F' :: ds => (String.ofList ds).toInt?.map fun i => (.float i, rest)
    | 'S' :: ds => (cps? (String.ofList ds)).map fun s => (.str s, rest)
    | 'P' :: ds => (cps? (String.ofList ds)).map fun s => (.path s, rest)
    | 'Y' :: ds => (bytes? (String.ofList ds)).map fun b => (.bytes b, rest)
    | 'T' :: ds => do
        let n ← (String.ofList ds).toNat?
        let (xs, r) ← parseVals fuel n rest
        pure (.tuple xs, r)
    | 'L' :: ds => do
        let n ← (String.ofList ds).toNat?
        let (xs, r) ← parseVals fuel n rest
        pure (.list xs, r)
    | _ => none
def parseVals (fuel : Nat) (n : Nat) (toks : List String) : Option (List PyVal × List String) :=
  match fuel, n with
  | _, 0 => some ([], toks)
  | 0, _ => none
  | fuel + 1, n + 1 => do
    let (x, r) ← parseVal fuel toks
    let (xs, r') ← parseVals fuel n r
    pure (x :: xs, r')
end

def val? (s : String) : Option PyVal :=
  let toks := s.splitOn ","
  match parseVal (2 * toks.length + 2) toks with
  | some (v, []) => some v
  | _ => none

/-- tree path of a `NodeInfo`: comma separated `I<int>` / `S<cps>` (possibly empty). -/
def treePath? (s : String) : Option (List PyVal) :=
  (splitList s).mapM fun t =>
    match t.toList with
    | 'I' :: ds => (String.ofList ds).toInt?.map PyVal.int
    | 'S' :: ds => (cps? (String.ofList ds)).map PyVal.str
    | _ => none

def optCps? (s : String) : Option (Option Str) :=
  if s == "none" then some none else (cps? s).map some

/--
* `hash.value v=<val>`                                  → `ok:<str(hash_value(v))>` | `bad-value`
* `hash.pyint n=<int>`                                  → `<hash(n)>`
* `hash.sig kind=path|pickle path=<cps> [name=<cps>]`   → `<pre-image of the signature>`
* `hash.sig kind=task base=<cps> path=<cps>`
* `hash.sig kind=taskw name=<cps>`
* `hash.sig kind=dir root=none|<cps> pattern=<cps> [name=<cps>]`
* `hash.sig kind=python arg=<cps> tp=<I…|S…,…> tname=<cps> tpath=none|<cps>`  (`kind=python0`: no node info)
* `hash.pywrap hash=on|off v=<val>`                     → `ok:<state of the dependency wrapper> <state of the node>`
* `hash.memo.reset`                                     → `ok`
* `hash.state path=<cps> mt=<hash(st_mtime)> content=none|<bytes>` → `none` | `<pre-image of the state>`
* `path.norm cps=<cps>`                                 → `<cps of normpath>`
* `path.collect kind=plain|node base=<cps> p=<cps>`     → `<cps of the collected path>`
-/
def hashHandle (st : HashSt) (cmd : String) (a : Args) : HashSt × String :=
  let out (s : Str) : String := String.ofList s
  match cmd with
  | "hash.value" =>
    match val? (a.get "v") with
    | some v => (st, "ok:" ++ out (hashValue standIn v).render)
    | none => (st, "bad-value")
  | "hash.pyint" =>
    match (a.get "n").toInt? with
    | some n => (st, toString (pyHashInt n))
    | none => (st, "bad-op")
  | "hash.sig" =>
    let name := (cps? (a.get "name")).getD []
    match a.get "kind" with
    | "path" => match cps? (a.get "path") with
      | some p => (st, out (sigPathNode standIn name p))
      | none => (st, "bad-op")
    | "pickle" => match cps? (a.get "path") with
      | some p => (st, out (sigPickleNode standIn name p))
      | none => (st, "bad-op")
    | "task" => match cps? (a.get "base"), cps? (a.get "path") with
      | some b, some p => (st, out (sigTask standIn b p))
      | _, _ => (st, "bad-op")
    | "taskw" => match cps? (a.get "name") with
      | some n => (st, out (sigTaskWithoutPath standIn n))
      | none => (st, "bad-op")
    | "dir" => match optCps? (a.get "root"), cps? (a.get "pattern") with
      | some r, some pat => (st, out (sigDirNode standIn name r pat))
      | _, _ => (st, "bad-op")
    | "python" =>
      match cps? (a.get "arg"), treePath? (a.get "tp"), cps? (a.get "tname"), optCps? (a.get "tpath") with
      | some arg, some tp, some tn, some tpath =>
        (st, out (sigPythonNode standIn (some ⟨arg, tp, tn, tpath⟩)))
      | _, _, _, _ => (st, "bad-op")
    | "python0" => (st, out (sigPythonNode standIn none))
    | _ => (st, "bad-op")
  | "hash.pywrap" =>
    -- the dependency wrapper of `collect_dependency` around a PythonNode(hash=on|off), after the producer saved `v`
    let h : Option HashOpt := match a.get "hash" with | "on" => some .on | "off" => some .off | _ => none
    match h, val? (a.get "v") with
    | some h, some v =>
      let n : PNode := ⟨h, none⟩
      let w : PWrapper := { (wrapDependency n) with inner := n.save v }
      (st, match stateWrapper standIn w, statePythonNodeOpt standIn h (some v) with
           | some x, some y => "ok:" ++ out x ++ " " ++ out y
           | _, _ => "none")
    | _, _ => (st, "bad-op")
  | "hash.memo.reset" => ({ memo := {} }, "ok")
  | "hash.state" =>
    match cps? (a.get "path"), (a.get "mt").toInt? with
    | some p, some mh =>
      let file : Option (Option (Int × Bytes)) :=
        if a.get "content" == "none" then some none else (bytes? (a.get "content")).map fun c => some (mh, c)
      match file with
      | some f =>
        let (m, r) := stateOfFile standIn standIn st.memo p f
        ({ memo := m }, match r with | some s => out s | none => "none")
      | none => (st, "bad-op")
    | _, _ => (st, "bad-op")
  | "path.norm" =>
    match cps? (a.get "cps") with
    | some p => (st, showCps (normpath p))
    | none => (st, "bad-op")
  | "path.collect" =>
    match cps? (a.get "base"), cps? (a.get "p") with
    | some b, some p =>
      match a.get "kind" with
      | "plain" => (st, showCps (collectPath true b p))
      | "node" => (st, showCps (collectPath false b p))
      | _ => (st, "bad-op")
    | _, _ => (st, "bad-op")
  | _ => (st, "bad-op")

end Driver
