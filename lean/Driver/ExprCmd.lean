import PytaskModel.Expr
import Driver.Proto
/-! Line-protocol front end for M3 (selection expressions, C16). Parsing and calling the model only. -/
namespace Driver
open Pytask Pytask.SelExpr

structure ExprSt where
  unit : Unit := ()

/-- `97.98.99` → `['a','b','c']`; the empty string is the empty list. -/
def exprCps? (sep : String) (s : String) : Option (List Char) :=
  if s == "" then some [] else (s.splitOn sep).mapM (fun t => t.toNat?.map Char.ofNat)

def strList? (s : String) : Option (List (List Char)) :=
  if s == "" then some [] else (s.splitOn ";").mapM (exprCps? ".")

def task? (s : String) : Option TaskInfo :=
  match s.splitOn "/" with
  | [n, a, m] => do pure { name := ← exprCps? "." n, attrs := ← strList? a, markers := ← strList? m }
  | _ => none

def tasks? (s : String) : Option (List TaskInfo) :=
  if s == "" then some [] else (s.splitOn "|").mapM task?

def lowerTable? (s : String) : Option (List (List Char × List Char)) :=
  (splitList s).mapM (fun t => match t.splitOn ":" with
    | [a, b] => do pure (← exprCps? "." a, ← exprCps? "." b)
    | _ => none)

def showCErr : CErr → String
  | .syntax c => s!"parse-error:{c}"
  | .fuel => "fuel"

def showBits (l : List Bool) : String := String.ofList (l.map (fun b => if b then '1' else '0'))

/--
* `expr.eval cps=<code points> env=<ident cps '.'-joined>:<0|1>,… words=<code points that are \w>`
  → `ok:true` | `ok:false` | `parse-error:<col>`
* `expr.table cps=… idents=<ident>;<ident>… words=…` → `ok:<bits, assignment i = bit j of i for ident j>` | `parse-error:<col>`
* `expr.lex cps=… words=…` → `toks=<kind@pos>,… stop=eof@<pos>|bad@<pos>` (kinds `(` `)` `or` `and` `not` `id.<cps>`)
* `expr.select mode=k|m|after cps=… words=… tasks=<name>/<attr;…>/<marker;…>|… lower=<orig>:<lowered>,…`
  → `sel:<indices>` | `none` | `parse-error:<col>`
* `expr.project k=<-k expr> m=<-m expr> words=… tasks=… lower=…` → `sel:<indices of the tasks not deselected>` | `parse-error:<col>`
-/
def exprHandle (st : ExprSt) (cmd : String) (a : Args) : ExprSt × String :=
  let isWord? : Option (Char → Bool) := do
    let ws ← natList? (a.get "words"); pure (fun c => ws.contains c.toNat)
  match cmd with
  | "expr.eval" =>
    let env? : Option (List (List Char × Bool)) := (splitList (a.get "env")).mapM (fun t =>
      match t.splitOn ":" with
      | [k, v] => do pure (← exprCps? "." k, v == "1")
      | _ => none)
    match exprCps? "," (a.get "cps"), env?, isWord? with
    | some cs, some env, some isWord =>
      let m (s : List Char) : Bool := match env.find? (·.1 == s) with | some (_, v) => v | none => false
      match compileEval isWord m cs with
      | .ok b => (st, if b then "ok:true" else "ok:false")
      | .error e => (st, showCErr e)
    | _, _, _ => (st, "bad-op")
  | "expr.table" =>
    match exprCps? "," (a.get "cps"), strList? (a.get "idents"), isWord? with
    | some cs, some ids, some isWord =>
      match truthTable isWord ids cs with
      | .ok bs => (st, "ok:" ++ showBits bs)
      | .error e => (st, showCErr e)
    | _, _, _ => (st, "bad-op")
  | "expr.lex" =>
    match exprCps? "," (a.get "cps"), isWord? with
    | some cs, some isWord =>
      let l := lex isWord cs
      let showTok : Tok → String
        | .lparen => "(" | .rparen => ")" | .or => "or" | .and => "and" | .not => "not"
        | .ident s => "id." ++ ".".intercalate (s.map (fun c => toString c.toNat))
      let ts := ",".intercalate (l.toks.map (fun t => s!"{showTok t.1}@{t.2}"))
      let stop := match l.stop with | .eof p => s!"eof@{p}" | .bad p => s!"bad@{p}"
      (st, s!"toks={ts} stop={stop}")
    | _, _ => (st, "bad-op")
  | "expr.project" =>
    match exprCps? "," (a.get "k"), exprCps? "," (a.get "m"), isWord?, tasks? (a.get "tasks"), lowerTable? (a.get "lower") with
    | some k, some m, some isWord, some tasks, some tbl =>
      let lower (s : List Char) : List Char :=
        match tbl.find? (fun (p : List Char × List Char) => p.1 == s) with | some (_, v) => v | none => s
      match selectProject isWord lower k m tasks with
      | .ok l => (st, "sel:" ++ showNats l)
      | .error e => (st, showCErr e)
    | _, _, _, _, _ => (st, "bad-op")
  | "expr.select" =>
    match exprCps? "," (a.get "cps"), isWord?, tasks? (a.get "tasks"), lowerTable? (a.get "lower") with
    | some cs, some isWord, some tasks, some tbl =>
      let lower (s : List Char) : List Char := match tbl.find? (·.1 == s) with | some (_, v) => v | none => s
      let showSel (r : Except CErr (Option (List Nat))) : String :=
        match r with
        | .ok (some l) => "sel:" ++ showNats l
        | .ok none => "none"
        | .error e => showCErr e
      match a.get "mode" with
      | "k" => (st, showSel (selectByKeyword isWord lower cs tasks))
      | "m" => (st, showSel (selectByMark isWord cs tasks))
      | "after" => (st, showSel ((selectByAfter isWord lower cs tasks).map some))
      | _ => (st, "bad-op")
    | _, _, _, _ => (st, "bad-op")
  | _ => (st, "bad-op")

end Driver
