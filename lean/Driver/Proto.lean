/-!
Line protocol helpers: a request is `<cmd> key=value key=value …` (ASCII, space separated).
Lists are comma separated; pairs are `a>b`; maps are `k:v`. Parsing only — no model logic here.
-/
namespace Driver

abbrev Args := List (String × String)

def parseLine (line : String) : String × Args :=
  let toks := (line.trimAscii.toString.splitOn " ").filter (· ≠ "")
  match toks with
  | [] => ("", [])
  | cmd :: rest =>
    (cmd, rest.map (fun t =>
      match t.splitOn "=" with
      | [k] => (k, "")
      | k :: vs => (k, "=".intercalate vs)
      | [] => ("", "")))

def Args.get (a : Args) (k : String) : String :=
  match a.find? (·.1 == k) with
  | some (_, v) => v
  | none => ""

def Args.has (a : Args) (k : String) : Bool := a.any (·.1 == k)

def splitList (s : String) : List String := if s == "" then [] else s.splitOn ","

def natList? (s : String) : Option (List Nat) := (splitList s).mapM (·.toNat?)

def int? (s : String) : Option Int := s.toInt?

def pair? (sep : String) (s : String) : Option (Nat × Nat) :=
  match s.splitOn sep with
  | [a, b] => do let x ← a.toNat?; let y ← b.toNat?; pure (x, y)
  | _ => none

def pairList? (sep : String) (s : String) : Option (List (Nat × Nat)) := (splitList s).mapM (pair? sep)

def natIntMap? (s : String) : Option (List (Nat × Int)) :=
  (splitList s).mapM (fun t => match t.splitOn ":" with
    | [a, b] => do let x ← a.toNat?; let y ← b.toInt?; pure (x, y)
    | _ => none)

def showNats (l : List Nat) : String := ",".intercalate (l.map toString)

def lookupD {β} (m : List (Nat × β)) (d : β) (k : Nat) : β :=
  match m.find? (·.1 == k) with
  | some (_, v) => v
  | none => d

end Driver
