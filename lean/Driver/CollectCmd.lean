import PytaskModel.Collect
import Driver.Proto
/-! Line-protocol front end for M9a (collection, property C13). Parsing and rendering only.

Strings that may contain arbitrary characters travel as `.`-separated code points (`e` = empty string,
`~` = absent); path components are plain (`[A-Za-z0-9_.-]`), paths are `/`-joined without a leading `/`.

* `collect.reset`                                   → `ok`
* `collect.fs pre=<path> tree=<D:name|F:name|U , …>` → `ok` | `bad-op`       (preorder, `U` closes a directory)
* `collect.prog path=<path> imports=<stem,…> stmts=<stmt;…>` → `ok`
     stmt = `d|obj|bind|fname|p1,p2|k:v,k:v|tag`  `w|obj|name|id|k:v,…`  `v|bind`  `m|obj|<mixed 0/1>`;  v = `b0 b1 i<int> f<enc> s<enc> o`
* `collect.run root=<path> paths=<path,…> ignore=<enc,…> taskfiles=<enc,…> preloaded=<a.b,…> perm=<k> [ptasks=<path>|<enc name>|<tag>|<marked hasMeta mixed as 0/1>,…]`
     → `exit=<n> fails=<n> files=<n> tasks=<enc short name>:<tag>,… exec=<tag>,…`   (sorted)
* `collect.walk root=… paths=… ignore=…`             → `files=<path,…>` (in walk order)
* `collect.pmatch path=<path> pat=<enc>`             → `1` | `0`
* `collect.modkey root=<path> path=<path>`           → `pkg=<0|1> key=<a.b.c>`
-/
namespace Driver
open Pytask Pytask.Collect

structure CollectSt where
  fs : Option FS := none
  progs : List (Path × Prog) := []

def decS? (s : String) : Option String :=
  if s == "e" then some "" else
  ((s.splitOn ".").mapM (fun (t : String) => t.toNat?.map Char.ofNat)).map String.ofList

def decOpt? (s : String) : Option (Option String) :=
  if s == "~" then some none else (decS? s).map some

def encS (s : String) : String :=
  if s == "" then "e" else ".".intercalate (s.toList.map (fun c => toString c.toNat))

def pathOf (s : String) : Path := (s.splitOn "/").filter (· ≠ "")

def showPath (p : Path) : String := "/".intercalate p

def decList? (s : String) : Option (List String) := (splitList s).mapM decS?

def decVal? (s : String) : Option Val :=
  match s.toList with
  | 'b' :: r => some (.bool (String.ofList r == "1"))
  | 'i' :: r => (String.ofList r).toInt?.map Val.int
  | 'f' :: r => (decS? (String.ofList r)).map Val.float
  | 's' :: r => (decS? (String.ofList r)).map Val.str
  | ['o'] => some .other
  | _ => none

def decKV? (s : String) : Option (List (String × Val)) :=
  (splitList s).mapM (fun t => match t.splitOn ":" with
    | [k, v] => do let k ← decS? k; let v ← decVal? v; pure (k, v)
    | _ => none)

def decStmt? (s : String) : Option Stmt :=
  match s.splitOn "|" with
  | ["d", obj, bind, fname, params, defaults, tag] => do
    let o ← obj.toNat?; let b ← decOpt? bind; let f ← decS? fname; let ps ← decList? params
    let ds ← decKV? defaults; let t ← tag.toNat?
    pure (.defFn o b f ps ds t)
  | ["w", obj, name, id, kwargs] => do
    let o ← obj.toNat?; let n ← decOpt? name; let i ← decOpt? id; let kw ← decKV? kwargs
    pure (.wrap o n i kw)
  | ["v", bind] => (decS? bind).map Stmt.value
  | ["m", obj, mixed] => do let o ← obj.toNat?; pure (.mark o (mixed == "1"))
  | _ => none

/-- preorder tokens → forest; the stack holds (directory name, children so far, reversed). -/
def buildTree (toks : List String) : Option Tree :=
  let step (st : Option (List (String × List Tree) × Option Tree)) (tok : String) :
      Option (List (String × List Tree) × Option Tree) :=
    match st with
    | none => none
    | some (stack, done) =>
      if done.isSome then none else
      if tok == "U" then
        match stack with
        | (n, cs) :: (pn, pcs) :: rest => some ((pn, Tree.dir n cs.reverse :: pcs) :: rest, none)
        | [(n, cs)] => some ([], some (Tree.dir n cs.reverse))
        | [] => none
      else if tok.startsWith "D:" then some ((String.ofList (tok.toList.drop 2), []) :: stack, none)
      else if tok.startsWith "F:" then
        match stack with
        | (n, cs) :: rest => some ((n, Tree.file (String.ofList (tok.toList.drop 2)) :: cs) :: rest, none)
        | [] => none
      else none
  match toks.foldl step (some ([], none)) with
  | some ([], some t) => some t
  | _ => none

def sortStrs (l : List String) : List String := (l.toArray.qsort (· < ·)).toList

def renderShort (k : TKey) : String := "/".intercalate k.1 ++ "::" ++ k.2

def mkEnv? (st : CollectSt) (a : Args) : Option Env := do
  let fs ← st.fs
  let ign ← decList? (a.get "ignore")
  let tf ← decList? (a.get "taskfiles")
  pure { fs := fs,
         cfg := { root := pathOf (a.get "root"), paths := (splitList (a.get "paths")).map pathOf, ignore := ign, taskFiles := tf },
         progs := st.progs,
         preloaded := (splitList (a.get "preloaded")).map (fun s => s.splitOn "."),
         ptasks := ← (splitList (a.get "ptasks")).mapM (fun (t : String) => match t.splitOn "|" with
            | [f, n, tag, flags] => do
              let n ← decS? n; let tg ← tag.toNat?
              pure { file := pathOf f, name := n, tag := tg, marked := flags.toList[0]? == some '1',
                     hasMeta := flags.toList[1]? == some '1', mixedPrio := flags.toList[2]? == some '1' }
            | _ => none) }

def collectHandle (st : CollectSt) (cmd : String) (a : Args) : CollectSt × String :=
  match cmd with
  | "collect.reset" => ({}, "ok")
  | "collect.fs" =>
    match buildTree (splitList (a.get "tree")) with
    | some t => ({ st with fs := some { pre := pathOf (a.get "pre"), tree := t } }, "ok")
    | none => (st, "bad-op")
  | "collect.prog" =>
    match ((a.get "stmts").splitOn ";" |>.filter (· ≠ "")).mapM decStmt? with
    | some ss => ({ st with progs := st.progs ++ [(pathOf (a.get "path"), { imports := splitList (a.get "imports"), stmts := ss })] }, "ok")
    | none => (st, "bad-op")
  | "collect.run" =>
    match mkEnv? st a, (a.get "perm").toNat? with
    | some env, some k =>
      let out := collect env (enumK k)
      let names := shortNames (out.tasks.map (fun t => (t.path, t.base)))
      let ts := sortStrs (out.tasks.map (fun t => s!"{encS (renderShort (shortNameOf names (t.path, t.base)))}:{t.tag}"))
      let ex := if out.fails == 0 then sortStrs ((executed out.tasks).map (fun t => toString t.tag)) else []
      let nfiles := (notIgnoredPaths env.fs env.cfg.ignored env.cfg.paths).length
      (st, s!"exit={out.exit} fails={out.fails} files={nfiles} tasks={",".intercalate ts} exec={",".intercalate ex}")
    | _, _ => (st, "bad-op")
  | "collect.walk" =>
    match mkEnv? st a with
    | some env => (st, s!"files={",".intercalate ((notIgnoredPaths env.fs env.cfg.ignored env.cfg.paths).map showPath)}")
    | none => (st, "bad-op")
  | "collect.pmatch" =>
    match decS? (a.get "pat") with
    | some p => (st, if (parsePat p).matches (pathOf (a.get "path")) then "1" else "0")
    | none => (st, "bad-op")
  | "collect.modkey" =>
    match st.fs with
    | some fs =>
      let path := pathOf (a.get "path")
      match pkgTop fs path with
      | some pkg => (st, s!"pkg=1 key={".".intercalate (pkgKey pkg.dropLast path)}")
      | none => (st, s!"pkg=0 key={".".intercalate (pathKey (pathOf (a.get "root")) path)}")
    | none => (st, "bad-op")
  | _ => (st, "bad-op")

end Driver
