import PytaskModel.Clean
import Driver.Proto
/-! Line-protocol front end for M8 (`pytask clean`). Parsing and printing only. -/
namespace Driver
open Pytask Pytask.Clean

structure CleanSt where
  unit : Unit := ()

def hexVal (c : Char) : Option Nat :=
  if '0' ≤ c && c ≤ '9' then some (c.toNat - '0'.toNat)
  else if 'a' ≤ c && c ≤ 'f' then some (c.toNat - 'a'.toNat + 10)
  else if 'A' ≤ c && c ≤ 'F' then some (c.toNat - 'A'.toNat + 10)
  else none

/-- `%xx` → character. -/
def pctDecode : List Char → List Char
  | '%' :: a :: b :: rest =>
    match hexVal a, hexVal b with
    | some x, some y => Char.ofNat (16 * x + y) :: pctDecode rest
    | _, _ => '%' :: pctDecode (a :: b :: rest)
  | c :: rest => c :: pctDecode rest
  | [] => []

def hexDigit (n : Nat) : Char := if n < 10 then Char.ofNat ('0'.toNat + n) else Char.ofNat ('a'.toNat + n - 10)

def pctEncode (s : List Char) : String :=
  String.ofList (s.flatMap fun c =>
    if c.isAlphanum || c == '.' || c == '_' || c == '-' then [c]
    else ['%', hexDigit (c.toNat / 16 % 16), hexDigit (c.toNat % 16)])

def decName (s : String) : Name := pctDecode s.toList

/-- `/a/b%20c` → `[a, "b c"]`. -/
def decPath (s : String) : Path := ((s.splitOn "/").filter (· ≠ "")).map decName

def decPaths (s : String) : List Path := (splitList s).map decPath

def encPath (p : Path) : String := if p.isEmpty then "/" else String.join (p.map fun c => "/" ++ pctEncode c)

def sortStrings (l : List String) : List String := (l.toArray.qsort (· < ·)).toList

def showPaths (ps : List Path) : String := ",".intercalate (sortStrings (ps.map encPath))

/-- Pre-order tokens `d:<name>`, `f:<name>`, `u` → forest. The stack holds the open directories. -/
def parseFTree (toks : List String) : Option (List FTree) :=
  let rec go : List String → List (Name × List FTree) → List FTree → Option (List FTree)
    | [], [], acc => some acc.reverse
    | [], _ :: _, _ => none
    | t :: ts, stack, acc =>
      if t == "u" then
        match stack with
        | (n, outer) :: st => go ts st (FTree.dir n acc.reverse :: outer)
        | [] => none
      else if t.startsWith "d:" then go ts ((decName (t.drop 2).toString, acc) :: stack) []
      else if t.startsWith "f:" then go ts stack (FTree.file (decName (t.drop 2).toString) :: acc)
      else none
  go toks [] []

/-- The directory `/` with the given forest at `base`. -/
def wrapBase (base : Path) (forest : List FTree) : FTree :=
  FTree.dir [] (base.foldr (fun n inner => [FTree.dir n inner]) forest)

def showEntries (es : List (Path × Bool)) : String :=
  ",".intercalate (sortStrings (es.map fun e => (if e.2 then "d:" else "f:") ++ encPath e.1))

def b01 (s : String) : Bool := s == "1"

/--
* `clean.pmatch path=<path> pat=<enc>` → `1` | `0`                       (`PurePosixPath(path).match(pat)`)
* `clean.list base=<path> tree=<tokens> roots=<paths> known=<paths> exclpaths=<paths> excl=<enc,…> dirs=0|1`
  → `listed=<paths>`                                                      (`_find_all_unknown_paths`)
* `clean.run base= tree= roots= root= config=<path>|- mods= nodes= dnodes= excl= dirs= mode=dry|force|inter yes=<paths>
   git=0|1 top=<path>|- tracked=<relative paths>` → `listed=<paths> tree=<d|f>:<path>,…`   (the command)
-/
def cleanHandle (st : CleanSt) (cmd : String) (a : Args) : CleanSt × String :=
  let fs? : Option (Path × List FTree) := do
    let forest ← parseFTree (splitList (a.get "tree"))
    pure (decPath (a.get "base"), forest)
  match cmd with
  | "clean.pmatch" =>
    (st, if pmatch (decPath (a.get "path")) (decName (a.get "pat")) then "1" else "0")
  | "clean.list" =>
    match fs? with
    | some (base, forest) =>
      let known := decPaths (a.get "known")
      let pats := (decPaths (a.get "exclpaths")).map asPosix ++ (splitList (a.get "excl")).map decName
      let listed := findAllUnknown (wrapBase base forest) (fun p => known.contains p) (fun p => pats.any (pmatch p))
        (decPaths (a.get "roots")) (b01 (a.get "dirs"))
      (st, s!"listed={showPaths listed}")
    | none => (st, "bad-op")
  | "clean.root" =>
    -- `clean.root base= tree= common=<path> tables=<path>|<dotted table>,…` (every table of every pyproject.toml)
    --   → `root=<path> config=<path>|-`
    match fs? with
    | some (base, forest) =>
      let tables : List (Path × List String) := (splitList (a.get "tables")).filterMap fun e =>
        match e.splitOn "|" with
        | [p, t] => some (decPath p, (t.splitOn ".").map fun k => String.ofList (decName k))
        | _ => none
      let r := findRoot (wrapBase base forest) (configSectionPresent tables) (decPath (a.get "common"))
      (st, s!"root={encPath r.1} config={match r.2 with | some c => encPath c | none => "-"}")
    | none => (st, "bad-op")
  | "clean.run" =>
    let modeName := match a.get "mode" with
      | "inter" => "interactive" | "dry" => "dry-run" | m => m
    match fs?, Mode.ofString modeName with
    | some (base, forest), some mode =>
      let opt (k : String) : Option Path := if a.get k == "-" || a.get k == "" then none else some (decPath (a.get k))
      let sess : Session := {
        root := decPath (a.get "root"), config := opt "config", paths := decPaths (a.get "roots"),
        taskPaths := decPaths (a.get "mods"), nodePaths := decPaths (a.get "nodes"),
        provisionalPaths := decPaths (a.get "dnodes"),
        userExclude := (splitList (a.get "excl")).map decName, directories := b01 (a.get "dirs"),
        git := { installed := b01 (a.get "git"), top := opt "top", tracked := decPaths (a.get "tracked") } }
      let fs := wrapBase base forest
      let yes := decPaths (a.get "yes")
      let r := clean mode false (fun p => yes.contains p) sess fs
      let after := match subtree r.2 base with
        | some t => entriesIn base t.children
        | none => []
      (st, s!"listed={showPaths (unknownPaths sess fs)} tree={showEntries after}")
    | _, _ => (st, "bad-op")
  | _ => (st, "bad-op")

end Driver
