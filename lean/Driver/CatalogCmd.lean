import PytaskModel.Catalog
import Driver.Proto
/-! Line-protocol front end for M9b (`DataCatalog`). Parsing and printing only. -/
namespace Driver
open Pytask Pytask.Catalog

structure CatalogSt where
  /-- table of `sha256(entry).hexdigest()` supplied by the harness (`catalog.sha`) -/
  sha : List (Str × Str) := []
  st : Catalog.St := Catalog.St.init []

/-- A string sent as a comma-separated list of code points (`""` = the empty string). -/
def cpStr? (s : String) : Option Str := (natList? s).map (·.map Char.ofNat)

/-- A path sent as `;`-separated components, each a code-point list (`""` = the root). -/
def cpPath? (s : String) : Option Catalog.Path :=
  if s == "" then some [] else (s.splitOn ";").mapM cpStr?

def showStr (s : Str) : String := ",".intercalate (s.map fun c => toString c.toNat)
def showPath (p : Catalog.Path) : String := ";".intercalate (p.map showStr)

/-- The digest function the model is run with: the harness's table; an entry the harness did not
announce gets a digest that cannot collide with a real one. -/
def shaOf (tbl : List (Str × Str)) (e : Str) : Str :=
  match tbl.lookup e with
  | some d => d
  | none => '?' :: e

/--
* `catalog.valid name=<cps>` → `valid=0|1 full=0|1`
* `catalog.sha e=<cps> d=<cps>` → `ok`   (announces `sha256(e).hexdigest()`)
* `catalog.path root=<path> cat=<cps> e=<cps>` → `path=<path> dir=<path>` | `rejected`
* `catalog.reset root=<path>` → `ok`  (empty project, first session, empty digest table)
* `catalog.op k=new` → `done`; `catalog.op k=save cat=… e=… v=<n>` → `done` | `rejected`;
  `catalog.op k=load cat=… e=…` → `loaded=<n>` | `loaded=none` | `rejected`
-/
def catalogHandle (st : CatalogSt) (cmd : String) (a : Args) : CatalogSt × String :=
  let b (x : Bool) := if x then "1" else "0"
  let showAns : Ans → String
    | .done => "done"
    | .rejected => "rejected"
    | .loaded none => "loaded=none"
    | .loaded (some v) => s!"loaded={v}"
  match cmd with
  | "catalog.valid" =>
    match cpStr? (a.get "name") with
    | some n => (st, s!"valid={b (validName n)} full={b (fullyValidB n)}")
    | none => (st, "bad-op")
  | "catalog.sha" =>
    match cpStr? (a.get "e"), cpStr? (a.get "d") with
    | some e, some d => ({ st with sha := (e, d) :: st.sha }, "ok")
    | _, _ => (st, "bad-op")
  | "catalog.path" =>
    match cpPath? (a.get "root"), cpStr? (a.get "cat"), cpStr? (a.get "e") with
    | some root, some cat, some e =>
      if validName cat then
        (st, s!"path={showPath (entryPath (shaOf st.sha) root cat e)} dir={showPath (catalogDir root cat)}")
      else (st, "rejected")
    | _, _, _ => (st, "bad-op")
  | "catalog.reset" =>
    match cpPath? (a.get "root") with
    | some root => ({ sha := [], st := Catalog.St.init root }, "ok")
    | none => (st, "bad-op")
  | "catalog.op" =>
    let op? : Option Op :=
      match a.get "k" with
      | "new" => some .newSession
      | "save" => do
        let c ← cpStr? (a.get "cat"); let e ← cpStr? (a.get "e"); let v ← (a.get "v").toNat?
        pure (.save c e v)
      | "load" => do
        let c ← cpStr? (a.get "cat"); let e ← cpStr? (a.get "e")
        pure (.load c e)
      | _ => none
    match op? with
    | some op =>
      let r := Catalog.step (shaOf st.sha) st.st op
      ({ st with st := r.1 }, showAns r.2)
    | none => (st, "bad-op")
  | _ => (st, "bad-op")

end Driver
