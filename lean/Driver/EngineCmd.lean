import PytaskModel.Engine
import Driver.Proto
/-! Line-protocol front end for M6 (engine). Parsing + calling the model only. -/
namespace Driver
open Pytask Pytask.Engine

structure EngineSt where
  P : Project := ⟨[]⟩
  w : World := ⟨[], []⟩

/-- The concrete body function of generated projects (harness/impl/project.py computes the same). -/
def bodyF : BodyFn := fun t i src ds =>
  let m : Nat := 2305843009213693951
  let h := ds.foldl (fun acc d => (acc * 31 + (match d with | some x => x + 7 | none => 3)) % m) 17
  (((t * 1000003 + i) * 1000003 + src.getD 0) * 1000003 + h) % m

def showOutcome : Outcome → String
  | .success => "SUCCESS" | .persistence => "PERSISTENCE" | .skipUnchanged => "SKIP_UNCHANGED"
  | .skip => "SKIP" | .skipPrevFailed => "SKIP_PREVIOUS_FAILED" | .fail => "FAIL"
  | .wouldBeExecuted => "WOULD_BE_EXECUTED"

def parseBeh (s : String) : Option Beh :=
  if s == "ok" || s == "" then some .ok
  else if s == "early" then some .raisesEarly
  else if s == "late" then some .raisesLate
  else if s == "loadfail" then some .loadFails
  else if s == "savefail" then some .saveFails
  else match s.splitOn ":" with
    | ["omit", k] => k.toNat?.map Beh.omits
    | _ => none

def optList? (s : String) : Option (Option (List Nat)) :=
  if s == "none" then some none else (natList? s).map some

def natPairs? (s : String) : Option (List (Nat × Nat)) := pairList? ":" s

def sortNatPairs (l : List (Nat × Nat)) : List (Nat × Nat) :=
  (l.toArray.qsort (fun x y => x.1 < y.1 || (x.1 == y.1 && x.2 < y.2))).toList

def showFs (fs : FS) : String :=
  ",".intercalate ((sortNatPairs fs).map fun e => s!"{e.1}:{e.2}")

def showDb (db : DB) : String :=
  let l := db.map (fun e => (e.1.1, e.1.2, e.2))
  let l := (l.toArray.qsort (fun x y => x.1 < y.1 || (x.1 == y.1 && x.2.1 < y.2.1))).toList
  ",".intercalate (l.map fun e => s!"{e.1}/{e.2.1}:{e.2.2}")

def parseCfg (a : Args) : Option Cfg := do
  let mf ← (if a.get "maxfail" == "inf" || a.get "maxfail" == "" then some none else (a.get "maxfail").toNat?.map some)
  let k ← (if a.has "selk" then optList? (a.get "selk") else some none)
  let m ← (if a.has "selm" then optList? (a.get "selm") else some none)
  pure { force := a.get "force" == "1", dry := a.get "dry" == "1", maxFail := mf, selK := k, selM := m }

def engineHandle (st : EngineSt) (cmd : String) (a : Args) : EngineSt × String :=
  match cmd with
  | "engine.reset" => ({}, "ok")
  | "engine.task" =>
    match (a.get "id").toNat?, (a.get "src").toNat?, natList? (a.get "deps"), natList? (a.get "prods"),
          natList? (a.get "after"), (if a.get "prio" == "" then some 0 else (a.get "prio").toInt?), parseBeh (a.get "beh") with
    | some id, some src, some deps, some prods, some after, some prio, some beh =>
      let fl := splitList (a.get "flags")
      let t : TaskSpec := { id, src, deps, prods, after, skip := fl.contains "skip", skipif := fl.contains "skipif",
                            persist := fl.contains "persist", prio, beh }
      ({ st with P := ⟨st.P.tasks.filter (·.id != id) ++ [t]⟩ }, "ok")
    | _, _, _, _, _, _, _ => (st, "bad-op")
  | "engine.rmtask" =>
    match (a.get "id").toNat? with
    | some id => ({ st with P := ⟨st.P.tasks.filter (·.id != id)⟩ }, "ok")
    | none => (st, "bad-op")
  | "engine.fs" =>
    match natPairs? (a.get "set"), natList? (a.get "del") with
    | some sets, some dels =>
      let fs := sets.foldl (fun fs (k, v) => Engine.insert fs k v) st.w.fs
      let fs := fs.filter (fun e => !dels.contains e.1)
      ({ st with w := { st.w with fs := fs } }, "ok")
    | _, _ => (st, "bad-op")
  | "engine.cleardb" => ({ st with w := { st.w with db := [] } }, "ok")
  | "engine.world" => (st, s!"fs={showFs st.w.fs} db={showDb st.w.db}")
  | "engine.dag" =>
    match parseCfg a with
    | some cfg =>
      match createDag st.P cfg with
      | .error .cycle => (st, "err:cycle")
      | .error .sharedProduct => (st, "err:shared")
      | .error .sorterCycle => (st, "err:sorter")
      | .ok (g, marks) =>
        let anc := st.P.tasks.map (fun t => s!"{t.id}<{showNats (((taskAnc g t.id).toArray.qsort (· < ·)).toList)}")
        (st, s!"ok sortercycle={if g.hasCycle then 1 else 0} desel={showNats ((marks.toArray.qsort (· < ·)).toList.eraseDups)} anc={";".intercalate anc}")
    | none => (st, "bad-op")
  | "engine.build" =>
    match parseCfg a, natList? (a.get "picks") with
    | some cfg, some picks =>
      match build bodyF st.P cfg st.w picks with
      | .error (.notReady t) => (st, s!"illegal:not-ready:{t}")
      | .error (.unknownTask t) => (st, s!"illegal:unknown:{t}")
      | .error .leftover => (st, "illegal:leftover")
      | .ok r =>
        let reps := ",".intercalate (r.reports.map fun e => s!"{e.1}:{showOutcome e.2}")
        ({ st with w := r.w }, s!"ok exit={r.exit} complete={if r.complete then 1 else 0} reports={reps} log={showNats r.log} fs={showFs r.w.fs}")
    | _, _ => (st, "bad-op")
  | _ => (st, "bad-op")

end Driver
